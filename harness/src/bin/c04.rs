//! C04: Turtle / TriG output (plain or pretty) parses back to an isomorphic dataset.
//!
//! Streams of cases, all derived from --seed (the first three by case index mod 8):
//!  * shape (indices = 0..5 mod 8): a dataset assembled from graph-SHAPE fragments (blank cycles with and
//!    without tails, self-loops, shared / unreferenced / object-only blank nodes, nested property lists,
//!    well-formed / branching / cyclic / shared-tail / unowned / improper lists, lists whose owner is one of
//!    their items, quoted triples -- asserted or not -- containing rdf:nil / blank nodes / literals / quoted
//!    triples, annotations, blank nodes spanning several named graphs or used as graph names, numeric and
//!    boolean literals with valid and invalid lexical forms, IRIs whose local part cannot be a PN_LOCAL,
//!    rdf:nil in every position) is serialised by sophia's TurtleSerializer / TrigSerializer, pretty or not,
//!    with a random prefix map (overlapping namespaces, empty prefix, none) and indentation string.
//!    ORACLE (plain Rust, the property itself): sophia's own parser reads the text back without error,
//!    without duplicate statements, to a dataset isomorphic to the input (sophia_isomorphism, cross-checked
//!    by a brute-force search over blank node bijections when there are at most 6 blank nodes).
//!    A failure is reported with the shape classes of the case.
//!    Coq (pretty mode only): `plan_ok` = the model's plan (C04/Model.v: set of labelled blank nodes,
//!    number of collections, number of inlined property lists) against what the implementation wrote
//!    (`_:` labels, `(` and `[` counted in the output outside strings and IRIs).
//!  * literal (6 mod 8): one triple whose object is a literal (every XSD numeric / boolean datatype x valid
//!    and invalid lexical forms); oracle as above; Coq: `lit_ok` = the regenerated regexes' decision to
//!    write it bare against the implementation's.
//!  * pname (7 mod 8): one triple whose object is an IRI, random prefix map; oracle as above;
//!    Coq: `pname_ok` = model of get_checked_prefixed_pair + regenerated PN_LOCAL against the token written.
//!
//!  * term (indices 1_000_000 + k, n/4 of them): ONE TERM in a chosen position (object, subject, predicate, graph name;
//!    the components of quoted triples are reached through quoted terms) of a one-statement dataset, under a generated
//!    prefix map (prefixes that are prefixes of each other, `a.b`, `true`, the empty prefix, namespaces ending in `#`,
//!    `/`, in the middle of a segment, equal namespaces), written by the real pretty serializer.  The layout around
//!    the term is known (write_tree / write_properties), so the BYTES OF THE TERM are cut out of the output and compared
//!    inside Coq with C04/TermText.v (`wr_at`, byte for byte); the hypotheses of the term theorem are evaluated on the
//!    case (`hyps_ok`) and the reference reader of C04/TermRead.v reads the real bytes + continuation back
//!    (`reads_back`).  ORACLE: sophia's own parser reads the document back to the same statement.  Directed material:
//!    near-miss lexical forms of the shorthands, local names with every PN_LOCAL_ESC character, `%` sequences,
//!    leading / trailing `.` `-` `:`, non-ASCII and astral code points, labels with inner dots, relative IRIs,
//!    rdf:nil, variables (text compared, reader must reject), and inputs OUTSIDE the hypotheses (text compared only).
//!
//!  * deep (indices 2_000_000 + k: a directed list, then n/80 random ones): DEEP and WIDE trees of blank nodes -- one chain of every
//!    length 61..68 nested in each of the ways a blank node can be nested (object, rdf:type object, item of a collection, of a nested
//!    collection, object of an annotation, below a quoted triple, below a blank node that is the subject of a quoted triple), several
//!    branches deeper than the writer's nesting bound under ONE root (IRI, blank node sorting before / after the nodes cut loose),
//!    forks at and around the bound, deep branches under different roots and in different graphs, chains cut several times.
//!    ORACLE: the round trip.  Coq: `plan_d_ok max_depth` (C04/Deep.v) = the plan AND the write phase with its cuts and re-scans
//!    (labels = planned + cut loose, `(`, `[`), the model's accounting, and Model.plan_ok as well when nothing is cut.
//!  * prefix (indices 3_000_000 + k: a directed list of near misses and of code points on both sides of every boundary of PN_CHARS_BASE /
//!    PN_CHARS, then n/8 random strings): ONE candidate prefix given to one of sophia's public constructors of `Prefix` (Prefix::new on
//!    Box<str> / &str / String, serde, is_valid_prefix, new_unchecked).  Coq: `prefix_ctor_ok` = the model of is_valid_prefix over the
//!    REGENERATED regular expression against what the constructor answered.  ORACLE: an ACCEPTED prefix is put in the prefix map
//!    (TurtleConfig::with_own_prefix_map / with_prefix_map) of the pretty writer on a dataset using its namespace: it must be a
//!    PN_PREFIX? of the grammar (decided here independently) and the document must parse back to an isomorphic dataset.
//!    (Not applied to prefixes with two consecutive dots: rio_turtle's parser refuses them although production [167s] has them.)
//!
//!  * doc (indices 4_000_000 + k: a directed list, then n/10 random ones): WHOLE DOCUMENTS of the class "no abbreviation of blank nodes"
//!    (IRI / labelled-blank / quoted subjects and graph names incl. blank graph names, every literal kind, quoted triples as terms,
//!    rdf:type with several objects, several predicates and objects per subject, several graphs, prefixes named like the key words
//!    GRAPH / PREFIX, every white-space indentation), every blank node being forced to be labelled (graph name, inside a quoted triple,
//!    two graphs, twice an object, self-loop).  The real pretty serializer (Turtle and TriG) writes the dataset; the WHOLE output is
//!    compared BYTE FOR BYTE inside Coq with C04/DocText.v (`wr_doc`, the plan being computed by Model.make_plan on the interned
//!    dataset), the hypotheses of the document theorems are evaluated (incl. `store_sorted` on the store's iteration order) and the
//!    reference reader of C04/DocRead.v reads the real bytes back to the quads the model says are stated (`doc_case_ok`); a dataset
//!    whose output shows an abbreviation must be outside the class for the model (`doc_outside_ok`).  ORACLE: the round trip, and the
//!    parser returns exactly the quads of the store in the order (graph, subject, rdf:type first).
//!
//!  `--witness` runs the recorded witnesses of the defects found on the original tree and exits.
//!  `--probe-lex HEX` prints what the implementation does with the lexical form (UTF-8 bytes in hex).
use sophia_api::prefix::{Prefix, PrefixMapPair};
use sophia_api::quad::{Gspo, Spog};
use sophia_api::serializer::{QuadSerializer, Stringifier, TripleSerializer};
use sophia_api::source::{QuadSource, TripleSource};
use sophia_api::term::{Term, TermKind};
use sophia_iri::Iri;
use sophia_turtle::serializer::trig::TrigSerializer;
use sophia_turtle::serializer::turtle::{TurtleConfig, TurtleSerializer};
use std::collections::{BTreeMap, BTreeSet};
use std::sync::atomic::{AtomicUsize, Ordering};
use verif_harness::*;

// ---------------------------------------------------------------- memory guard
// A malformed list inside an unbroken blank node cycle makes the pre-fix build_lists push items forever.
// Turn that into a quick, identifiable crash instead of exhausting the machine.
struct Guard;
static ALLOCATED: AtomicUsize = AtomicUsize::new(0);
static CURRENT_CASE: AtomicUsize = AtomicUsize::new(usize::MAX);
static QUIET: std::sync::atomic::AtomicBool = std::sync::atomic::AtomicBool::new(false);
fn quietly<R>(f: impl FnOnce() -> R + std::panic::UnwindSafe) -> std::thread::Result<R> {
    QUIET.store(true, Ordering::Relaxed);
    let r = std::panic::catch_unwind(f);
    QUIET.store(false, Ordering::Relaxed);
    r
}
const MEM_LIMIT: usize = 3 << 30;
static CASE_START_MS: AtomicUsize = AtomicUsize::new(0);
const TIME_LIMIT_MS: usize = 20_000;
fn now_ms() -> usize { std::time::SystemTime::now().duration_since(std::time::UNIX_EPOCH).map(|d| d.as_millis() as usize).unwrap_or(0) }
unsafe impl std::alloc::GlobalAlloc for Guard {
    unsafe fn alloc(&self, l: std::alloc::Layout) -> *mut u8 {
        if ALLOCATED.fetch_add(l.size(), Ordering::Relaxed) > MEM_LIMIT {
            let msg = format!("c04: memory limit exceeded while serialising case {} (unbounded loop in the pretty-printer's planning phase?)\n", CURRENT_CASE.load(Ordering::Relaxed) as isize);
            unsafe { write_stderr(msg.as_bytes()) };
            std::process::abort();
        }
        unsafe { std::alloc::System.alloc(l) }
    }
    unsafe fn dealloc(&self, p: *mut u8, l: std::alloc::Layout) {
        ALLOCATED.fetch_sub(l.size(), Ordering::Relaxed);
        unsafe { std::alloc::System.dealloc(p, l) }
    }
}
unsafe fn write_stderr(b: &[u8]) {
    use std::io::Write;
    let _ = std::io::stderr().write_all(b);
}
#[global_allocator]
static GUARD: Guard = Guard;

// ---------------------------------------------------------------- terms
#[derive(Clone, Debug, PartialEq, Eq, PartialOrd, Ord)]
enum T { Iri(String), B(String), Lit(String, String), Lang(String, String), Tr(Box<[T; 3]>), V(String) }
type Q = (Option<T>, [T; 3]);

fn to_st(t: &T) -> ST {
    match t {
        T::Iri(s) => iri(s),
        T::B(s) => bnode(s),
        T::Lit(l, d) => lit_dt(l, d),
        T::Lang(l, g) => lit_lang(l, g),
        T::Tr(b) => triple(to_st(&b[0]), to_st(&b[1]), to_st(&b[2])),
        T::V(s) => var(s),
    }
}
fn from_term<X: Term>(x: X) -> T {
    match x.kind() {
        TermKind::Iri => T::Iri(x.iri().unwrap().as_str().to_string()),
        TermKind::BlankNode => T::B(x.bnode_id().unwrap().as_str().to_string()),
        TermKind::Literal => match x.language_tag() {
            Some(tag) => T::Lang(x.lexical_form().unwrap().to_string(), tag.as_str().to_ascii_lowercase()),
            None => T::Lit(x.lexical_form().unwrap().to_string(), x.datatype().unwrap().as_str().to_string()),
        },
        TermKind::Triple => { let [s, p, o] = x.triple().unwrap(); T::Tr(Box::new([from_term(s), from_term(p), from_term(o)])) }
        TermKind::Variable => T::Iri(format!("?variable?{}", x.variable().unwrap().as_str())),
    }
}
/// language tags folded to lower case (Term::eq ignores their case; Rio lower-cases them)
fn canon(t: &T) -> T {
    match t {
        T::Lang(l, g) => T::Lang(l.clone(), g.to_ascii_lowercase()),
        T::Tr(b) => T::Tr(Box::new([canon(&b[0]), canon(&b[1]), canon(&b[2])])),
        _ => t.clone(),
    }
}
fn show(t: &T) -> String {
    match t {
        T::Iri(s) => format!("<{s}>"),
        T::B(s) => format!("_:{s}"),
        T::Lit(l, d) => format!("{l:?}^^<{d}>"),
        T::Lang(l, g) => format!("{l:?}@{g}"),
        T::Tr(b) => format!("<< {} {} {} >>", show(&b[0]), show(&b[1]), show(&b[2])),
        T::V(s) => format!("?{s}"),
    }
}
fn show_q(q: &Q) -> String {
    let s = format!("{} {} {}", show(&q.1[0]), show(&q.1[1]), show(&q.1[2]));
    match &q.0 { None => format!("{s} ."), Some(g) => format!("GRAPH {} {{ {s} }}", show(g)) }
}
fn bnodes_of(t: &T, out: &mut BTreeSet<String>) {
    match t { T::B(s) => { out.insert(s.clone()); } T::Tr(b) => { for x in b.iter() { bnodes_of(x, out) } } _ => {} }
}
fn rename(t: &T, m: &BTreeMap<String, String>) -> T {
    match t {
        T::B(s) => T::B(m.get(s).cloned().unwrap_or_else(|| s.clone())),
        T::Tr(b) => T::Tr(Box::new([rename(&b[0], m), rename(&b[1], m), rename(&b[2], m)])),
        _ => t.clone(),
    }
}

const EX: &str = "http://example.org/ns/";
fn ex(l: &str) -> T { T::Iri(format!("{EX}{l}")) }
fn rdf(l: &str) -> T { T::Iri(format!("{RDF}{l}")) }
fn xsd(l: &str) -> String { format!("{XSD}{l}") }
fn b(l: &str) -> T { T::B(l.to_string()) }
fn qt(s: T, p: T, o: T) -> T { T::Tr(Box::new([s, p, o])) }

// ---------------------------------------------------------------- a case
#[derive(Clone)]
struct Case {
    shapes: Vec<String>,
    quads: Vec<Q>,
    prefixes: Vec<(String, String)>,
    indent: String,
    pretty: bool,
    trig: bool,
    /// how the prefixes of the prefix map are constructed (see CTORS; 0 = Prefix::new_unchecked, as before)
    ctor: usize,
}

/// None = the configuration is refused (with_indentation panics on a string that is not white space)
fn config_of(c: &Case) -> Option<TurtleConfig> {
    let (pretty, indent) = (c.pretty, c.indent.clone());
    if c.ctor == 2 {
        // borrowed prefixes and namespaces, copied by with_prefix_map (PrefixMap::to_vec)
        let mut pm: Vec<(Prefix<&str>, Iri<&str>)> = vec![];
        for (p, n) in &c.prefixes { pm.push((Prefix::new(p.as_str()).ok()?, Iri::new(n.as_str()).ok()?)); }
        return quietly(move || TurtleConfig::new().with_pretty(pretty).with_prefix_map(&pm[..]).with_indentation(indent)).ok();
    }
    let mut pm: Vec<PrefixMapPair> = vec![];
    for (p, n) in &c.prefixes { pm.push((make_prefix(c.ctor, p)?, Iri::new_unchecked(n.clone().into_boxed_str()))); }
    quietly(move || TurtleConfig::new().with_pretty(pretty).with_own_prefix_map(pm).with_indentation(indent)).ok()
}
/// the ways a prefix string becomes a `Prefix` through sophia's public API
const CTORS: &[&str] = &["Prefix::new_unchecked(Box<str>) [validates in this build profile]", "Prefix::new(Box<str>)", "Prefix::new(&str) + TurtleConfig::with_prefix_map", "serde: Prefix<String> deserialised from a JSON string",
    "Prefix::new(String)", "is_valid_prefix(&str), then Prefix::new_unchecked"];
/// None = the constructor refuses the string
fn make_prefix(ctor: usize, p: &str) -> Option<Prefix<Box<str>>> {
    match ctor {
        0 => { let p = p.to_string(); quietly(move || Prefix::new_unchecked(p.into_boxed_str())).ok() }
        1 | 2 => Prefix::new(Box::<str>::from(p)).ok(),
        3 => { let json = serde_json::to_string(p).ok()?; let x: Prefix<String> = serde_json::from_str(&json).ok()?; Some(x.map_unchecked(String::into_boxed_str)) }
        4 => Prefix::new(p.to_string()).ok().map(|x| x.map_unchecked(String::into_boxed_str)),
        _ => if sophia_api::prefix::is_valid_prefix(p) { let p = p.to_string(); quietly(move || Prefix::new_unchecked(p.into_boxed_str())).ok() } else { None },
    }
}
/// does the constructor accept the string (ctor 2: Prefix::new on a borrowed str)
fn ctor_accepts(ctor: usize, p: &str) -> bool { if ctor == 2 { Prefix::new(p).is_ok() } else { make_prefix(ctor, p).is_some() } }
const REFUSED: &str = "configuration refused";

/// what the implementation writes (Err = it panicked or returned an error)
fn serialise(c: &Case) -> Result<String, String> {
    let Some(cfg) = config_of(c) else { return Err(REFUSED.into()) };
    let quads = c.quads.clone();
    let trig = c.trig;
    let r = quietly(move || -> Result<String, String> {
        if trig {
            let d: Vec<Spog<ST>> = quads.iter().map(|(g, t)| ([to_st(&t[0]), to_st(&t[1]), to_st(&t[2])], g.as_ref().map(to_st))).collect();
            let mut ser = TrigSerializer::new_stringifier_with_config(cfg);
            ser.serialize_quads(d.iter().map(|q| Ok::<_, std::convert::Infallible>(q.clone()))).map_err(|e| format!("serializer error: {e}"))?;
            Ok(ser.to_string())
        } else {
            let d: Vec<[ST; 3]> = quads.iter().map(|(_, t)| [to_st(&t[0]), to_st(&t[1]), to_st(&t[2])]).collect();
            let mut ser = TurtleSerializer::new_stringifier_with_config(cfg);
            ser.serialize_triples(d.iter().map(|q| Ok::<_, std::convert::Infallible>(q.clone()))).map_err(|e| format!("serializer error: {e}"))?;
            Ok(ser.to_string())
        }
    });
    match r { Ok(x) => x, Err(_) => Err("the serializer panicked".into()) }
}

fn parse_back(trig: bool, text: &str) -> Result<Vec<Q>, String> {
    if trig {
        let v: Vec<Spog<ST>> = sophia_turtle::parser::trig::parse_str(text).collect_quads().map_err(|e| format!("{e}"))?;
        Ok(v.iter().map(|(t, g)| (g.as_ref().map(from_term), [from_term(&t[0]), from_term(&t[1]), from_term(&t[2])])).collect())
    } else {
        let v: Vec<[ST; 3]> = sophia_turtle::parser::turtle::parse_str(text).collect_triples().map_err(|e| format!("{e}"))?;
        Ok(v.iter().map(|t| (None, [from_term(&t[0]), from_term(&t[1]), from_term(&t[2])])).collect())
    }
}

fn q_bnodes(qs: &[Q]) -> BTreeSet<String> {
    let mut s = BTreeSet::new();
    for (g, t) in qs { if let Some(g) = g { bnodes_of(g, &mut s) } for x in t.iter() { bnodes_of(x, &mut s) } }
    s
}
fn permutations(n: usize) -> Vec<Vec<usize>> {
    fn go(k: usize, cur: &mut Vec<usize>, used: &mut Vec<bool>, out: &mut Vec<Vec<usize>>) {
        if k == 0 { out.push(cur.clone()); return; }
        for i in 0..used.len() { if !used[i] { used[i] = true; cur.push(i); go(k - 1, cur, used, out); cur.pop(); used[i] = false; } }
    }
    let mut out = vec![];
    go(n, &mut vec![], &mut vec![false; n], &mut out);
    out
}
/// brute force: some bijection of blank node labels maps a onto b (sets of canonical quads)
fn brute_iso(a: &BTreeSet<Q>, bb: &BTreeSet<Q>) -> Option<bool> {
    let (la, lb): (Vec<String>, Vec<String>) = (q_bnodes(&a.iter().cloned().collect::<Vec<_>>()).into_iter().collect(), q_bnodes(&bb.iter().cloned().collect::<Vec<_>>()).into_iter().collect());
    if a.len() != bb.len() || la.len() != lb.len() { return Some(false); }
    if la.len() > 6 { return None; }
    for p in permutations(la.len()) {
        let m: BTreeMap<String, String> = la.iter().enumerate().map(|(i, l)| (l.clone(), format!("\u{1}{}", lb[p[i]]))).collect();
        let m2: BTreeMap<String, String> = lb.iter().map(|l| (l.clone(), format!("\u{1}{l}"))).collect();
        let ra: BTreeSet<Q> = a.iter().map(|(g, t)| (g.as_ref().map(|g| rename(g, &m)), [rename(&t[0], &m), rename(&t[1], &m), rename(&t[2], &m)])).collect();
        let rb: BTreeSet<Q> = bb.iter().map(|(g, t)| (g.as_ref().map(|g| rename(g, &m2)), [rename(&t[0], &m2), rename(&t[1], &m2), rename(&t[2], &m2)])).collect();
        if ra == rb { return Some(true); }
    }
    Some(false)
}

/// the property on one case: Ok(output text) or Err(description)
fn oracle(c: &Case) -> Result<String, String> {
    let text = match serialise(c) { Err(e) if e == REFUSED => return Ok(REFUSED.into()), x => x? };
    let back = match parse_back(c.trig, &text) {
        Ok(v) => v,
        Err(e) => return Err(format!("the output does not parse ({e}); output:\n{text}")),
    };
    let input: BTreeSet<Q> = c.quads.iter().map(|(g, t)| (if c.trig { g.as_ref().map(canon) } else { None }, [canon(&t[0]), canon(&t[1]), canon(&t[2])])).collect();
    let backc: Vec<Q> = back.iter().map(|(g, t)| (g.as_ref().map(canon), [canon(&t[0]), canon(&t[1]), canon(&t[2])])).collect();
    let back_set: BTreeSet<Q> = backc.iter().cloned().collect();
    if back_set.len() != backc.len() {
        return Err(format!("the output states a quad more than once ({} statements, {} distinct); output:\n{text}", backc.len(), back_set.len()));
    }
    let d1: Vec<Spog<ST>> = input.iter().map(|(g, t)| ([to_st(&t[0]), to_st(&t[1]), to_st(&t[2])], g.as_ref().map(to_st))).collect();
    let d2: Vec<Spog<ST>> = back_set.iter().map(|(g, t)| ([to_st(&t[0]), to_st(&t[1]), to_st(&t[2])], g.as_ref().map(to_st))).collect();
    let iso = sophia_isomorphism::isomorphic_datasets(&d1, &d2).map_err(|e| format!("isomorphism error {e}"))?;
    let brute = brute_iso(&input, &back_set);
    if let Some(bi) = brute {
        if bi != iso {
            return Err(format!("sophia_isomorphism says {iso} but the brute-force search over blank node bijections says {bi}; output:\n{text}"));
        }
    }
    if !iso {
        let missing: Vec<String> = input.iter().filter(|q| !back_set.contains(*q) && q_bnodes(std::slice::from_ref(*q)).is_empty()).map(show_q).collect();
        return Err(format!("the parsed output is NOT isomorphic to the input ({} quads in, {} quads back{}); output:\n{text}", input.len(), back_set.len(),
            if missing.is_empty() { String::new() } else { format!("; ground quads lost: {}", missing.join(" ")) }));
    }
    Ok(text)
}

// ---------------------------------------------------------------- generator over shapes
struct Gen { r: Rng, quads: Vec<Q>, shapes: Vec<String>, nb: usize, ni: usize, graphs: Vec<Option<T>> }
impl Gen {
    fn shape(&mut self, s: &str) { if !self.shapes.iter().any(|x| x == s) { self.shapes.push(s.to_string()); } }
    /// fresh blank node; the leading letter is random so that the sort order of tails / cycles / lists varies
    fn fresh(&mut self) -> T { self.nb += 1; let l = self.r.ps(&["a", "b", "c", "d", "e", "f", "g", "h", "m", "z"]); b(&format!("{l}{}", self.nb)) }
    fn fresh_iri(&mut self) -> T { self.ni += 1; ex(&format!("n{}", self.ni)) }
    fn pred(&mut self) -> T { let p = self.r.ps(&["p", "q", "r", "p", "q"]); if self.r.chance(1, 12) { rdf("type") } else { ex(p) } }
    fn graph(&mut self) -> Option<T> { let i = self.r.below(self.graphs.len()); self.graphs[i].clone() }
    fn add(&mut self, g: &Option<T>, s: T, p: T, o: T) { self.quads.push((g.clone(), [s, p, o])); }
    fn simple_obj(&mut self) -> T {
        match self.r.below(6) {
            0 => T::Lit("v".into(), xsd("string")),
            1 => T::Lit("42".into(), xsd("integer")),
            2 => T::Lang("chat".into(), "fr".into()),
            3 => ex("o"),
            4 => T::Lit(self.r.ps(&["12", "1.5", "1e0", "true", "x"]).into(), xsd(self.r.ps(&["integer", "decimal", "double", "boolean"]))),
            _ => self.fresh_iri(),
        }
    }
    fn subject(&mut self) -> T { if self.r.chance(1, 3) { self.fresh() } else { self.fresh_iri() } }

    fn f_cycle(&mut self) {
        let g = self.graph();
        let len = if self.r.chance(1, 4) { 1 } else { self.r.range(2, 4) };
        self.shape(if len == 1 { "self-loop" } else { "cycle" });
        let nodes: Vec<T> = (0..len).map(|_| self.fresh()).collect();
        for i in 0..len { let p = self.pred(); self.add(&g, nodes[i].clone(), p, nodes[(i + 1) % len].clone()); }
        let tails = self.r.below(3);
        for _ in 0..tails {
            self.shape("cycle-tail");
            let from = nodes[self.r.below(len)].clone();
            let t = self.fresh();
            let p = self.pred();
            self.add(&g, from, p, t.clone());
            match self.r.below(4) {
                0 => { let o = self.simple_obj(); let p = self.pred(); self.add(&g, t, p, o); }
                1 => { let t2 = self.fresh(); let p = self.pred(); self.add(&g, t, p, t2); }
                _ => {}
            }
        }
        if self.r.chance(1, 4) { self.shape("cycle-entered-from-iri"); let s = self.fresh_iri(); let p = self.pred(); let n = nodes[self.r.below(len)].clone(); self.add(&g, s, p, n); }
        if self.r.chance(1, 3) { let n = nodes[self.r.below(len)].clone(); let o = self.simple_obj(); self.add(&g, n, ex("label"), o); }
    }
    fn f_blank_misc(&mut self) {
        let g = self.graph();
        match self.r.below(5) {
            0 => { self.shape("shared-blank"); let x = self.fresh(); let (s1, s2) = (self.subject(), self.subject()); let p = self.pred(); self.add(&g, s1, p.clone(), x.clone()); self.add(&g, s2, p, x.clone());
                   if self.r.chance(1, 2) { let o = self.simple_obj(); self.add(&g, x, ex("q"), o); } }
            1 => { self.shape("unreferenced-blank"); let x = self.fresh(); let o = self.simple_obj(); let p = self.pred(); self.add(&g, x, p, o); }
            2 => { self.shape("object-only-blank"); let x = self.fresh(); let s = self.subject(); let p = self.pred(); self.add(&g, s, p, x); }
            3 => { self.shape("nested-property-lists"); let s = self.subject(); let mut cur = s; let depth = self.r.range(1, 3);
                   for _ in 0..depth { let x = self.fresh(); let p = self.pred(); self.add(&g, cur.clone(), p, x.clone()); if self.r.chance(1, 2) { let o = self.simple_obj(); let p = self.pred(); self.add(&g, cur, p, o); } cur = x; }
                   let o = self.simple_obj(); self.add(&g, cur, ex("leaf"), o); }
            _ => { self.shape("blank-twice-same-subject"); let x = self.fresh(); let s = self.subject(); self.add(&g, s.clone(), ex("p"), x.clone()); self.add(&g, s, ex("q"), x.clone()); let o = self.simple_obj(); self.add(&g, x, ex("r"), o); }
        }
    }
    fn item(&mut self, g: &Option<T>, depth: usize) -> T {
        match self.r.below(8) {
            0 if depth < 2 => { self.shape("nested-list"); let n = self.r.range(1, 2); self.list_cells(g, n, depth + 1, rdf("nil")).0 }
            1 => { let x = self.fresh(); let o = self.simple_obj(); self.add(g, x.clone(), ex("q"), o); x }
            2 => { self.shape("list-item-quoted"); qt(ex("s"), ex("p"), ex("o")) }
            3 => self.fresh(),
            _ => self.simple_obj(),
        }
    }
    /// cells c1..cn with fresh items, the last one resting on `end`; returns (head, cells)
    fn list_cells(&mut self, g: &Option<T>, n: usize, depth: usize, end: T) -> (T, Vec<T>) {
        let cells: Vec<T> = (0..n).map(|_| self.fresh()).collect();
        for i in 0..n {
            let it = self.item(g, depth);
            self.add(g, cells[i].clone(), rdf("first"), it);
            let rest = if i + 1 < n { cells[i + 1].clone() } else { end.clone() };
            self.add(g, cells[i].clone(), rdf("rest"), rest);
        }
        (cells[0].clone(), cells)
    }
    fn f_list(&mut self) {
        let g = self.graph();
        let n = self.r.range(1, 3);
        let owner = self.subject();
        let p = self.pred();
        let kind = self.r.below(14);
        match kind {
            0 | 1 | 2 => { self.shape("list-ok"); let (h, _) = self.list_cells(&g, n, 0, rdf("nil")); self.add(&g, owner, p, h); }
            3 => { self.shape("list-empty"); self.add(&g, owner, p, rdf("nil")); }
            4 => { self.shape("list-two-rest"); let (h, cells) = self.list_cells(&g, n, 0, rdf("nil")); self.add(&g, owner, p, h);
                   let c = cells[self.r.below(n)].clone();
                   let other = match self.r.below(4) { 0 => rdf("nil"), 1 => self.list_cells(&g, 1, 1, rdf("nil")).0, 2 => self.fresh(), _ => cells[self.r.below(n)].clone() };
                   self.add(&g, c, rdf("rest"), other); }
            5 => { self.shape("list-two-first"); let (h, cells) = self.list_cells(&g, n, 0, rdf("nil")); self.add(&g, owner, p, h); let c = cells[self.r.below(n)].clone(); let o = self.simple_obj(); self.add(&g, c, rdf("first"), o); }
            6 => { self.shape("list-cell-extra-property"); let (h, cells) = self.list_cells(&g, n, 0, rdf("nil")); self.add(&g, owner, p, h); let c = cells[self.r.below(n)].clone(); let o = self.simple_obj(); self.add(&g, c, ex("note"), o); }
            7 => { self.shape("list-cyclic"); let tail = self.fresh(); let (h, cells) = self.list_cells(&g, n, 0, tail.clone()); if self.r.chance(2, 3) { self.add(&g, owner, p, h); }
                   let it = self.simple_obj(); self.add(&g, tail.clone(), rdf("first"), it); let back = cells[self.r.below(n)].clone(); self.add(&g, tail, rdf("rest"), back); }
            8 => { self.shape("list-shared-tail"); let (t, _) = self.list_cells(&g, n, 0, rdf("nil")); let (h1, _) = self.list_cells(&g, 1, 1, t.clone()); let (h2, _) = self.list_cells(&g, 1, 1, t);
                   self.add(&g, owner.clone(), p.clone(), h1); let o2 = self.subject(); self.add(&g, o2, p, h2); }
            9 => { self.shape("list-owner-is-item"); let o = self.fresh(); let cells: Vec<T> = (0..n).map(|_| self.fresh()).collect(); let k = self.r.below(n);
                   for i in 0..n { let it = if i == k { o.clone() } else { self.simple_obj() }; self.add(&g, cells[i].clone(), rdf("first"), it); let rest = if i + 1 < n { cells[i + 1].clone() } else { rdf("nil") }; self.add(&g, cells[i].clone(), rdf("rest"), rest); }
                   self.add(&g, o.clone(), p, cells[0].clone());
                   if self.r.chance(1, 2) { self.shape("cycle-tail"); let t = self.fresh(); self.add(&g, o, ex("q"), t); } }
            10 => { self.shape("list-unowned"); let (h, _) = self.list_cells(&g, n, 0, rdf("nil")); if self.r.chance(1, 2) { let o = self.simple_obj(); self.add(&g, h, ex("note"), o); } }
            11 => { self.shape("list-improper-end"); let end = if self.r.chance(1, 2) { ex("end") } else { T::Lit("end".into(), xsd("string")) }; let (h, _) = self.list_cells(&g, n, 0, end); self.add(&g, owner, p, h); }
            12 => { self.shape("list-head-referenced-twice"); let (h, _) = self.list_cells(&g, n, 0, rdf("nil")); self.add(&g, owner, p.clone(), h.clone()); let o2 = self.subject(); self.add(&g, o2, p, h); }
            _ => { self.shape("list-split-over-graphs"); let g2 = self.graph(); let (t, _) = self.list_cells(&g2, 1, 1, rdf("nil")); let (h, _) = self.list_cells(&g, n, 0, t); self.add(&g, owner, p, h); }
        }
    }
    fn f_quoted(&mut self) {
        let g = self.graph();
        let s = match self.r.below(5) { 0 => self.fresh(), _ => self.fresh_iri() };
        let p = match self.r.below(6) { 0 => rdf("first"), 1 => rdf("rest"), 2 => rdf("type"), _ => self.pred() };
        let o = match self.r.below(9) {
            0 => { self.shape("quoted-with-nil"); rdf("nil") }
            1 => { self.shape("quoted-with-blank"); self.fresh() }
            2 => { self.shape("quoted-with-bare-literal"); T::Lit(self.r.ps(&["12", "1.5", "1e0", "true", "-0", "12."]).into(), xsd(self.r.ps(&["integer", "decimal", "double", "boolean"]))) }
            3 => { self.shape("quoted-nested"); let x = self.simple_obj(); qt(ex("s"), ex("p"), x) }
            4 => { self.shape("quoted-with-list-head"); let (h, _) = self.list_cells(&g, 1, 2, rdf("nil")); h }
            _ => self.simple_obj(),
        };
        if matches!(s, T::B(_)) { self.shape("quoted-with-blank"); }
        let t = qt(s.clone(), p.clone(), o.clone());
        // asserted in the same graph / not at all / only in another graph / in both
        match self.r.below(6) {
            0 | 1 => { self.shape("quoted-and-asserted"); self.add(&g, s, p, o); }
            2 | 3 => { self.shape("quoted-not-asserted"); }
            4 => { let g2 = self.graph(); if g2 != g { self.shape("quoted-asserted-in-another-graph-only"); } else { self.shape("quoted-and-asserted"); } self.add(&g2, s, p, o); }
            _ => { let g2 = self.graph(); if g2 != g { self.shape("quoted-asserted-in-both-graphs"); } else { self.shape("quoted-and-asserted"); } self.add(&g, s.clone(), p.clone(), o.clone()); if g2 != g { self.add(&g2, s, p, o); } }
        }
        match self.r.below(4) {
            0 => { let s2 = self.subject(); let pp = self.pred(); self.add(&g, s2, pp, t.clone()); self.shape("quoted-as-object"); }
            1 => { // annotation of an annotation
                   let o1 = self.simple_obj(); self.add(&g, t.clone(), ex("ann"), o1.clone()); let t2 = qt(t.clone(), ex("ann"), o1); let o2 = self.simple_obj(); self.add(&g, t2, ex("meta"), o2); self.shape("quoted-annotation-nested"); }
            _ => { let o1 = self.simple_obj(); self.add(&g, t.clone(), ex("ann"), o1); self.shape("quoted-as-subject"); }
        }
        if self.r.chance(1, 5) { let x = self.fresh(); self.add(&g, t, ex("by"), x.clone()); let o = self.simple_obj(); self.add(&g, x, ex("name"), o); }
    }
    fn f_multigraph(&mut self) {
        if self.graphs.len() < 2 { return self.f_blank_misc(); }
        let (g1, mut g2) = (self.graph(), self.graph());
        if g1 == g2 { g2 = self.graphs[(self.graphs.iter().position(|x| *x == g1).unwrap() + 1) % self.graphs.len()].clone(); }
        let x = self.fresh();
        match self.r.below(3) {
            0 => { self.shape("blank-subject-in-two-graphs"); let (o1, o2) = (self.simple_obj(), self.simple_obj()); self.add(&g1, x.clone(), ex("p"), o1); self.add(&g2, x, ex("q"), o2); }
            1 => { self.shape("blank-object-in-one-graph-subject-in-another"); let s = self.subject(); self.add(&g1, s, ex("p"), x.clone()); let o = self.simple_obj(); self.add(&g2, x, ex("q"), o); }
            _ => { self.shape("blank-graph-name-also-node"); let gx = Some(x.clone()); let (s, o) = (self.fresh_iri(), self.simple_obj()); self.add(&gx, s, ex("p"), o); let s2 = self.subject(); self.add(&g1, s2, ex("about"), x); }
        }
    }
    fn f_literals(&mut self) {
        self.shape("literals");
        let g = self.graph();
        let s = self.subject();
        for _ in 0..self.r.range(1, 3) { let (l, _) = gen_literal(&mut self.r); let p = self.pred(); self.add(&g, s.clone(), p, l); }
    }
    fn f_iris(&mut self) {
        self.shape("odd-local-names");
        let g = self.graph();
        let s = gen_iri(&mut self.r); let p = if self.r.chance(1, 2) { T::Iri(gen_iri(&mut self.r)) } else { self.pred() }; let o = gen_iri(&mut self.r);
        self.add(&g, T::Iri(s), p, T::Iri(o));
    }
    fn f_nil(&mut self) {
        let g = self.graph();
        match self.r.below(6) {
            3 => { self.shape("nil-as-predicate"); let s = self.subject(); let o = self.simple_obj(); self.add(&g, s, rdf("nil"), o); }
            4 => { self.shape("nil-as-datatype"); let s = self.subject(); let p = self.pred(); self.add(&g, s, p, T::Lit("x".into(), format!("{RDF}nil"))); }
            5 => { self.shape("nil-as-graph-name"); let s = self.subject(); let p = self.pred(); let o = self.simple_obj(); self.add(&Some(rdf("nil")), s, p, o); }
            0 => { self.shape("nil-as-subject"); let o = self.simple_obj(); let p = self.pred(); self.add(&g, rdf("nil"), p, o); }
            1 => { self.shape("nil-as-object"); let s = self.subject(); let p = self.pred(); self.add(&g, s, p, rdf("nil")); }
            _ => { self.shape("nil-as-subject-and-object"); self.add(&g, rdf("nil"), ex("p"), rdf("nil")); }
        }
    }
    fn f_plain(&mut self) { self.shape("plain"); let g = self.graph(); let s = self.fresh_iri(); for _ in 0..self.r.range(1, 3) { let p = self.pred(); let o = self.simple_obj(); self.add(&g, s.clone(), p, o); } }
}

const NUM_DT: &[&str] = &["integer", "decimal", "double", "boolean", "float", "int", "long", "short", "byte", "nonNegativeInteger", "positiveInteger",
    "negativeInteger", "nonPositiveInteger", "unsignedInt", "unsignedLong", "unsignedShort", "unsignedByte", "string", "dateTime"];
const LEX: &[&str] = &["12", "1.", ".5", "1x5", "+1e0", "1e", "true", "TRUE", "false", "0", "-0", "+12", "1.5", "-1.5", "+.5", ".", "", "1e5", "1E-5", "1.e3", ".5e+3", "1.5e", "e5", "1 ", " 1", "1\n",
    "12\n", "1.5\n", "1e0\n", "1,5", "1_000", "0x1F", "١٢", "1.2.3", "1e2e3", "--1", "+-1", "+", "-", "INF", "NaN", "tru", "truefalse", "True", "1.0E0", "00012", "12.0", "1x", "x1", "1-e5", "1\te5", "55-e5", "\u{665}"];
fn gen_literal(r: &mut Rng) -> (T, bool) {
    if r.chance(1, 10) {
        let lex = r.ps(&["chat", "a\"b", "a\\b", "line\nbreak", "tab\there", "", "é\u{1F600}", "cr\rhere", "'''", "\"\"\""]).to_string();
        return if r.chance(1, 2) { (T::Lang(lex, r.ps(&["en", "fr-BE", "EN-us", "x-a"]).into()), false) } else { (T::Lit(lex, xsd("string")), false) };
    }
    let dt = if r.chance(2, 3) { r.ps(&["integer", "decimal", "double", "boolean"]) } else { r.ps(NUM_DT) };
    let mut lex = r.ps(LEX).to_string();
    if r.chance(1, 8) { // near misses of the datatypes the writers treat specially (letter case, one character more or less, another namespace)
        let near = r.ps(&["http://www.w3.org/2001/XMLSchema#String", "http://www.w3.org/2001/XMLSchema#STRING", "http://www.w3.org/2001/xmlschema#string", "HTTP://www.w3.org/2001/XMLSchema#string", "http://www.w3.org/2001/XMLSchema#strin", "http://www.w3.org/2001/XMLSchema#strings",
            "http://www.w3.org/2001/XMLSchema#Integer", "http://www.w3.org/2001/XMLSchema#INTEGER", "http://www.w3.org/2001/XMLSchema#integers", "http://www.w3.org/2001/XMLSchema#Boolean", "http://www.w3.org/2001/XMLSchema#Decimal", "http://www.w3.org/2001/XMLSchema#Double", "http://www.w3.org/2001/XMLSchema#doubl",
            "http://www.w3.org/2001/XMLSchema-datatypes#integer", "http://www.w3.org/2001/XMLSchema/integer", "http://www.w3.org/2001/XMLSchemainteger", "http://example.org/ns/integer", "http://www.w3.org/1999/02/22-rdf-syntax-ns#PlainLiteral"]);
        if r.chance(1, 3) { lex = r.ps(&["v", "a b", "12", "true", "1.5", "1e0"]).to_string(); }
        return (T::Lit(lex, near.to_string()), true);
    }
    if r.chance(1, 6) { // random mutation of a numeric form
        let alphabet: Vec<char> = "0123456789+-.eExX \n,_".chars().collect();
        let n = r.range(1, 6);
        lex = (0..n).map(|_| *r.pick(&alphabet)).collect();
    }
    (T::Lit(lex, xsd(dt)), true)
}
const NAMESPACES: &[&str] = &["http://example.org/ns/", "http://example.org/ns/sub/", "http://example.org/", "http://example.org/ns/sub#", "http://example.org/ns", "urn:x:", RDF, XSD];
const LOCALS: &[&str] = &["a", "abc", "a.b", "a.", ".a", "a/b", "a%20b", "a%2", "a%2g", "%41", "a~b", "a:b", ":", "", "9", "9a", "-a", "a-", "é", "a·", "·a", "a#b", "a(b)", "_", "a__b", "a\u{203F}b", "\u{300}a", "a\u{300}",
    "a..b", "a.-", "a?b", "a&b", "a'b", "a!b", "a*b", "a,b", "a;b", "a=b", "a@b", "a$b", "a+b", "sub/x", "sub#x", "nil", "type", "first", "x\u{10000}", "\u{D7}", "a\u{D7}", "A-Z_0.9", "a b"];
fn gen_iri(r: &mut Rng) -> String {
    let s = format!("{}{}", r.ps(NAMESPACES), r.ps(LOCALS));
    if sophia_iri::Iri::new(s.as_str()).is_ok() { s } else { format!("{EX}fallback") }
}
fn gen_prefixes(r: &mut Rng) -> Vec<(String, String)> {
    let mut pool: Vec<(String, String)> = vec![
        ("ex".into(), EX.into()), ("sub".into(), "http://example.org/ns/sub/".into()), ("".into(), "http://example.org/".into()),
        ("hash".into(), "http://example.org/ns/sub#".into()), ("nos".into(), "http://example.org/ns".into()), ("u".into(), "urn:x:".into()),
        ("rdf".into(), RDF.into()), ("xsd".into(), XSD.into()), ("a.b".into(), "http://example.org/n".into()), ("whole".into(), format!("{EX}a")),
        ("rdfnil".into(), format!("{RDF}nil")), ("x-y".into(), "http://example.org/ns/su".into()), ("é".into(), "http://example.org/ns/s".into()),
    ];
    match r.below(6) {
        0 => vec![],
        1 => TurtleConfig::default_prefix_map().iter().map(|(p, n)| (p.as_str().to_string(), n.as_str().to_string())).collect(),
        _ => { let n = r.range(1, pool.len()); let mut out = vec![]; for _ in 0..n { let i = r.below(pool.len()); out.push(pool.remove(i)); } out }
    }
}
fn gen_indent(r: &mut Rng) -> String {
    // the last three are white space for Rust but not for the Turtle grammar
    if r.chance(1, 2) { "  ".into() } else if r.chance(1, 12) { r.ps(&["\u{c}", "\u{a0}", "\u{2003}"]).to_string() } else { r.ps(&["", " ", "\t", "    ", "\n", " \t ", "\r\n", "\r", "\t\t"]).to_string() }
}

fn gen_shape_case(r: Rng) -> Case {
    let mut g = Gen { r, quads: vec![], shapes: vec![], nb: 0, ni: 0, graphs: vec![None] };
    let trig = g.r.chance(1, 2);
    let pretty = g.r.chance(4, 5);
    if trig {
        let n = g.r.below(3);
        for i in 0..n { let x = if g.r.chance(1, 4) { g.fresh() } else { ex(&format!("g{i}")) }; g.graphs.push(Some(x)); }
        if g.r.chance(1, 8) && g.graphs.len() > 1 { g.graphs.remove(0); }
    }
    let nfrag = g.r.range(1, 3);
    for _ in 0..nfrag {
        match g.r.below(20) {
            0..=4 => g.f_cycle(),
            5..=6 => g.f_blank_misc(),
            7..=11 => g.f_list(),
            12..=14 => g.f_quoted(),
            15 => g.f_multigraph(),
            16 => g.f_literals(),
            17 => g.f_iris(),
            18 => g.f_nil(),
            _ => g.f_plain(),
        }
    }
    let prefixes = gen_prefixes(&mut g.r);
    let indent = gen_indent(&mut g.r);
    if !trig { for q in g.quads.iter_mut() { q.0 = None; } }
    // the input is a SET of quads (the streaming serializers write what they are given)
    let mut seen = BTreeSet::new();
    g.quads.retain(|q| seen.insert((q.0.as_ref().map(canon), [canon(&q.1[0]), canon(&q.1[1]), canon(&q.1[2])])));
    g.shapes.sort();
    Case { shapes: g.shapes, quads: g.quads, prefixes, indent, pretty, trig, ctor: 0 }
}

// ---------------------------------------------------------------- reading the plan off the output
/// (`_:` labels, number of `(` opening a collection, number of `[` opening a property list, number of `[]`)
fn scan(text: &str) -> (BTreeSet<String>, usize, usize, usize) {
    let cs: Vec<char> = text.chars().collect();
    let (mut labels, mut colls, mut plists, mut anons) = (BTreeSet::new(), 0, 0, 0);
    let mut i = 0;
    while i < cs.len() {
        let c = cs[i];
        if c == '"' { i += 1; while i < cs.len() && cs[i] != '"' { if cs[i] == '\\' { i += 1; } i += 1; } i += 1; }
        else if c == '<' && i + 1 < cs.len() && cs[i + 1] == '<' { i += 2; }
        else if c == '<' { while i < cs.len() && cs[i] != '>' { i += 1; } i += 1; }
        else if c == '_' && i + 1 < cs.len() && cs[i + 1] == ':' && (i == 0 || !(cs[i - 1].is_alphanumeric() || cs[i - 1] == ':' || cs[i - 1] == '_' || cs[i - 1] == '.' || pn_chars(cs[i - 1]))) {   // (not the end of a prefix such as `a-_:`)
            let mut j = i + 2; let mut l = String::new();
            while j < cs.len() && cs[j].is_ascii_alphanumeric() { l.push(cs[j]); j += 1; }
            labels.insert(l); i = j;
        }
        else if c == '(' { if i + 1 < cs.len() && cs[i + 1] == ')' { i += 2; } else { colls += 1; i += 1; } }
        else if c == '[' { if i + 1 < cs.len() && cs[i + 1] == ']' { anons += 1; i += 2; } else { plists += 1; i += 1; } }
        else { i += 1; }
    }
    (labels, colls, plists, anons)
}

/// intern the terms of the dataset in Term::cmp order; returns (terms in order, index of a term)
fn intern(c: &Case) -> (Vec<ST>, BTreeMap<ST, usize>) {
    fn all(t: &ST, out: &mut BTreeSet<ST>) { out.insert(t.clone()); if let Some([s, p, o]) = t.triple() { all(s, out); all(p, out); all(o, out); } }
    let mut set: BTreeSet<ST> = BTreeSet::new();
    for l in ["first", "rest", "nil", "type"] { set.insert(iri(&format!("{RDF}{l}"))); }
    for (g, t) in &c.quads { if c.trig { if let Some(g) = g { all(&to_st(g), &mut set); } } for x in t.iter() { all(&to_st(x), &mut set); } }
    let v: Vec<ST> = set.into_iter().collect();
    let m: BTreeMap<ST, usize> = v.iter().enumerate().map(|(i, t)| (t.clone(), i)).collect();
    (v, m)
}
fn coq_plan_case(c: &Case, text: &str) -> String { coq_plan_case_with(c, text, "plan_ok") }
fn coq_plan_case_with(c: &Case, text: &str, checker: &str) -> String {
    let (terms, idx) = intern(c);
    let kinds = coq_list(terms.iter().map(|t| match t.kind() {
        TermKind::BlankNode => "TB".to_string(),
        TermKind::Iri => "TI".to_string(),
        TermKind::Triple => { let [s, p, o] = t.triple().unwrap(); format!("TT {} {} {}", idx[s], idx[p], idx[o]) }
        _ => "TL".to_string(),
    }));
    // the dataset in the order of PrettifiableDataset = BTreeSet<Gspo<SimpleTerm>>
    let set: BTreeSet<Gspo<ST>> = c.quads.iter().map(|(g, t)| (if c.trig { g.as_ref().map(to_st) } else { None }, [to_st(&t[0]), to_st(&t[1]), to_st(&t[2])])).collect();
    let quads = coq_list(set.iter().map(|(g, [s, p, o])| format!("({}, {}, {}, {})", coq_opt(g.as_ref().map(|g| idx[g].to_string())), idx[s], idx[p], idx[o])));
    let id_of = |l: &str| idx[&iri(&format!("{RDF}{l}"))];
    let (labels, colls, plists, _anons) = scan(text);
    let mut obs: Vec<usize> = labels.iter().map(|l| idx.get(&bnode(l)).copied().unwrap_or(999_999)).collect();
    obs.sort();
    format!("{checker} {kinds} {} {} {} {} {quads} {} {colls} {plists}", id_of("first"), id_of("rest"), id_of("nil"), id_of("type"), coq_list(obs.iter().map(|i| i.to_string())))
}

fn describe(c: &Case) -> String {
    format!("[{}] {} {} prefixes={:?}{} indent={:?} dataset: {}", c.shapes.join("+"), if c.trig { "TriG" } else { "Turtle" }, if c.pretty { "pretty" } else { "plain" },
        c.prefixes, if c.ctor != 0 { format!(" (built with {})", CTORS[c.ctor]) } else { String::new() }, c.indent, c.quads.iter().map(show_q).collect::<Vec<_>>().join(" "))
}

// ---------------------------------------------------------------- the term stream
const TERM_BASE: usize = 1_000_000;
const T_NS: &[&str] = &["http://example.org/ns/", "http://example.org/ns/sub/", "http://example.org/", "http://example.org/ns/sub#", "http://example.org/ns",
    "http://example.org/ns/s", "http://example.org/ns/a", "urn:x:", "tag:t,2000:", RDF, XSD, "http://example.org/ns/%41", "http://\u{e9}.example/", "http://example.org/ns/sub/a.", "x:"];
const T_PREFIXES: &[&str] = &["ex", "e", "a", "a.b", "ab", "a-b", "\u{e9}", "", "true", "false", "rdf", "xsd", "x1", "a\u{b7}b", "A", "z_9", "a.b.c", "t", "f", "\u{10000}", "a\u{203f}"];
// (prefixes outside PN_PREFIX, labels outside BLANK_NODE_LABEL and strings that are not IRI references cannot be given to the
// serializer through sophia's term types: in this build profile even `new_unchecked` validates; C04/TermProofs.v records
// what happens to them as `..._refuted` examples)
const ESC_CHARS: &str = "_~.-!$&'()*+,;=/?#@%";
const T_LOCALS: &[&str] = &["a", "abc", "a.b", "a.", ".a", "a/b", "a%20b", "a%2", "a%2g", "%41", "%4", "%", "a%", "a%20%21", "%zz", "a~b", "a:b", ":", "a:", ":a", "::", "", "9", "9a", "-a", "a-", "-", ".", "..",
    "a..b", "a.-", "a-.", "\u{e9}", "a\u{b7}", "\u{b7}a", "_", "a__b", "a\u{203f}b", "\u{300}a", "a\u{300}", "nil", "type", "x\u{10000}", "\u{10000}", "x\u{effff}", "\u{f0000}", "a\u{f0000}b", "\u{fffe}", "\u{d7}", "a\u{d7}",
    "A-Z_0.9", "sub/x", "sub#x", "s", "ub", "a.b.c", "1.5", "1e5", "+1", "true", "false", "a,b", "a;b", "a)b", "a]b", "x\u{37e}", "\u{2070}", "\u{200c}", "\u{3000}"];
const T_REL: &[&str] = &["", "foo", "#frag", "../x", "//host/p", "?q", "a/b", "./x", "foo:bar", "x:"];
const T_NUM_LEX: &[&str] = &["+1", "1.", ".5", "1e", "1.e3", "TRUE", "01", "-0", "1E+5", "1e-5", ".e5", "+.5e-3", "true ", "tru", "false", "falsee", "true", "0", "12", "1.5", "-1.5", "+.5", ".", "", "1e5", "1.0E0", "00012",
    "1x5", "55-e5", "1e2e3", "--1", "+", "-", "INF", "NaN", "1_000", "0x1F", "\u{661}", "1 ", " 1", "1\n", "1.5\n", "12.0", "1.2.3", "e5", "+-1", "1-e5", "True", "truefalse", "9999999999999999999999", "-.0", "+0.0e-0"];
const T_STRINGS: &[&str] = &["", "chat", "a\"b", "a\\b", "line\nbreak", "tab\there", "cr\rhere", "\u{e9}\u{1F600}", "'''", "\"\"\"", "\"", "\\", "\\\"", "\u{0}", "\u{7f}", "a\u{85}b", "\u{feff}", "\u{10ffff}", "\\u0041",
    "\"@en", "\"^^<x>", "x\" .\n<urn:a> <urn:b> \"y", "@", "^^", " ", "#"];
const T_TAGS: &[&str] = &["en", "fr-BE", "EN-us", "x-a", "zh-Hant-TW", "de-1996", "en-a-bcd", "a-1", "e", "abcdefghi", "en-a-b-c"];
/// LANGTAGs of the Turtle grammar (and valid for sophia's LanguageTag) that are not well-formed BCP47: sophia's parsers (Rio, oxilangtag)
/// refuse them, so the oracle is not applied to them (recorded in the distribution)
const T_NOT_BCP47: &[&str] = &["a-1", "e", "abcdefghi", "en-a-b-c"];
fn has_non_bcp47(t: &T) -> bool { match t { T::Lang(_, g) => T_NOT_BCP47.contains(&g.as_str()), T::Tr(b) => b.iter().any(has_non_bcp47), _ => false } }
/// accepted by sophia's LanguageTag::new, not a LANGTAG of the Turtle / N-Triples grammars ([a-zA-Z]+ first)
const T_ODD_TAGS: &[&str] = &["a1", "en1-x", "x9"];
const T_LABELS: &[&str] = &["b", "b1", "1", "a.b", "a.b-c", "a-b", "a\u{b7}b", "_x", "9.9", "a\u{300}", "\u{10000}", "a.b.c", "\u{e9}", "a-", "0", "_", "a.1", "true", "a_b", "x\u{203f}"];
const T_DATATYPES: &[&str] = &["http://www.w3.org/2001/XMLSchema#integer", "http://www.w3.org/2001/XMLSchema#decimal", "http://www.w3.org/2001/XMLSchema#double", "http://www.w3.org/2001/XMLSchema#boolean",
    "http://www.w3.org/2001/XMLSchema#string", "http://www.w3.org/2001/XMLSchema#float", "http://www.w3.org/2001/XMLSchema#int", "http://www.w3.org/2001/XMLSchema#String", "http://www.w3.org/2001/XMLSchema#integers",
    "http://example.org/ns/dt", "http://example.org/ns/sub#dt", "dt", "", "http://www.w3.org/1999/02/22-rdf-syntax-ns#nil", "http://www.w3.org/1999/02/22-rdf-syntax-ns#langString", "urn:x:integer", "http://example.org/ns/a.b"];

/// the characters IRIREF excludes: [#x00-#x20<>"{}|^`\]
fn iri_chars_ok(s: &str) -> bool { s.chars().all(|c| (c as u32) > 0x20 && !"<>\"{}|^`\\".contains(c)) }
fn pn_chars_base(c: char) -> bool {
    let u = c as u32;
    c.is_ascii_alphabetic() || (0xC0..=0xD6).contains(&u) || (0xD8..=0xF6).contains(&u) || (0xF8..=0x2FF).contains(&u) || (0x370..=0x37D).contains(&u) || (0x37F..=0x1FFF).contains(&u)
        || (0x200C..=0x200D).contains(&u) || (0x2070..=0x218F).contains(&u) || (0x2C00..=0x2FEF).contains(&u) || (0x3001..=0xD7FF).contains(&u) || (0xF900..=0xFDCF).contains(&u)
        || (0xFDF0..=0xFFFD).contains(&u) || (0x10000..=0xEFFFF).contains(&u)
}
fn pn_chars(c: char) -> bool { let u = c as u32; pn_chars_base(c) || c == '_' || c == '-' || c.is_ascii_digit() || u == 0xB7 || (0x300..=0x36F).contains(&u) || (0x203F..=0x2040).contains(&u) }
/// (PN_CHARS | '.')* PN_CHARS, or nothing
fn pn_tail_ok(cs: &[char]) -> bool { cs.is_empty() || (cs.iter().all(|&c| pn_chars(c) || c == '.') && pn_chars(*cs.last().unwrap())) }
fn turtle_label_ok(s: &str) -> bool { let cs: Vec<char> = s.chars().collect(); !cs.is_empty() && (pn_chars_base(cs[0]) || cs[0] == '_' || cs[0].is_ascii_digit()) && pn_tail_ok(&cs[1..]) }
fn turtle_prefix_ok(s: &str) -> bool { let cs: Vec<char> = s.chars().collect(); cs.is_empty() || (pn_chars_base(cs[0]) && pn_tail_ok(&cs[1..])) }
fn turtle_langtag_ok(s: &str) -> bool {
    let mut parts = s.split('-');
    let first = parts.next().unwrap_or("");
    !first.is_empty() && first.chars().all(|c| c.is_ascii_alphabetic()) && parts.all(|p| !p.is_empty() && p.chars().all(|c| c.is_ascii_alphanumeric()))
}
/// the hypotheses of the term theorem (wf_at of C04/TermText.v), decided independently in Rust; Coq decides them again
fn term_in_hyps(t: &T, pos: usize) -> bool {
    match t {
        T::Iri(i) => iri_chars_ok(i),
        T::B(l) => pos != 1 && turtle_label_ok(l),
        T::Lit(_, d) => (pos == 2 || pos == 5) && iri_chars_ok(d),
        T::Lang(_, g) => (pos == 2 || pos == 5) && turtle_langtag_ok(g),
        T::Tr(b) => matches!(pos, 0 | 2 | 4 | 5) && term_in_hyps(&b[0], 4) && term_in_hyps(&b[1], 1) && term_in_hyps(&b[2], 5),
        T::V(_) => false,
    }
}
fn has_var(t: &T) -> bool { match t { T::V(_) => true, T::Tr(b) => b.iter().any(has_var), _ => false } }

fn gen_t_prefixes(r: &mut Rng) -> (Vec<(String, String)>, &'static str) {
    let mut pool: Vec<&str> = T_PREFIXES.to_vec();
    let k = match r.below(8) { 0 => 0, 1 => 1, 2 | 3 => 2, 4 | 5 => 3, 6 => 5, _ => 8 };
    let mut out: Vec<(String, String)> = vec![];
    for _ in 0..k { let i = r.below(pool.len()); let p = pool.remove(i); out.push((p.to_string(), r.ps(T_NS).to_string())); }
    match r.below(24) {
        0 if !out.is_empty() => { let p = out[r.below(out.len())].0.clone(); out.push((p, r.ps(T_NS).to_string())); (out, "duplicate-prefix") }
        _ => (out, "ok"),
    }
}
fn gen_t_iri(r: &mut Rng, pm: &[(String, String)]) -> String {
    let s = gen_t_iri_raw(r, pm);
    // only IRI references can be given to the serializer (IriRef validates, see above)
    if sophia_iri::IriRef::new(s.as_str()).is_ok() { s } else { format!("{EX}not-an-iri-reference") }
}
fn gen_t_iri_raw(r: &mut Rng, pm: &[(String, String)]) -> String {
    match r.below(16) {
        0 => r.ps(T_REL).to_string(),
        1 => format!("{RDF}{}", r.ps(&["nil", "type", "first", "ni", "nill", "nil", "nil"])),
        2 => { // a local name built around one PN_LOCAL_ESC character
            let c = *r.pick(&ESC_CHARS.chars().collect::<Vec<_>>());
            let l = match r.below(4) { 0 => format!("a{c}b"), 1 => format!("{c}a"), 2 => format!("a{c}"), _ => format!("{c}") };
            format!("{}{l}", if pm.is_empty() || r.chance(1, 3) { r.ps(T_NS).to_string() } else { pm[r.below(pm.len())].1.clone() })
        }
        3 => r.ps(T_NS).to_string(),  // the namespace itself: empty local part
        _ => format!("{}{}", if pm.is_empty() || r.chance(1, 4) { r.ps(T_NS).to_string() } else { pm[r.below(pm.len())].1.clone() }, r.ps(T_LOCALS)),
    }
}
fn gen_t_literal(r: &mut Rng, pm: &[(String, String)]) -> T {
    match r.below(10) {
        0 | 1 => T::Lang(r.ps(T_STRINGS).to_string(), r.ps(T_TAGS).to_string()),
        2 | 3 => T::Lit(r.ps(T_STRINGS).to_string(), if r.chance(1, 2) { xsd("string") } else if r.chance(1, 2) { r.ps(T_DATATYPES).to_string() } else { gen_t_iri(r, pm) }),
        4 => { // random mutation of a numeric form
            let alphabet: Vec<char> = "0123456789+-.eE".chars().collect();
            let n = r.range(1, 7);
            T::Lit((0..n).map(|_| *r.pick(&alphabet)).collect(), xsd(r.ps(&["integer", "decimal", "double"])))
        }
        5 | 6 => { // a lexical form in the production of its datatype: written bare
            let (l, d) = *r.pick(&[("12", "integer"), ("-0", "integer"), ("+007", "integer"), ("1.5", "decimal"), (".5", "decimal"), ("-0.0", "decimal"), ("+12.50", "decimal"), ("1e5", "double"), ("1.e3", "double"),
                (".5E-3", "double"), ("+1.0e+0", "double"), ("-1E0", "double"), ("true", "boolean"), ("false", "boolean")]);
            T::Lit(l.to_string(), xsd(d))
        }
        _ => T::Lit(r.ps(T_NUM_LEX).to_string(), if r.chance(3, 4) { xsd(r.ps(&["integer", "decimal", "double", "boolean"])) } else { r.ps(T_DATATYPES).to_string() }),
    }
}
fn gen_t_term(r: &mut Rng, pm: &[(String, String)], pos: usize, depth: usize) -> T {
    // pos: 0 subject 1 predicate 2 object 3 graph name 4 subject of a quoted triple 5 object of a quoted triple
    let k = r.below(12);
    match (pos, k) {
        (1, _) => T::Iri(gen_t_iri(r, pm)),
        (0 | 2 | 4 | 5, 0 | 1) if depth < 2 => T::Tr(Box::new([gen_t_term(r, pm, 4, depth + 1), gen_t_term(r, pm, 1, depth + 1), gen_t_term(r, pm, 5, depth + 1)])),
        (2 | 3 | 4 | 5, 2 | 3) => T::B(r.ps(T_LABELS).to_string()),
        (2 | 5, 4..=8) => gen_t_literal(r, pm),
        _ => T::Iri(gen_t_iri(r, pm)),
    }
}

struct TermCase { pos: usize, term: T, pm: Vec<(String, String)>, class: String, hyps: bool, case: Case }
fn anchor(l: &str) -> T { T::Iri(format!("urn:{l}")) }
fn gen_term_case(mut r: Rng) -> TermCase {
    let (mut pm, pm_class) = gen_t_prefixes(&mut r);
    let pos = *r.pick(&[2, 2, 2, 2, 2, 0, 0, 1, 3]);
    let mut class = String::from("term");
    let mut term = gen_t_term(&mut r, &pm, pos, 0);
    // rdf:type as a predicate is written `a` by write_properties, not by write_term
    if pos == 1 && term == T::Iri(format!("{RDF}type")) { term = T::Iri(format!("{RDF}typ")); }
    // directed material outside the hypotheses (text compared only) and the variable
    match r.below(40) {
        0 if pos == 2 => { term = T::V(r.ps(&["x", "v1", "\u{e9}"]).to_string()); class = "variable".into(); }
        1 if pos == 2 => { term = T::Tr(Box::new([anchor("a"), anchor("b"), T::V("x".into())])); class = "variable".into(); }
        3 if pos == 2 => { term = T::Lang(r.ps(T_STRINGS).to_string(), r.ps(T_ODD_TAGS).to_string()); class = "tag-not-LANGTAG".into(); }
        _ => {}
    }
    if pm_class != "ok" && class != "term" { pm.pop(); }   // one departure from the hypotheses at a time
    else if pm_class != "ok" { class = pm_class.into(); }
    let hyps = class == "term" && term_in_hyps(&term, pos);
    if class == "term" && !hyps { class = "other-outside-hypotheses".into(); }
    let (s, p, o) = (anchor("s"), anchor("p"), anchor("o"));
    let mut quads: Vec<Q> = match pos {
        0 => vec![(None, [term.clone(), p.clone(), o.clone()])],
        1 => vec![(None, [s.clone(), term.clone(), o.clone()])],
        2 => vec![(None, [s.clone(), p.clone(), term.clone()])],
        _ => vec![(Some(term.clone()), [s.clone(), p.clone(), o.clone()])],
    };
    // a blank node object is labelled only if it is referenced twice
    if pos == 2 && matches!(term, T::B(_)) { quads.push((None, [s, anchor("q"), term.clone()])); }
    let case = Case { shapes: vec![format!("term:{class}")], quads, prefixes: pm.clone(), indent: "  ".into(), pretty: true, trig: pos == 3 || r.chance(1, 3), ctor: 0 };
    TermCase { pos, term, pm, class, hyps, case }
}
/// cut the bytes of the term out of the output: Ok((term bytes, the bytes that follow it)) or Err(what is wrong with the layout)
fn cut_term(tc: &TermCase, text: &str) -> Result<(Vec<u8>, Vec<u8>), String> {
    let pre: String = tc.pm.iter().map(|(p, n)| format!("PREFIX {p}: <{n}>\n")).collect();
    let Some(body) = text.strip_prefix(pre.as_str()) else { return Err("the output does not start with the PREFIX lines of the prefix map".into()) };
    let (lead, tail): (&str, String) = match tc.pos {
        0 => ("\n", "\n  <urn:p> <urn:o>.\n".into()),
        1 => ("\n<urn:s>\n  ", " <urn:o>.\n".into()),
        2 => ("\n<urn:s>\n  <urn:p> ", ".\n".into()),
        _ => ("\nGRAPH ", " {\n  <urn:s>\n    <urn:p> <urn:o>.\n}\n".into()),
    };
    let Some(rem) = body.strip_prefix(lead) else { return Err(format!("expected {lead:?} before the term")) };
    let Some(rem) = rem.strip_suffix(tail.as_str()) else { return Err(format!("expected {tail:?} after the term")) };
    if tc.pos == 2 && matches!(tc.term, T::B(_)) {
        let mid = ";\n  <urn:q> ";
        let b = rem.as_bytes();
        if b.len() < mid.len() || (b.len() - mid.len()) % 2 != 0 { return Err("expected the blank node twice".into()); }
        let tl = (b.len() - mid.len()) / 2;
        if &b[tl..tl + mid.len()] != mid.as_bytes() || b[..tl] != b[tl + mid.len()..] { return Err("expected the blank node twice, separated by the second predicate".into()); }
        let mut after = b[tl..].to_vec(); after.extend_from_slice(tail.as_bytes());
        return Ok((b[..tl].to_vec(), after));
    }
    Ok((rem.as_bytes().to_vec(), tail.into_bytes()))
}
fn coq_pm(pm: &[(String, String)]) -> String { coq_list(pm.iter().map(|(p, n)| format!("({}, {})", coq_str(p), coq_str(n)))) }

// ---------------------------------------------------------------- the deep stream
// DEEP and WIDE trees of blank nodes: the pretty writer nests `[ ... ]` (and `{| ... |}`) up to a bound, cuts deeper
// branches loose (label + new root) and re-scans the subjects of the graph until nothing is left.  The generator does
// not know the bound's effect: the oracle is the round trip; Coq (C04/Deep.v, `plan_d_ok`) runs the model of the plan
// AND of the write phase with its cuts and re-scans against the labels / `(` / `[` of the output.
const DEEP_BASE: usize = 2_000_000;
/// lengths of chains: short ones, every length around the bound (64) and around twice the bound, long ones
const DEEP_LENS: &[usize] = &[1, 2, 5, 30, 60, 61, 62, 63, 64, 65, 66, 67, 68, 70, 80, 100, 126, 127, 128, 129, 130, 131, 150, 200];
const DEEP_LETTERS: &[&str] = &["a", "b", "c", "k", "m", "r", "s", "y", "z"];
struct Deep { r: Rng, quads: Vec<Q>, shapes: Vec<String>, nb: usize, ni: usize, budget: usize, recipe: Vec<String> }
impl Deep {
    fn new(r: Rng, budget: usize) -> Deep { Deep { r, quads: vec![], shapes: vec![], nb: 0, ni: 0, budget, recipe: vec![] } }
    fn shape(&mut self, s: &str) { if !self.shapes.iter().any(|x| x == s) { self.shapes.push(s.to_string()); } }
    fn node(&mut self, letter: &str) -> T { self.nb += 1; b(&format!("{letter}{:04}", self.nb)) }
    fn fresh_iri(&mut self) -> T { self.ni += 1; ex(&format!("n{}", self.ni)) }
    fn add(&mut self, g: &Option<T>, s: T, p: T, o: T) { self.quads.push((g.clone(), [s, p, o])); }
    fn leaf(&mut self) -> T { self.ni += 1; match self.r.below(3) { 0 => T::Lit(format!("v{}", self.ni), xsd("string")), 1 => T::Lit(format!("{}", self.ni), xsd("integer")), _ => ex(&format!("o{}", self.ni)) } }
    /// `len` fresh blank nodes hanging below each other, the first one being `head`; naming 0: every node bears a distinct
    /// literal, 1: only the last one, 2: one in seven.  Returns the nodes of the chain.
    fn chain_from(&mut self, g: &Option<T>, head: T, len: usize, letter: &str, naming: usize) -> Vec<T> {
        let len = len.min(self.budget).max(1);
        self.budget -= len.min(self.budget);
        let mut nodes = vec![head];
        for _ in 1..len { let n = self.node(letter); nodes.push(n); }
        for i in 0..len {
            if i + 1 < len {
                let p = match self.r.below(12) { 0 => ex("p"), 1 => rdf("type"), _ => ex("next") };
                self.add(g, nodes[i].clone(), p, nodes[i + 1].clone());
            }
            if naming == 0 || (naming == 2 && i % 7 == 3) || i + 1 == len { let l = T::Lit(format!("{letter} {}.{i}", self.nb), xsd("string")); self.add(g, nodes[i].clone(), ex("name"), l); }
        }
        nodes
    }
    /// hang a fresh blank node below `from` in one of the ways a blank node can be nested; returns it.
    /// how 0: object of a property; 1: item of a collection; 2: object of an annotation of a statement about `from`;
    /// 3: item of a collection nested in a collection; 4: object of rdf:type
    fn hang(&mut self, g: &Option<T>, from: &T, how: usize, letter: &str) -> T {
        let h = self.node(letter);
        match how {
            1 | 3 => {
                self.shape(if how == 1 { "deep:below-a-list-item" } else { "deep:below-a-nested-list-item" });
                let n = self.r.range(1, 3); let k = self.r.below(n);
                let cells: Vec<T> = (0..n).map(|_| self.node("l")).collect();
                for i in 0..n {
                    let it = if i == k {
                        if how == 3 { let c = self.node("l"); self.add(g, c.clone(), rdf("first"), h.clone()); self.add(g, c.clone(), rdf("rest"), rdf("nil")); c } else { h.clone() }
                    } else { self.leaf() };
                    self.add(g, cells[i].clone(), rdf("first"), it);
                    let rest = if i + 1 < n { cells[i + 1].clone() } else { rdf("nil") };
                    self.add(g, cells[i].clone(), rdf("rest"), rest);
                }
                self.add(g, from.clone(), ex("items"), cells[0].clone());
            }
            2 => {
                self.shape("deep:below-an-annotation");
                let o = self.leaf();
                self.add(g, from.clone(), ex("said"), o.clone());
                self.add(g, qt(from.clone(), ex("said"), o), ex("by"), h.clone());
            }
            4 => { self.shape("deep:below-rdf-type"); self.add(g, from.clone(), rdf("type"), h.clone()); }
            _ => { let p = if self.r.chance(1, 6) { ex("p") } else { ex("next") }; self.add(g, from.clone(), p, h.clone()); }
        }
        h
    }
    /// a branch below `from`: hang a head, a chain of `len` below it, and (forks) sub-branches hanging off nodes of the chain
    fn branch(&mut self, g: &Option<T>, from: &T, how: usize, len: usize, letter: &str, naming: usize, forks: usize) {
        let head = self.hang(g, from, how, letter);
        let nodes = self.chain_from(g, head, len, letter, naming);
        self.recipe.push(format!("below {} in graph {}: {} a chain of {} blank nodes {}..{}", show(from), g.as_ref().map(show).unwrap_or("(default)".into()),
            ["as object,", "as item of a collection,", "as object of an annotation,", "as item of a collection in a collection,", "as object of rdf:type,"][how.min(4)], nodes.len(), show(&nodes[0]), show(nodes.last().unwrap())));
        for _ in 0..forks {
            if self.budget == 0 { break; }
            self.shape("deep:fork");
            // fork near the end, near the bound, or anywhere
            let at = match self.r.below(4) { 0 => nodes.len() - 1, 1 => nodes.len().saturating_sub(2).min(62), 2 => self.r.below(nodes.len()).min(63), _ => self.r.below(nodes.len()) };
            let (l2, how2) = (*self.r.pick(DEEP_LENS), *self.r.pick(&[0, 0, 0, 1, 2, 3]));
            let letter2 = self.r.ps(DEEP_LETTERS);
            let from2 = nodes[at].clone();
            self.branch(g, &from2, how2, l2, letter2, naming, 0);
        }
    }
}
/// kind of root: 0 IRI, 1 blank node (its label sorts anywhere), 2 quoted triple that is not asserted, 3 blank node sorting first, 4 blank node sorting last,
/// 5 blank node that is the subject of an asserted and annotated triple, 6 blank node that is the subject of a quoted triple that is not asserted
fn deep_root(d: &mut Deep, g: &Option<T>, kind: usize) -> T {
    match kind {
        5 | 6 => {
            d.shape("deep:root-is-the-subject-of-a-quoted-triple");
            let l = d.r.ps(DEEP_LETTERS); let x = d.node(l); let (o, by) = (d.leaf(), d.leaf());
            if kind == 5 { d.add(g, x.clone(), ex("said"), o.clone()); }
            d.add(g, qt(x.clone(), ex("said"), o), ex("by"), by);
            x
        }
        0 => d.fresh_iri(),
        2 => { d.shape("deep:root-is-a-quoted-triple"); let (s, o) = (d.fresh_iri(), d.leaf()); qt(s, ex("p"), o) }
        3 => { d.shape("deep:root-is-a-blank-node"); d.node("A") }
        4 => { d.shape("deep:root-is-a-blank-node"); d.node("zz") }
        _ => { d.shape("deep:root-is-a-blank-node"); let l = d.r.ps(DEEP_LETTERS); d.node(l) }
    }
}
fn deep_finish(mut d: Deep, trig: bool, pretty: bool, r: &mut Rng) -> (Case, String) {
    if !trig { for q in d.quads.iter_mut() { q.0 = None; } }
    let mut seen = BTreeSet::new();
    d.quads.retain(|q| seen.insert((q.0.as_ref().map(canon), [canon(&q.1[0]), canon(&q.1[1]), canon(&q.1[2])])));
    d.shapes.sort();
    let prefixes = match r.below(3) { 0 => vec![], 1 => vec![("ex".to_string(), EX.to_string())], _ => vec![("".to_string(), EX.to_string()), ("rdf".to_string(), RDF.to_string())] };
    let indent = r.ps(&["", "", " ", "  ", "\t"]).to_string();
    let recipe = format!("{} quads, every node of a chain bearing {}; {}", d.quads.len(), "a name / the last one only / one in seven (see replay)", d.recipe.join("; "));
    (Case { shapes: d.shapes, quads: d.quads, prefixes, indent, pretty, trig, ctor: 0 }, recipe)
}
/// the directed part: every length around the bound x every way of nesting, several deep branches under one root
/// (IRI / blank node sorting before or after the nodes cut loose), forks, several roots, several graphs
const DEEP_HOWS: usize = 7;
fn deep_directed_count() -> usize { 8 * DEEP_HOWS + 8 + 4 + 4 + 4 + 2 }
fn gen_deep_directed(k: usize, mut r: Rng) -> (Case, String) {
    let mut d = Deep::new(r.fork(1), 700);
    let naming = r.below(3);
    let mut k = k;
    if k < 8 * DEEP_HOWS {
        // one chain of 61..68 nodes, nested in each of the ways
        let (len, how) = (61 + k / DEEP_HOWS, k % DEEP_HOWS);
        d.shape(&format!("deep:one-chain-of-{len}"));
        let trig = r.chance(1, 2);
        let g = if trig && r.chance(1, 2) { Some(ex("g")) } else { None };
        let root = deep_root(&mut d, &g, match how { 6 => 5 + (len % 2), 5 => 2, 4 => 1, _ => if r.chance(1, 3) { 1 } else { 0 } });
        if !matches!(root, T::Tr(_)) { let l = d.leaf(); d.add(&g, root.clone(), ex("name"), l); }
        d.branch(&g, &root, if how >= 5 { 0 } else { how }, len, r.ps(DEEP_LETTERS), naming, 0);
        return deep_finish(d, trig, true, &mut r);
    }
    k -= 8 * DEEP_HOWS;
    if k < 8 {
        // two (or three) branches deeper than the bound under the SAME root
        d.shape("deep:several-deep-branches-under-one-root");
        let g = if k % 2 == 1 { Some(ex("g")) } else { None };
        let root = deep_root(&mut d, &g, [0, 3, 4, 1][k % 4]);
        let (l1, l2) = if k < 4 { ("a", "b") } else { ("b", "a") };
        let l = d.leaf(); d.add(&g, root.clone(), ex("name"), l);
        d.branch(&g, &root, 0, 80, l1, naming, 0);
        d.branch(&g, &root, 0, 80, l2, naming, 0);
        if k >= 6 { d.branch(&g, &root, 0, 66, "c", naming, 0); }
        return deep_finish(d, k % 2 == 1, true, &mut r);
    }
    k -= 8;
    if k < 4 {
        // a chain forking into several long branches; forks right at the bound
        d.shape("deep:fork");
        let root = deep_root(&mut d, &None, if k % 2 == 0 { 0 } else { 1 });
        let stem = [20, 62, 63, 64][k];
        let head = d.hang(&None, &root, 0, "t");
        let nodes = d.chain_from(&None, head, stem, "t", naming);
        d.recipe.push(format!("below {}: a chain of {} blank nodes {}..{}", show(&root), nodes.len(), show(&nodes[0]), show(nodes.last().unwrap())));
        let fork = nodes.last().unwrap().clone();
        for (i, len) in [70usize, 100, 50].iter().enumerate() { d.branch(&None, &fork, 0, if stem == 20 { *len } else { 3 + i }, ["a", "b", "c"][(i + k) % 3], naming, 0); }
        return deep_finish(d, false, true, &mut r);
    }
    k -= 4;
    if k < 4 {
        // deep branches under DIFFERENT roots (same graph)
        d.shape("deep:deep-branches-under-different-roots");
        let (r1, r2) = (deep_root(&mut d, &None, 0), deep_root(&mut d, &None, if k < 2 { 0 } else { 1 }));
        let (l1, l2) = if k % 2 == 0 { ("a", "b") } else { ("b", "a") };
        d.branch(&None, &r1, 0, 80, l1, naming, 0);
        d.branch(&None, &r2, 0, 80, l2, naming, 0);
        return deep_finish(d, false, true, &mut r);
    }
    k -= 4;
    if k < 4 {
        // deep branches in DIFFERENT graphs
        d.shape("deep:deep-branches-in-different-graphs");
        let graphs = [None, Some(ex("g1")), Some(ex("g2")), Some(b("gb"))];
        let (ga, gb) = [(0, 1), (1, 2), (1, 3), (2, 0)][k];
        for (g, l) in [(&graphs[ga], "a"), (&graphs[gb], "b")] {
            let root = deep_root(&mut d, g, if k % 2 == 0 { 0 } else { 1 });
            d.branch(g, &root, 0, 70, l, naming, 0);
            d.branch(g, &root, 0, 66, if l == "a" { "c" } else { "A" }, naming, 0);
        }
        return deep_finish(d, true, true, &mut r);
    }
    k -= 4;
    // one very long chain: cut several times
    d.shape("deep:one-very-long-chain");
    let root = deep_root(&mut d, &None, k % 2);
    d.branch(&None, &root, 0, [150, 200][k % 2], "a", naming, 0);
    deep_finish(d, false, true, &mut r)
}
fn gen_deep_random(mut r: Rng) -> (Case, String) {
    let mut d = Deep::new(r.fork(1), 140 + r.below(160));
    let trig = r.chance(1, 2);
    let pretty = r.chance(7, 8);
    let mut graphs: Vec<Option<T>> = vec![None];
    if trig { for i in 0..r.below(3) { graphs.push(Some(if r.chance(1, 4) { b(&format!("g{i}")) } else { ex(&format!("g{i}")) })); } }
    let naming = r.below(3);
    let nroots = r.range(1, 3);
    for _ in 0..nroots {
        let g = graphs[r.below(graphs.len())].clone();
        let root = deep_root(&mut d, &g, *r.pick(&[0, 0, 0, 1, 1, 2, 3, 4, 5, 6]));
        if !matches!(root, T::Tr(_)) && r.chance(1, 2) { let l = d.leaf(); d.add(&g, root.clone(), ex("name"), l); }
        let nbranches = *r.pick(&[1, 1, 2, 2, 3, 4]);
        if nbranches > 1 { d.shape("deep:several-branches-under-one-root"); }
        for _ in 0..nbranches {
            let len = *r.pick(DEEP_LENS);
            let how = *r.pick(&[0, 0, 0, 0, 1, 2, 3, 4]);
            let forks = *r.pick(&[0, 0, 1, 2]);
            let letter = r.ps(DEEP_LETTERS);
            d.branch(&g, &root, how, len, letter, naming, forks);
        }
    }
    if d.quads.len() > 400 { d.shape("deep:more-than-400-quads"); }
    deep_finish(d, trig, pretty, &mut r)
}

// ---------------------------------------------------------------- the prefix stream
// A candidate prefix is given to one of sophia's public constructors of `Prefix`.  What it answers is compared inside Coq with
// the model of is_valid_prefix over the REGENERATED regular expression (C04/Deep.v `prefix_ctor_ok`; C04/PrefixIncl.v proves
// that expression equal to the production PN_PREFIX of the Turtle grammar).  ORACLE: a prefix that a constructor ACCEPTS is
// used in the prefix map of the pretty writer; the document must be valid (the prefix must be a PN_PREFIX? of the grammar,
// decided here independently of sophia) and must parse back to an isomorphic dataset.
const PFX_BASE: usize = 3_000_000;
const PFX_DIRECTED: &[&str] = &["", "a", "ex", "e1", "e-1", "e_1", "e.1", "e-", "e_", "\u{e9}", "\u{e9}a", "a.b-c_d", "_", "_a", "_1", "-", "-a", "-1", "__", "--", "_-", "-_", "_a.b", "-a.b", "_x-y", "-x_y", "1", "1a", "12", "0",
    "9z", ".", ".a", "a.", "a.b", "a..b", "a.b.", "a.b.c", "a.-", "a-.", "_.", "-.", "..", "a b", " ", " a", "a ", "a:b", ":", "a:", ":a", "A", "Z", "z9", "true", "false", "a\n", "\na", "a\t", "a%", "%41", "a/b", "a#", "a@", "@a", "[",
    "a\u{e9}.", "\u{e9}.h\u{ea}", "A-Z_0.9", "a_", "a-", "a__-", "_\u{e9}", "-\u{e9}", "\u{e9}_", "\u{e9}-", "1\u{e9}", "a\\", "\\a", "a,b", "a;b", "a~", "a!", "a$", "a&", "a'", "a(", "a)", "a*", "a+", "+a", "a=", "a?", "a<", "a>", "a\"",
    "aaaaaaaaaaaaaaaaaaaaaaaaaaaaaaaaaaaaaaaaaaaaaaaaaaaaaaaaaaaaaaaaaaaaaaaaaaaaaaaaaaaaaaaaaaaaaaaaaaaaaaaaaaaaaaaaaaaaaaaaaaaaaaaaaaaaaaaaa", "a.a.a.a.a.a.a.a.a.a.a.a.a.a.a.a.a.a.a.a.a.a.a.a.a.a.a.a.a.a.a.a", "_________", "---------", "a-_", "a._", "a\u{b7}_", "a_-_", "b-_.c_"];
/// code points on both sides of every boundary of PN_CHARS_BASE / PN_CHARS (and a few in the middle of the ranges)
const PFX_BOUNDS: &[u32] = &[0x2c, 0x2d, 0x2e, 0x2f, 0x30, 0x39, 0x3a, 0x40, 0x41, 0x5a, 0x5b, 0x5e, 0x5f, 0x60, 0x61, 0x7a, 0x7b, 0x7f, 0x80, 0xa0, 0xb6, 0xb7, 0xb8, 0xbf, 0xc0, 0xd6, 0xd7, 0xd8, 0xf6, 0xf7, 0xf8, 0x2ff, 0x300, 0x36f, 0x370, 0x37d,
    0x37e, 0x37f, 0x1fff, 0x2000, 0x200b, 0x200c, 0x200d, 0x200e, 0x203e, 0x203f, 0x2040, 0x2041, 0x206f, 0x2070, 0x218f, 0x2190, 0x2bff, 0x2c00, 0x2fef, 0x2ff0, 0x3000, 0x3001, 0x4e00, 0xd7ff, 0xe000, 0xf8ff, 0xf900, 0xfdcf, 0xfdd0,
    0xfdef, 0xfdf0, 0xfffd, 0xfffe, 0xffff, 0x10000, 0x1f600, 0xeffff, 0xf0000, 0x10ffff];
fn pfx_directed_count() -> usize { PFX_DIRECTED.len() + 4 * PFX_BOUNDS.len() }
fn gen_pfx_candidate(k: Option<usize>, r: &mut Rng) -> String {
    if let Some(k) = k {
        if k < PFX_DIRECTED.len() { return PFX_DIRECTED[k].to_string(); }
        let k = k - PFX_DIRECTED.len();
        let c = char::from_u32(PFX_BOUNDS[k / 4]).unwrap();
        return match k % 4 { 0 => format!("{c}"), 1 => format!("a{c}"), 2 => format!("{c}a"), _ => format!("a{c}b") };
    }
    let ascii: Vec<char> = "aAzZ09_-.: \u{e9}".chars().collect();
    let n = *r.pick(&[1, 1, 2, 2, 2, 3, 3, 4, 6]);
    (0..n).map(|_| if r.chance(1, 4) { char::from_u32(*r.pick(PFX_BOUNDS)).unwrap() } else { *r.pick(&ascii) }).collect()
}
struct PfxCase { cand: String, ctor: usize, accepted: bool, case: Option<Case> }
fn gen_pfx_case(k: Option<usize>, mut r: Rng) -> PfxCase {
    let cand = gen_pfx_candidate(k, &mut r);
    let ctor = match k { Some(k) => 1 + k % 5, None => r.below(CTORS.len()) };
    let accepted = ctor_accepts(ctor, &cand);
    if !accepted { return PfxCase { cand, ctor, accepted, case: None }; }
    // the accepted prefix in a prefix map (alone, or with prefixes it is a prefix of / that extend it), on a dataset that uses its namespace
    let ns = r.ps(&[EX, EX, "http://example.org/", "urn:x:", "http://example.org/ns/sub#"]).to_string();
    let mut prefixes = vec![(cand.clone(), ns.clone())];
    for (p, n) in [("a", "http://example.org/other/"), ("", "http://example.org/"), ("a.b", "http://example.org/ns/su"), ("ex", "http://example.org/ns/sub/")] {
        if r.chance(1, 4) && p != cand { if r.chance(1, 2) { prefixes.push((p.to_string(), n.to_string())); } else { prefixes.insert(0, (p.to_string(), n.to_string())); } }
    }
    let mut case = if r.chance(1, 2) {
        let mut c = gen_shape_case(r.fork(2));
        c.shapes.insert(0, "prefix:accepted".into());
        c
    } else {
        let n = |l: &str| T::Iri(format!("{ns}{l}"));
        let trig = r.chance(1, 2);
        let g = if trig && r.chance(2, 3) { Some(n("g")) } else { None };
        let mut quads = vec![(g.clone(), [n("s"), n("p"), n("o")]), (g.clone(), [n("s"), n("q"), T::Lit("lit".into(), format!("{ns}dt"))]), (g.clone(), [b("x"), n("p"), T::Lit("12".into(), xsd("integer"))]),
            (g.clone(), [n("s"), rdf("type"), n("C")]), (None, [n(""), n("p"), qt(n("a"), n("b"), b("y"))])];
        if !trig { for q in quads.iter_mut() { q.0 = None; } }
        let mut seen = BTreeSet::new();
        quads.retain(|q| seen.insert(q.clone()));
        Case { shapes: vec!["prefix:accepted".into()], quads, prefixes: vec![], indent: "  ".into(), pretty: true, trig, ctor: 0 }
    };
    case.prefixes = prefixes;
    case.pretty = true;
    case.ctor = ctor;
    PfxCase { cand, ctor, accepted, case: Some(case) }
}

// ---------------------------------------------------------------- the document stream
// WHOLE DOCUMENTS of the class "no abbreviation of blank nodes": every blank node that is a subject or an object is forced to be
// labelled (graph name, inside a quoted triple, in two graphs, twice an object, self-loop), no quoted subject is asserted.
// The real pretty serializer (Turtle and TriG) writes the dataset; the WHOLE output is compared BYTE FOR BYTE inside Coq with
// C04/DocText.v (`wr_doc`, the plan being computed by the model of build_labelled on the interned dataset), the hypotheses of the
// document theorem are evaluated on the case, and the reference reader of C04/DocRead.v reads the real bytes back to the quads the
// model says are stated, in order (`doc_case_ok`).  A dataset left outside the class on purpose (a blank node that is not forced,
// an asserted quoted subject) must be found outside the class by the model (`doc_outside_ok`).  ORACLE: the round trip, and --
// directly on the implementation -- sophia's parser returns exactly the quads of the store, graph after graph, subject after
// subject, the rdf:type statements of a subject first.
const DOC_BASE: usize = 4_000_000;
const D_PREFIXES: &[&str] = &["ex", "e", "a", "GRAPH", "graph", "PREFIX", "prefix", "Graph", "true", "false", "", "rdf", "xsd", "a.b", "x-y", "\u{e9}", "b", "A", "z_9", "GRAPH_", "t"];
const D_TAGS: &[&str] = &["en", "fr-BE", "EN-us", "x-a", "zh-Hant-TW", "de-1996", "en-a-bcd", "EN", "En-US"];
const D_INDENTS: &[&str] = &["", " ", "\t", "    ", "  ", "\n", " \t ", "\r\n", "\r"];
const D_LABELS: &[&str] = &["b", "b1", "1", "a.b", "a.b-c", "a-b", "a\u{b7}b", "_x", "9.9", "a\u{300}", "\u{10000}", "\u{e9}", "a-", "0", "_", "true", "a_b", "GRAPH", "a"];
struct DocCase { case: Case, note: String }
fn gen_d_prefixes(r: &mut Rng) -> Vec<(String, String)> {
    let mut pool: Vec<&str> = D_PREFIXES.to_vec();
    let k = *r.pick(&[0, 1, 2, 2, 3, 3, 5, 8]);
    let mut out = vec![];
    for _ in 0..k { let i = r.below(pool.len()); let p = pool.remove(i); out.push((p.to_string(), r.ps(T_NS).to_string())); }
    out
}
fn gen_d_iri(r: &mut Rng, pm: &[(String, String)]) -> String {
    for _ in 0..8 { let s = gen_t_iri(r, pm); if Iri::new(s.as_str()).is_ok() { return s; } }
    format!("{EX}abs")
}
fn gen_d_literal(r: &mut Rng, pm: &[(String, String)]) -> T {
    match gen_t_literal(r, pm) {
        T::Lang(l, _) => T::Lang(l, r.ps(D_TAGS).to_string()),
        // (an untagged literal with datatype rdf:langString breaks the Term contract: Term::cmp and Term::eq disagree on it)
        T::Lit(l, d) => if Iri::new(d.as_str()).is_ok() && d != format!("{RDF}langString") { T::Lit(l, d) } else { T::Lit(l, xsd("string")) },
        x => x,
    }
}
fn gen_d_term(r: &mut Rng, pm: &[(String, String)], blanks: &[T], pos: usize, depth: usize) -> T {
    // pos: 0 subject 2 object 4 subject of a quoted triple 5 object of a quoted triple
    let k = r.below(14);
    match (pos, k) {
        (_, 0 | 1) if depth < 2 => qt(gen_d_term(r, pm, blanks, 4, depth + 1), T::Iri(gen_d_iri(r, pm)), gen_d_term(r, pm, blanks, 5, depth + 1)),
        (_, 2 | 3 | 4) if !blanks.is_empty() => blanks[r.below(blanks.len())].clone(),
        (2 | 5, 5..=9) => gen_d_literal(r, pm),
        (0 | 2, 10) if r.chance(1, 3) => rdf("nil"),
        _ => T::Iri(gen_d_iri(r, pm)),
    }
}
fn top_blanks(quads: &[Q]) -> BTreeSet<String> {
    let mut s = BTreeSet::new();
    for (_, t) in quads { for x in [&t[0], &t[2]] { if let T::B(l) = x { s.insert(l.clone()); } } }
    s
}
/// is the blank node forced to be labelled by the rules the generator knows (graph name, inside a quoted triple, in two graphs,
/// twice an object, self-loop)?  (build_labelled has the last word: Coq runs its model.)
fn blank_forced(quads: &[Q], l: &str, trig: bool) -> bool {
    let me = T::B(l.to_string());
    fn inside(t: &T, me: &T) -> bool { match t { T::Tr(b) => b.iter().any(|x| x == me || inside(x, me)), _ => false } }
    let mut graphs = BTreeSet::new();
    let mut as_obj = 0;
    for (g, t) in quads {
        let g = if trig { g.clone() } else { None };
        if g.as_ref() == Some(&me) || t.iter().any(|x| inside(x, &me)) || g.as_ref().is_some_and(|g| inside(g, &me)) { return true; }
        if t[0] == me && t[2] == me { return true; }
        if t[0] == me || t[2] == me { graphs.insert(g); }
        if t[2] == me { as_obj += 1; }
    }
    graphs.len() > 1 || as_obj > 1
}
fn doc_directed_count() -> usize { 16 + D_INDENTS.len() }
fn gen_doc_case(mut r: Rng, directed: Option<usize>) -> DocCase {
    let u = |l: &str| T::Iri(format!("urn:{l}"));
    let lit = |l: &str| T::Lit(l.to_string(), xsd("string"));
    let mk = |quads: Vec<Q>, prefixes: Vec<(&str, &str)>, indent: &str, trig: bool, note: &str| DocCase {
        case: Case { shapes: vec![format!("doc:{note}")], quads, prefixes: prefixes.into_iter().map(|(p, n)| (p.to_string(), n.to_string())).collect(), indent: indent.to_string(), pretty: true, trig, ctor: 0 }, note: note.to_string() };
    if let Some(k) = directed {
        let typ = rdf("type");
        return match k {
            0 => mk(vec![], vec![("ex", EX), ("", "urn:x:")], "  ", true, "empty-dataset"),
            1 => mk(vec![(None, [u("s"), u("p"), u("o")])], vec![], "", false, "one-triple"),
            2 => mk(vec![(Some(u("g1")), [u("s"), u("p"), u("o")]), (Some(b("g2")), [u("s"), u("p"), lit("x")]), (Some(b("g2")), [u("s2"), u("p"), lit("y")])], vec![("u", "urn:")], "\t", true, "named-graphs-only"),
            3 => mk(vec![(None, [u("s"), typ.clone(), u("C1")]), (None, [u("s"), typ.clone(), u("C2")]), (None, [u("s"), typ.clone(), lit("C3")])], vec![("rdf", RDF)], " ", false, "rdf-type-only"),
            4 => mk(vec![(None, [u("s"), T::Iri("http://a.example/p".into()), u("o1")]), (None, [u("s"), typ.clone(), u("C")]), (None, [u("s"), u("z"), u("o2")]), (None, [u("s"), u("z"), u("o3")]),
                         (None, [u("s"), T::Iri("http://a.example/p".into()), u("o0")])], vec![], "  ", false, "rdf-type-between-predicates"),
            5 => mk(vec![(None, [u("a"), rdf("first"), u("c")]), (None, [qt(u("a"), rdf("first"), u("c")), u("p"), u("o")])], vec![("rdf", RDF)], "  ", false, "quoted-subject-asserted-with-rdf-first"),
            6 => mk(vec![(None, [u("a"), u("b"), u("c")]), (None, [qt(u("a"), u("b"), u("c")), u("p"), u("o")])], vec![], "  ", false, "OUTSIDE:annotation"),
            7 => mk(vec![(None, [u("s"), u("p"), b("x")]), (None, [b("x"), u("q"), u("o")])], vec![], "  ", false, "OUTSIDE:blank-not-forced"),
            8 => mk(vec![(None, [T::Iri("urn:g:x".into()), T::Iri("urn:g:p".into()), T::Iri("urn:p:o".into())]), (Some(T::Iri("urn:g:g".into())), [T::Iri("urn:p:s".into()), T::Iri("urn:g:".into()), T::Iri("urn:p:".into())]),
                         (None, [T::Iri("urn:h:x".into()), T::Iri("urn:g:p".into()), T::Iri("urn:p:o".into())])],
                    vec![("GRAPH", "urn:g:"), ("PREFIX", "urn:p:"), ("graph", "urn:h:")], "  ", true, "prefixes-named-like-key-words"),
            9 => mk(vec![(None, [u("s"), u("p"), u("o")]), (Some(u("g")), [u("s"), u("p"), u("o")]), (Some(b("gb")), [u("s"), u("p"), b("gb")]), (Some(b("gb")), [b("gb"), u("p"), u("s")])], vec![], "    ", true, "one-subject-in-three-graphs"),
            10 => mk(vec![(None, [u("s"), u("p"), lit("x\" .\n<urn:a> <urn:b> \"y")]), (None, [u("s"), u("p"), lit(" ;")]), (None, [u("s"), u("p"), lit("#")]), (None, [u("s"), u("q"), lit("}")]), (None, [u("s"), u("q"), T::Lang("GRAPH ".into(), "en".into())])],
                     vec![], "  ", false, "strings-that-look-like-layout"),
            11 => mk(vec![(None, [qt(u("a"), u("b"), T::Lang("x".into(), "en".into())), u("p"), u("o1")]), (None, [qt(u("a"), u("b"), T::Lang("x".into(), "EN".into())), u("q"), u("o2")]),
                          (None, [u("s"), u("p"), T::Lang("x".into(), "en".into())]), (None, [u("t"), u("p"), T::Lang("x".into(), "EN".into())])], vec![], "  ", false, "language-tags-differing-in-case"),
            12 => mk(vec![(None, [rdf("nil"), rdf("nil"), rdf("nil")]), (Some(rdf("nil")), [rdf("nil"), u("p"), qt(rdf("nil"), rdf("nil"), rdf("nil"))])], vec![("rdf", RDF)], "  ", true, "rdf-nil-everywhere"),
            13 => mk(vec![(None, [b("x"), u("p"), b("x")]), (None, [b("x"), u("q"), lit("v")])], vec![], "  ", false, "self-loop"),
            14 => mk(vec![(None, [u("s1"), u("p"), b("x")]), (None, [u("s2"), u("p"), b("x")]), (None, [b("x"), typ.clone(), u("C")]), (None, [b("x"), u("q"), T::Lit("12".into(), xsd("integer"))])], vec![("xsd", XSD)], "  ", false, "blank-twice-an-object"),
            15 => mk(vec![(None, [u("s"), u("a"), T::Lit("true".into(), xsd("boolean"))]), (None, [u("s"), u("a"), T::Lit("1.5".into(), xsd("decimal"))]), (None, [u("s"), u("a"), T::Lit("1e0".into(), xsd("double"))]),
                          (None, [T::Iri("urn:a".into()), T::Iri("urn:a".into()), T::Iri("urn:a".into())])], vec![("a", "urn:a"), ("", "urn:")], "  ", false, "bare-literals-and-the-word-a"),
            _ => { let i = (k - 16) % D_INDENTS.len();
                   mk(vec![(None, [u("s"), typ.clone(), u("C")]), (None, [u("s"), typ.clone(), u("D")]), (None, [u("s"), u("p"), u("o1")]), (None, [u("s"), u("p"), u("o2")]), (None, [u("s"), u("q"), u("o")]),
                           (Some(u("g")), [u("s"), u("p"), u("o1")]), (Some(u("g")), [u("s"), u("p"), u("o2")]), (Some(u("g")), [u("t"), typ.clone(), u("C")])], vec![("u", "urn:")], D_INDENTS[i], true, "every-indentation") }
        };
    }
    let trig = r.chance(3, 5);
    let pm = gen_d_prefixes(&mut r);
    let indent = r.ps(D_INDENTS).to_string();
    let mut labels: Vec<&str> = D_LABELS.to_vec();
    let nb = *r.pick(&[0, 1, 1, 2, 2, 3, 4]);
    let mut blanks: Vec<T> = vec![];
    for _ in 0..nb { let i = r.below(labels.len()); blanks.push(b(labels.remove(i))); }
    let mut graphs: Vec<Option<T>> = vec![None];
    if trig {
        for _ in 0..r.below(4) { graphs.push(Some(if r.chance(1, 3) && !blanks.is_empty() { blanks[r.below(blanks.len())].clone() } else if r.chance(1, 10) { rdf("nil") } else { T::Iri(gen_d_iri(&mut r, &pm)) })); }
        if r.chance(1, 6) && graphs.len() > 1 { graphs.remove(0); }
    }
    let mut quads: Vec<Q> = vec![];
    let nsubj = r.range(1, 4);
    let mut subjects: Vec<T> = vec![];
    for _ in 0..nsubj {
        let s = if !subjects.is_empty() && r.chance(1, 4) { subjects[r.below(subjects.len())].clone() } else { gen_d_term(&mut r, &pm, &blanks, 0, 0) };
        subjects.push(s.clone());
        let g = graphs[r.below(graphs.len())].clone();
        let npred = r.range(1, 3);
        for _ in 0..npred {
            let p = if r.chance(1, 4) { rdf("type") } else if r.chance(1, 12) { rdf("nil") } else { T::Iri(gen_d_iri(&mut r, &pm)) };
            let nobj = *r.pick(&[1, 1, 2, 3]);
            for _ in 0..nobj { let o = gen_d_term(&mut r, &pm, &blanks, 2, 0); quads.push((g.clone(), [s.clone(), p.clone(), o])); }
        }
    }
    if !trig { for q in quads.iter_mut() { q.0 = None; } }
    // force every blank node that is a subject or an object to be labelled (sometimes one is left alone on purpose)
    let leave_one = r.chance(1, 12);
    let mut note = String::from("random");
    for (i, l) in top_blanks(&quads).into_iter().enumerate() {
        let me = b(&l);
        if blank_forced(&quads, &l, trig) && r.chance(2, 3) { continue; }
        if leave_one && i == 0 { note = "random:one-blank-left-alone".into(); continue; }
        let g = if trig { graphs[r.below(graphs.len())].clone() } else { None };
        match r.below(if trig { 5 } else { 3 }) {
            0 => quads.push((g, [T::Iri(format!("urn:force:{i}")), T::Iri("urn:says".into()), qt(me.clone(), T::Iri("urn:p".into()), T::Iri("urn:o".into()))])),
            1 => { quads.push((g.clone(), [T::Iri(format!("urn:force:{i}a")), T::Iri("urn:sees".into()), me.clone()])); quads.push((g, [T::Iri(format!("urn:force:{i}b")), T::Iri("urn:sees".into()), me.clone()])); }
            2 => quads.push((g, [me.clone(), T::Iri("urn:self".into()), me.clone()])),
            3 => quads.push((Some(me.clone()), [T::Iri(format!("urn:force:{i}")), T::Iri("urn:in".into()), T::Iri("urn:o".into())])),
            _ => { quads.push((None, [me.clone(), T::Iri("urn:here".into()), T::Iri("urn:o".into())])); quads.push((Some(T::Iri("urn:elsewhere".into())), [me.clone(), T::Iri("urn:there".into()), T::Iri("urn:o".into())])); }
        }
    }
    let mut seen = BTreeSet::new();
    quads.retain(|q| seen.insert((q.0.as_ref().map(canon), [canon(&q.1[0]), canon(&q.1[1]), canon(&q.1[2])])));
    DocCase { case: Case { shapes: vec![format!("doc:{note}")], quads, prefixes: pm, indent, pretty: true, trig, ctor: 0 }, note }
}
/// does the output show an abbreviation: `[` (property list or anonymous node), a non-empty `(`, `{|` -- outside strings and IRIs
fn shows_abbreviation(text: &str) -> bool {
    let cs: Vec<char> = text.chars().collect();
    let mut i = 0;
    while i < cs.len() {
        let c = cs[i];
        if c == '"' { i += 1; while i < cs.len() && cs[i] != '"' { if cs[i] == '\\' { i += 1; } i += 1; } i += 1; }
        else if c == '<' && i + 1 < cs.len() && cs[i + 1] == '<' { i += 2; }
        else if c == '<' { while i < cs.len() && cs[i] != '>' { i += 1; } i += 1; }
        else if c == '\\' { i += 2; }     // an escaped character of a local name
        else if c == '[' { return true; }
        else if c == '(' { if i + 1 < cs.len() && cs[i + 1] == ')' { i += 2; } else { return true; } }
        else if c == '{' && i + 1 < cs.len() && cs[i + 1] == '|' { return true; }
        else { i += 1; }
    }
    false
}
/// the store (PrettifiableDataset) of a case, in its iteration order
fn store_of(c: &Case) -> Vec<Gspo<ST>> {
    let mut set: BTreeSet<Gspo<ST>> = BTreeSet::new();
    for (g, t) in &c.quads { set.insert((if c.trig { g.as_ref().map(to_st) } else { None }, [to_st(&t[0]), to_st(&t[1]), to_st(&t[2])])); }
    set.into_iter().collect()
}
/// the quads in the order the pretty writer states them (independent of the Coq model): graph after graph, subject after
/// subject, the rdf:type statements of a subject first; graph name and subject in the spelling of the first quad of the group
fn stated_order(store: &[Gspo<ST>]) -> Vec<Q> {
    let ty = iri(&format!("{RDF}type"));
    let mut out = vec![];
    let mut i = 0;
    while i < store.len() {
        let mut j = i;
        while j < store.len() && sophia_api::term::graph_name_eq(store[j].0.as_ref(), store[i].0.as_ref()) && Term::eq(&store[j].1[0], &store[i].1[0]) { j += 1; }
        let (g, s) = (store[i].0.as_ref().map(from_term), from_term(&store[i].1[0]));
        for pass in 0..2 { for q in &store[i..j] { if Term::eq(&q.1[1], &ty) == (pass == 0) { out.push((g.clone(), [s.clone(), from_term(&q.1[1]), from_term(&q.1[2])])); } } }
        i = j;
    }
    out
}

// ---------------------------------------------------------------- recorded witnesses
fn witnesses() -> Vec<(&'static str, Case)> {
    let base = |shapes: &[&str], quads: Vec<Q>, trig: bool| Case { shapes: shapes.iter().map(|s| s.to_string()).collect(), quads, prefixes: vec![("ex".into(), EX.into())], indent: "  ".into(), pretty: true, trig, ctor: 0 };
    let d = |l: &str, dt: &str| T::Lit(l.into(), xsd(dt));
    vec![
        ("row 1: \"12\"^^xsd:decimal is written bare and re-read as xsd:integer", base(&["literals"], vec![(None, [ex("s"), ex("p"), d("12", "decimal")])], false)),
        ("row 2: \"1x5\"^^xsd:decimal is written bare and the document does not parse", base(&["literals"], vec![(None, [ex("s"), ex("p"), d("1x5", "decimal")])], false)),
        ("row 2': \"55-e5\"^^xsd:double is written bare (the word printed by ka)", base(&["literals"], vec![(None, [ex("s"), ex("p"), d("55-e5", "double")])], false)),
        ("row 3: blank cycle first reached from a tail node that sorts before it", base(&["cycle", "cycle-tail"], vec![
            (None, [b("b"), ex("p"), b("c")]), (None, [b("c"), ex("p"), b("d")]), (None, [b("d"), ex("p"), b("b")]), (None, [b("b"), ex("q"), b("a")])], false)),
        ("row 3': self-loop with a tail", base(&["self-loop", "cycle-tail"], vec![(None, [b("b"), ex("p"), b("b")]), (None, [b("b"), ex("q"), b("a")])], false)),
        ("row 3'': list whose owner is one of its items, with a tail", base(&["list-owner-is-item", "cycle-tail"], vec![
            (None, [b("o"), ex("p"), b("l")]), (None, [b("l"), rdf("first"), b("o")]), (None, [b("l"), rdf("rest"), rdf("nil")]), (None, [b("o"), ex("q"), b("a")])], false)),
        ("row 4: list cell with two rdf:rest", base(&["list-two-rest"], vec![
            (None, [ex("s"), ex("p"), b("l")]), (None, [b("l"), rdf("first"), d("1", "integer")]), (None, [b("l"), rdf("rest"), rdf("nil")]), (None, [b("l"), rdf("rest"), b("m")]),
            (None, [b("m"), rdf("first"), d("2", "integer")]), (None, [b("m"), rdf("rest"), rdf("nil")])], false)),
        ("row 29: quoted (not asserted) triple whose object is rdf:nil", base(&["quoted-with-nil", "quoted-not-asserted"], vec![
            (Some(ex("g")), [qt(ex("n1"), ex("p"), rdf("nil")), ex("ann"), T::Lit("lit".into(), xsd("string"))])], true)),
        ("new (same fix as row 29): rdf:nil as a predicate is abbreviated ()", base(&["nil-as-predicate"], vec![(None, [ex("s"), rdf("nil"), ex("o")])], false)),
        ("new (same fix as row 29): rdf:nil as a datatype is abbreviated ()", base(&["nil-as-datatype"], vec![(None, [ex("s"), ex("p"), T::Lit("x".into(), format!("{RDF}nil"))])], false)),
        ("new (same fix as row 29): rdf:nil as a graph name is abbreviated ()", base(&["nil-as-graph-name"], vec![(Some(rdf("nil")), [ex("s"), ex("p"), ex("o")])], true)),
        ("new: an indentation accepted by with_indentation (form feed) that is not white space for Turtle", { let mut c = base(&["plain"], vec![(None, [ex("s"), ex("p"), ex("o")])], false); c.indent = "\u{c}".into(); c }),
        ("new: an indentation accepted by with_indentation (no-break space) that is not white space for Turtle", { let mut c = base(&["plain"], vec![(None, [ex("s"), ex("p"), ex("o")])], false); c.indent = "\u{a0}".into(); c }),
    ]
}

fn main() {
    let a = parse_args();
    // watchdog: a case that runs for more than TIME_LIMIT_MS is an unbounded loop of the implementation
    std::thread::spawn(|| loop {
        std::thread::sleep(std::time::Duration::from_millis(500));
        let start = CASE_START_MS.load(Ordering::Relaxed);
        if start != 0 && now_ms().saturating_sub(start) > TIME_LIMIT_MS {
            eprintln!("c04: time limit ({} s) exceeded while serialising case {} (unbounded loop in the pretty-printer's planning phase?); replay with --only {}",
                TIME_LIMIT_MS / 1000, CURRENT_CASE.load(Ordering::Relaxed), CURRENT_CASE.load(Ordering::Relaxed));
            std::process::abort();
        }
    });
    // panics of the implementation are caught and reported by the oracle; the harness's own are shown
    let default_hook = std::panic::take_hook();
    std::panic::set_hook(Box::new(move |info| { if !QUIET.load(Ordering::Relaxed) { default_hook(info) } }));
    if a.rest.iter().any(|x| x == "--witness-loop") {
        // pre-fix only: rows 3 + 4 together make build_lists push items forever (stopped by the memory guard)
        let c = Case { shapes: vec!["list-two-rest".into(), "self-loop".into()], quads: vec![
            (None, [b("b"), rdf("first"), b("a")]), (None, [b("b"), rdf("rest"), rdf("nil")]), (None, [b("b"), rdf("rest"), b("b")])],
            prefixes: vec![], indent: "  ".into(), pretty: true, trig: false, ctor: 0 };
        CURRENT_CASE.store(0, Ordering::Relaxed);
        CASE_START_MS.store(now_ms(), Ordering::Relaxed);
        println!("{}", match oracle(&c) { Ok(t) => format!("round-trips:\n{t}"), Err(e) => format!("FAILS: {e}") });
        return;
    }
    if a.rest.iter().any(|x| x == "--witness-terms") {
        // single terms built with sophia's CHECKED constructors whose pretty Turtle is not read back
        let one = |o: T, pm: Vec<(&str, &str)>| Case { shapes: vec!["term".into()], quads: vec![(None, [anchor("s"), anchor("p"), o])], prefixes: pm.into_iter().map(|(p, n)| (p.to_string(), n.to_string())).collect(), indent: "  ".into(), pretty: true, trig: false, ctor: 0 };
        for tag in ["a1", "en1-x", "e", "abcdefghi", "a-1", "en"] {
            let checked = sophia_api::term::LanguageTag::new(tag).is_ok();
            let c = one(T::Lang("chat".into(), tag.into()), vec![]);
            println!("language tag {tag:?}: LanguageTag::new accepts it: {checked}; LANGTAG of the Turtle grammar: {}; {}", turtle_langtag_ok(tag),
                match oracle(&c) { Ok(t) => format!("round-trips: {}", t.trim().replace('\n', " ")), Err(e) => format!("FAILS: {}", e.replace('\n', " ")) });
        }
        let c = one(T::Iri("urn:x:b".into()), vec![("a", "urn:x:"), ("a", "urn:y:")]);
        println!("the same prefix declared twice (assumption `distinct prefixes`): {}", match oracle(&c) { Ok(t) => format!("round-trips: {}", t.trim().replace('\n', " ")), Err(e) => format!("FAILS: {}", e.replace('\n', " ")) });
        return;
    }
    if a.rest.iter().any(|x| x == "--witness") {
        let mut bad = 0;
        for (name, c) in witnesses() {
            match oracle(&c) { Ok(t) => println!("OK   {name}\n{t}"), Err(e) => { bad += 1; println!("FAIL {name}: {e}") } }
        }
        println!("c04 witnesses: {bad} failing");
        return;
    }
    if let Some(i) = a.rest.iter().position(|x| x == "--probe-lex") {
        let hex = &a.rest[i + 1];
        let bytes: Vec<u8> = (0..hex.len() / 2).map(|k| u8::from_str_radix(&hex[2 * k..2 * k + 2], 16).unwrap()).collect();
        let lex = String::from_utf8(bytes).unwrap();
        for dt in ["integer", "decimal", "double", "boolean"] {
            let c = Case { shapes: vec!["literals".into()], quads: vec![(None, [T::Iri("urn:s".into()), T::Iri("urn:p".into()), T::Lit(lex.clone(), xsd(dt))])], prefixes: vec![], indent: "  ".into(), pretty: true, trig: false, ctor: 0 };
            println!("{lex:?}^^xsd:{dt}: {}", match oracle(&c) { Ok(t) => format!("round-trips; written {}", if t.contains('"') { "quoted" } else { "BARE" }), Err(e) => format!("FAILS: {e}") });
        }
        return;
    }
    let mut sum = Summary::default();
    sum.rule = "case = dataset assembled from 1-3 shape fragments (or one literal / one IRI) + prefix map + indentation + pretty flag + Turtle/TriG, or (term stream) one term at one position + prefix map; \
non-trivial = the dataset has a blank node, a quoted triple, a list, a numeric/boolean literal or an IRI with a local part that is not alphanumeric; distinct = distinct (dataset, configuration)".into();
    let base = Rng::new(a.seed);
    let mut cases = vec![];
    let mut seen = std::collections::HashSet::new();
    let deep_n = deep_directed_count() + (a.n / 80).min(300);
    let pfx_n = pfx_directed_count() + (a.n / 8).min(3000);
    let doc_n = doc_directed_count() + (a.n / 10).min(4000);
    let range: Vec<usize> = match a.only { Some(i) => vec![i], None => (0..a.n).chain(TERM_BASE..TERM_BASE + a.n / 4).chain(DEEP_BASE..DEEP_BASE + deep_n).chain(PFX_BASE..PFX_BASE + pfx_n).chain(DOC_BASE..DOC_BASE + doc_n).collect() };
    let mut last_idx = 0usize;
    let clip = |x: &str| -> String { if x.chars().count() > 1200 { format!("{} [...]", x.chars().take(1200).collect::<String>()) } else { x.to_string() } };
    let mut stream_ms = [0usize; 5];
    let mut last_ms = now_ms();
    for idx in range {
        let t = now_ms();
        stream_ms[if last_idx >= DOC_BASE { 4 } else if last_idx >= PFX_BASE { 3 } else if last_idx >= DEEP_BASE { 2 } else if last_idx >= TERM_BASE { 1 } else { 0 }] += t - last_ms;
        last_ms = t; last_idx = idx;
        CURRENT_CASE.store(idx, Ordering::Relaxed);
        CASE_START_MS.store(now_ms(), Ordering::Relaxed);
        if idx >= DOC_BASE {
            // ---- the document stream
            let k = idx - DOC_BASE;
            let dc = gen_doc_case(base.fork(idx as u64), if k < doc_directed_count() { Some(k) } else { None });
            let c = &dc.case;
            let desc = describe(c);
            sum.evaluations += 1;
            if seen.insert(desc.clone()) { sum.distinct_nontrivial += 1; }
            if sum.samples.len() < 18 && k % 41 == 7 { sum.samples.push(format!("case {idx}: {}", clip(&desc))); }
            sum.bump(if c.trig { "doc-syntax:trig" } else { "doc-syntax:turtle" });
            sum.bump(&format!("doc-indentation:{:?}", c.indent));
            let mut fail: Option<String> = None;
            let mut shown = String::new();
            match oracle(c) {
                Err(e) => fail = Some(e),
                Ok(text) if text == REFUSED => sum.bump("doc:configuration-refused"),
                Ok(text) => {
                    shown = text.clone();
                    let store = store_of(c);
                    let (terms, _) = intern(c);
                    let (pmc, tab) = (coq_pm(&c.prefixes), coq_list(terms.iter().map(|t| coq_term(t))));
                    let d = coq_list(store.iter().map(|(g, [s, p, o])| format!("({}, {}, {}, {})", coq_opt(g.as_ref().map(|g| coq_term(g))), coq_term(s), coq_term(p), coq_term(o))));
                    let graphs: BTreeSet<Option<ST>> = store.iter().map(|q| q.0.clone()).collect();
                    sum.bump(&format!("doc-graphs:{}", graphs.len()));
                    sum.bump(&format!("doc-quads:{}", match store.len() { 0 => "0", 1..=3 => "1-3", 4..=8 => "4-8", 9..=16 => "9-16", _ => ">16" }));
                    if shows_abbreviation(&text) {
                        sum.bump("doc-class:outside(abbreviation-in-the-output)");
                        cases.push((idx, format!("doc_outside_ok absf {pmc} [] {} {tab} {d}", coq_str(&c.indent))));
                    } else {
                        sum.bump("doc-class:inside");
                        if store.iter().any(|q| q.1[1] == iri(&format!("{RDF}type"))) { sum.bump("doc:with-rdf-type"); }
                        if store.iter().any(|q| q.0.as_ref().is_some_and(|g| g.is_blank_node())) { sum.bump("doc:blank-graph-name"); }
                        if store.iter().any(|q| q.1.iter().any(|t| t.is_triple())) { sum.bump("doc:quoted-triple"); }
                        if store.iter().any(|q| q.1[0].is_blank_node() || q.1[2].is_blank_node()) { sum.bump("doc:labelled-blank-subject-or-object"); }
                        cases.push((idx, format!("doc_case_ok absf {pmc} [] {} {tab} {d} {}", coq_str(&c.indent), coq_bytes(text.as_bytes()))));
                        // ORACLE, directly on the implementation: the parser returns the quads of the store, in the order the writer states them
                        match parse_back(c.trig, &text) {
                            Ok(back) => {
                                let backc: Vec<Q> = back.iter().map(|(g, t)| (g.as_ref().map(canon), [canon(&t[0]), canon(&t[1]), canon(&t[2])])).collect();
                                let expected = stated_order(&store);
                                if backc != expected {
                                    fail = Some(format!("the document does not state the quads of the store in the expected order (graph, subject, rdf:type first): expected {} ; parsed {} ; output:\n{text}",
                                        expected.iter().map(show_q).collect::<Vec<_>>().join(" "), backc.iter().map(show_q).collect::<Vec<_>>().join(" ")));
                                }
                            }
                            Err(e) => fail = Some(format!("the output does not parse ({e}); output:\n{text}")),
                        }
                    }
                }
            }
            if a.only.is_some() { println!("CASE {idx}: {desc}\n=> {}", match &fail { None => format!("ok; output:\n{shown}"), Some(e) => format!("FAILS: {e}") }); }
            if let Some(e) = fail { sum.oracle_failures.push((idx.to_string(), format!("shape classes [doc:{}]: {}\ncase: {}", dc.note, clip(&e), clip(&desc)))); }
            continue;
        }
        if idx >= PFX_BASE {
            // ---- the prefix stream
            let k = idx - PFX_BASE;
            let pc = gen_pfx_case(if k < pfx_directed_count() { Some(k) } else { None }, base.fork(idx as u64));
            let grammar = turtle_prefix_ok(&pc.cand);
            let desc = format!("[prefix] candidate prefix {:?} (code points {:x?}) given to {}: {}{}", pc.cand, pc.cand.chars().map(|c| c as u32).collect::<Vec<_>>(), CTORS[pc.ctor],
                if pc.accepted { "ACCEPTED" } else { "refused" }, match &pc.case { Some(c) => format!("; used in: {}", describe(c)), None => String::new() });
            sum.bump(&format!("prefix:{}:{}", if pc.accepted { "accepted" } else { "refused" }, if grammar { "PN_PREFIX?" } else { "not-PN_PREFIX?" }));
            sum.bump(&format!("prefix-ctor:{}", CTORS[pc.ctor]));
            sum.evaluations += 1;
            if seen.insert(format!("[prefix] {:?} {}", pc.cand, pc.ctor)) { sum.distinct_nontrivial += 1; }
            if k % 97 == 5 && sum.samples.len() < 14 { sum.samples.push(format!("case {idx}: {}", clip(&desc))); }
            let mut body = format!("prefix_ctor_ok {} {}", coq_str(&pc.cand), coq_bool(pc.accepted));
            let mut fail: Option<String> = None;
            let mut shown = String::new();
            // KNOWN GAP of sophia's parser (rio_turtle 0.8.6, parse_pn_prefix): a '.' that is followed by another '.' ends the prefix, so
            // a PN_PREFIX with two consecutive dots (e.g. `a..b`, valid by production [167s]) is written by the pretty writer
            // and refused by sophia's own Turtle/TriG parsers.  The oracle is not applied to these (recorded in the distribution).
            let rio_gap = pc.cand.contains("..");
            if let (Some(c), true) = (&pc.case, rio_gap) {
                // reported under a stable class tag, listed in known_findings.json (finding, not an alarm)
                match oracle(c) {
                    Ok(_) => sum.bump("prefix:PN_PREFIX-with-consecutive-dots:sophia-reads-it-back"),
                    Err(e) => { sum.bump("prefix:PN_PREFIX-with-consecutive-dots:sophia-rejects-its-own-output");
                        fail = Some(format!("[prefix-with-consecutive-dots-rejected-by-parser] the prefix {:?} (a valid PN_PREFIX, accepted by Prefix::new) is written in a PREFIX line that sophia's own Turtle/TriG parser refuses: {}", pc.cand, clip(&e))); }
                }
            } else if let Some(c) = &pc.case {
                match oracle(c) {
                    Err(e) => fail = Some(e),
                    Ok(text) => {
                        if text != REFUSED && c.shapes.len() > 1 { body.push_str(&format!(" && {}", coq_plan_case_with(c, &text, "plan_d_ok max_depth"))); }
                        if text == REFUSED { sum.bump("prefix:accepted-but-configuration-refused"); }
                        else if !grammar { fail = Some(format!("a prefix accepted by the constructor is not a PN_PREFIX? of the Turtle grammar, so the document is not valid Turtle/TriG although sophia's parser reads it; output:\n{text}")); }
                        shown = text;
                    }
                }
            }
            cases.push((idx, body));
            if a.only.is_some() { println!("CASE {idx}: {desc}\n=> {}", match &fail { None => format!("ok; output:\n{shown}"), Some(e) => format!("FAILS: {e}") }); }
            if let Some(e) = fail { sum.oracle_failures.push((idx.to_string(), format!("shape classes [prefix:accepted-by-a-checked-constructor]: {}\ncase: {}", clip(&e), clip(&desc)))); }
            continue;
        }
        if idx >= DEEP_BASE {
            // ---- the deep stream
            let k = idx - DEEP_BASE;
            let (c, recipe) = if k < deep_directed_count() { gen_deep_directed(k, base.fork(idx as u64)) } else { gen_deep_random(base.fork(idx as u64)) };
            let desc = format!("[{}] {} {} prefixes={:?} indent={:?} dataset: {}", c.shapes.join("+"), if c.trig { "TriG" } else { "Turtle" }, if c.pretty { "pretty" } else { "plain" }, c.prefixes, c.indent, recipe);
            let res = oracle(&c);
            if a.only.is_some() { println!("CASE {idx}: {desc}\nquads: {}\n=> {}", c.quads.iter().map(show_q).collect::<Vec<_>>().join(" "), match &res { Ok(t) => format!("round-trips; output:\n{t}"), Err(e) => format!("FAILS: {e}") }); }
            if let Err(e) = &res { sum.oracle_failures.push((idx.to_string(), format!("shape classes [{}]: {}\ncase: {}", c.shapes.join("+"), clip(e), clip(&desc)))); }
            for sh in &c.shapes { sum.bump(&format!("shape:{sh}")); }
            sum.bump(if c.pretty { "deep-mode:pretty" } else { "deep-mode:plain" });
            sum.bump(if c.trig { "deep-syntax:trig" } else { "deep-syntax:turtle" });
            sum.bump(&format!("deep-quads:{}", match c.quads.len() { 0..=150 => "<=150", 151..=300 => "151-300", 301..=500 => "301-500", _ => ">500" }));
            if seen.insert(desc.clone()) { sum.distinct_nontrivial += 1; }
            if k % 23 == 3 && sum.samples.len() < 12 { sum.samples.push(format!("case {idx}: {}", clip(&desc))); }
            sum.evaluations += 1;
            if let Ok(text) = &res {
                if text != REFUSED && c.pretty {
                    let (labels, _, _, _) = scan(text);
                    sum.bump(&format!("deep-labels-in-output:{}", match labels.len() { 0 => "0", 1 => "1", 2 => "2", 3..=5 => "3-5", _ => ">5" }));
                    cases.push((idx, coq_plan_case_with(&c, text, "plan_d_ok max_depth")));
                }
            }
            continue;
        }
        if idx >= TERM_BASE {
            // ---- the term stream
            let tc = gen_term_case(base.fork(idx as u64));
            let posname = ["subject", "predicate", "object", "graph name"][tc.pos];
            let desc = format!("[term:{}] {} position, term {} , prefixes={:?}, {}", tc.class, posname, show(&tc.term), tc.pm, if tc.case.trig { "TriG" } else { "Turtle" });
            sum.bump(&format!("term:{}", tc.class));
            sum.bump(&format!("term-position:{posname}"));
            sum.bump(&format!("term-kind:{}", match &tc.term { T::Iri(_) => "iri", T::B(_) => "blank", T::Lit(..) => "literal", T::Lang(..) => "tagged", T::Tr(_) => "quoted", T::V(_) => "variable" }));
            sum.evaluations += 1;
            if seen.insert(desc.clone()) { sum.distinct_nontrivial += 1; }
            if sum.samples.len() < 9 && idx % 5 == 0 { sum.samples.push(format!("case {idx}: {desc}")); }
            let mut fail: Option<String> = None;
            let mut shown = String::new();
            match serialise(&tc.case) {
                Err(e) => fail = Some(format!("the serializer fails on a single term: {e}")),
                Ok(text) => {
                    shown = text.clone();
                    match cut_term(&tc, &text) {
                        Err(e) => fail = Some(format!("unexpected layout around the term ({e}); output:\n{text}")),
                        Ok((obs, after)) => {
                            let spelling = match obs.as_slice() {
                                [b'<', b'<', ..] => "quoted-triple", [b'<', ..] => "angle-brackets", [b'_', ..] => "label", [b'"', ..] => "quoted-string", [b'(', ..] => "()", [b'?', ..] => "variable",
                                [b'0'..=b'9' | b'+' | b'-' | b'.', ..] => "bare-number", b"true" | b"false" => "bare-boolean", _ => "prefixed-name" };
                            sum.bump(&format!("term-spelling:{spelling}"));
                            if obs.windows(2).any(|w| w == b"^^") && !obs.ends_with(b">") && obs.starts_with(b"\"") { sum.bump("term-spelling:datatype-as-prefixed-name"); }
                            let (k, t, pmc) = (tc.pos, coq_term(to_st(&tc.term)), coq_pm(&tc.pm));
                            let body = if tc.hyps { format!("term_case_ok absf {pmc} {k} {t} {} {}", coq_bytes(&obs), coq_bytes(&after)) }
                                else if has_var(&tc.term) { format!("term_text_only_ok absf {pmc} {k} {t} {} && rejected {pmc} {k} ({} ++ {})", coq_bytes(&obs), coq_bytes(&obs), coq_bytes(&after)) }
                                else { format!("term_text_only_ok absf {pmc} {k} {t} {}", coq_bytes(&obs)) };
                            cases.push((idx, body));
                        }
                    }
                    // ORACLE: within the hypotheses (and with absolute IRIs only: the parser has no base), sophia's parser
                    // reads the document back to the same statement(s)
                    fn all_abs(t: &T) -> bool { match t { T::Iri(i) => Iri::new(i.as_str()).is_ok(), T::Lit(_, d) => Iri::new(d.as_str()).is_ok(), T::Tr(b) => b.iter().all(all_abs), _ => true } }
                    if fail.is_none() && tc.hyps && has_non_bcp47(&tc.term) {
                        sum.bump(&format!("term:tag-LANGTAG-but-not-BCP47:{}", if oracle(&tc.case).is_ok() { "sophia-reads-it-back" } else { "sophia-rejects-its-own-output" }));
                    } else if fail.is_none() && tc.hyps && all_abs(&tc.term) {
                        if let Err(e) = oracle(&tc.case) { fail = Some(e); }
                    } else if tc.hyps { sum.bump("term-oracle-skipped:relative-iri"); }
                    else if tc.class == "tag-not-LANGTAG" {
                        sum.bump(&format!("term:tag-not-LANGTAG:{}", if oracle(&tc.case).is_ok() { "sophia-reads-it-back" } else { "sophia-rejects-its-own-output" }));
                    }
                }
            }
            if a.only.is_some() { println!("CASE {idx}: {desc}\n=> {}", match &fail { None => format!("ok; output:\n{shown}"), Some(e) => format!("FAILS: {e}") }); }
            if let Some(e) = fail { sum.oracle_failures.push((idx.to_string(), format!("shape classes [term:{}]: {}\ncase: {}", tc.class, clip(&e), clip(&desc)))); }
            continue;
        }
        let mut r = base.fork(idx as u64);
        let stream = idx % 8;
        let (c, coq): (Case, Option<String>) = if stream < 6 {
            (gen_shape_case(r), None)
        } else if stream == 6 {
            let (l, _) = gen_literal(&mut r);
            let c = Case { shapes: vec!["single-literal".into()], quads: vec![(None, [T::Iri("urn:s".into()), T::Iri("urn:p".into()), l])], prefixes: gen_prefixes(&mut r), indent: gen_indent(&mut r), pretty: true, trig: r.chance(1, 2), ctor: 0 };
            (c, None)
        } else {
            let o = gen_iri(&mut r);
            let c = Case { shapes: vec!["single-iri".into()], quads: vec![(None, [T::Iri("urn:s".into()), T::Iri("urn:p".into()), T::Iri(o)])], prefixes: gen_prefixes(&mut r), indent: "  ".into(), pretty: true, trig: r.chance(1, 2), ctor: 0 };
            (c, None)
        };
        let _ = coq;
        let desc = describe(&c);
        let res = oracle(&c);
        if a.only.is_some() { println!("CASE {idx}: {desc}\n=> {}", match &res { Ok(t) => format!("round-trips; output:\n{t}"), Err(e) => format!("FAILS: {e}") }); }
        if let Err(e) = &res {
            sum.oracle_failures.push((idx.to_string(), format!("shape classes [{}]: {}\ncase: {}", c.shapes.join("+"), clip(e), clip(&desc))));
        }
        for s in &c.shapes { sum.bump(&format!("shape:{s}")); }
        sum.bump(if c.pretty { "mode:pretty" } else { "mode:plain" });
        sum.bump(if c.trig { "syntax:trig" } else { "syntax:turtle" });
        let nontrivial = c.quads.iter().any(|(g, t)| g.iter().chain(t.iter()).any(|x| match x { T::B(_) | T::Tr(_) => true, T::Lit(_, d) => d != &xsd("string"), T::Iri(i) => stream == 7 && !i.rsplit(['/', '#', ':']).next().unwrap().chars().all(|ch| ch.is_ascii_alphanumeric()), _ => false }));
        if seen.insert(desc.clone()) && nontrivial { sum.distinct_nontrivial += 1; }
        if sum.samples.len() < 6 && nontrivial && idx % 3 == 0 { sum.samples.push(format!("case {idx}: {desc}")); }
        sum.evaluations += 1;
        // Coq side
        if matches!(&res, Ok(t) if t == REFUSED) { sum.bump("indentation-refused"); }
        if let Ok(text) = &res {
            if text == REFUSED {
            } else if stream < 6 && c.pretty {
                cases.push((idx, coq_plan_case(&c, text)));
            } else if stream == 6 {
                if let T::Lit(lex, dt) = &c.quads[0].1[2] {
                    cases.push((idx, format!("lit_ok {} {} {}", coq_str(dt), coq_str(lex), coq_bool(!text.contains('"')))));
                }
            } else if stream == 7 {
                if let T::Iri(i) = &c.quads[0].1[2] {
                    // the object token: between "<urn:p> " and the final "."
                    let tok = text.rsplit("<urn:p>").next().unwrap().trim().trim_end_matches('.').trim().to_string();
                    // rdf:nil as an object is written `()`: not a decision of write_iri's prefix logic
                    if tok != "()" {
                        let obs = if tok.starts_with('<') { None } else { let k = tok.find(':').expect("prefixed name"); Some(format!("({}, {})", coq_str(&tok[..k]), coq_str(&tok[k + 1..]))) };
                        let pm = coq_list(c.prefixes.iter().map(|(p, n)| format!("({}, {})", coq_str(p), coq_str(n))));
                        cases.push((idx, format!("pname_ok {pm} {} {}", coq_str(i), coq_opt(obs))));
                    }
                }
            }
        }
    }
    CASE_START_MS.store(0, Ordering::Relaxed);   // the watchdog only times the implementation
    stream_ms[if last_idx >= DOC_BASE { 4 } else if last_idx >= PFX_BASE { 3 } else if last_idx >= DEEP_BASE { 2 } else if last_idx >= TERM_BASE { 1 } else { 0 }] += now_ms() - last_ms;
    sum.extra.push(("stream_ms(shape,term,deep,prefix,doc)".into(), format!("{:?}", stream_ms)));
    if a.only.is_none() {
        let header = "From Sophia.Common Require Import Term.\nFrom Sophia.C04 Require Import Model Deep TermRead TermText DocRead DocText.\nFrom Sophia.C09 Require Model.\nDefinition absf := Sophia.C09.Model.iri_new_ok.\n";
        sum.shards = write_shards(&a.out, header, &cases, a.shards);
        sum.extra.push(("coq_cases".into(), cases.len().to_string()));
        std::fs::write(format!("{}/summary.json", a.out), sum.to_json()).unwrap();
    }
    println!("c04: {} cases, {} distinct non-trivial, {} coq cases, {} oracle failures", sum.evaluations, sum.distinct_nontrivial, cases.len(), sum.oracle_failures.len());
}
