(* C08/Literal.v -- the literal accessors of the parsers' terms (rio/src/model.rs: lexical_form, datatype,
   language_tag of Trusted<Literal>; jsonld/src/parser/adapter.rs: the same for rdf_types literals): they are
   total; a language tag implies the datatype rdf:langString but NOT conversely: a literal explicitly typed
   rdf:langString ("chat"^^rdf:langString) is legal in every concrete syntax and comes out as a typed literal
   without language tag.  Definitions only. *)
From Sophia.Common Require Import Prelude Term.

(* rio_api::model::Literal: Simple { value } | LanguageTaggedString { value, language } | Typed { value, datatype } *)
Inductive rio_literal := LSimple (v : str) | LLang (v tag : str) | LTyped (v dt : str).

(* "http://www.w3.org/2001/XMLSchema#string" *)
Definition xsd_string : str :=
  [104; 116; 116; 112; 58; 47; 47; 119; 119; 119; 46; 119; 51; 46; 111; 114; 103; 47; 50; 48; 48; 49; 47; 88; 77; 76; 83; 99; 104; 101; 109; 97; 35; 115; 116; 114; 105; 110; 103].
(* "http://www.w3.org/1999/02/22-rdf-syntax-ns#langString" *)
Definition rdf_langString : str :=
  [104; 116; 116; 112; 58; 47; 47; 119; 119; 119; 46; 119; 51; 46; 111; 114; 103; 47; 49; 57; 57; 57; 47; 48; 50; 47; 50; 50; 45; 114; 100; 102; 45; 115; 121; 110; 116; 97; 120; 45; 110; 115; 35; 108; 97; 110; 103; 83; 116; 114; 105; 110; 103].

Definition lit_lexical (l : rio_literal) : str := match l with LSimple v | LLang v _ | LTyped v _ => v end.
Definition lit_datatype (l : rio_literal) : str :=
  match l with LSimple _ => xsd_string | LLang _ _ => rdf_langString | LTyped _ dt => dt end.
Definition lit_language (l : rio_literal) : option str := match l with LLang _ tag => Some tag | _ => None end.

(* harness-facing: the raw literal (public fields of the rio item) against what the accessors of the wrapper
   answered *)
Definition lit_ok (l : rio_literal) (lex dt lang : option str) : bool :=
  opt_eqb str_eqb lex (Some (lit_lexical l)) && opt_eqb str_eqb dt (Some (lit_datatype l))
  && opt_eqb str_eqb lang (lit_language l).

(* JSON-LD: rdf_types::literal::Type *)
Inductive jl_type := TAny (dt : str) | TLangString (tag : str).
Definition jl_datatype (t : jl_type) : str := match t with TAny dt => dt | TLangString _ => rdf_langString end.
Definition jl_language (t : jl_type) : option str := match t with TAny _ => None | TLangString tag => Some tag end.

(* what downstream code may rely on (contract of Term::language_tag) *)
Definition view_ok (dt : str) (lang : option str) : bool :=
  match lang with Some _ => str_eqb dt rdf_langString | None => true end.
