(* C04/DocStore.v -- WHAT THE DOCUMENT STATES IS THE DATASET.  DocProofs.v shows that the document written for a
   dataset d of the class is read back as [doc_quads d], a list computed from d by the same walks as the writer's
   (dedup of the (graph, subject) keys, runs of keys with the same graph name, `quads_matching` filters, the rdf:type
   statements first).  This file relates that list to d itself:
     * SOUND (any list d): every stated quad is a quad of d -- same predicate and object, graph name and subject equal
       in the sense of Term::eq (they are spelled like the first quad of their group);
     * EXACT (d in store order, i.e. strictly increasing for the order of BTreeSet<Gspo<SimpleTerm>>, terms honouring
       the Term contract): the stated quads are, one for one, a PERMUTATION of d -- nothing lost, nothing stated twice,
       nothing added, merged or moved to another graph.
   The order facts come from C02 (Term::cmp is the lexicographic order of an encoding, Term::cmp = Equal iff Term::eq). *)
From Coq Require Import Permutation.
From Sophia.Common Require Import Prelude Term.
From Sophia.C04 Require Import Model TermRead TermText DocRead DocText DocProofs.
From Sophia.C04 Require TermProofs.
From Sophia.C02 Require Proofs.

Notation term_eqb_sym := Sophia.C02.Proofs.term_eqb_sym.
Notation term_eqb_trans := Sophia.C02.Proofs.term_eqb_trans.
Notation term_eqb_refl := Sophia.C02.Proofs.term_eqb_refl.
Notation enc := Sophia.C02.Proofs.enc.

(* a stated quad r against a quad q of the dataset *)
Definition rq_g (r : rquad) : option term := fst (fst (fst r)).
Definition rq_s (r : rquad) : term := snd (fst (fst r)).
Definition rq_p (r : rquad) : term := snd (fst r).
Definition rq_o (r : rquad) : term := snd r.
Definition same_rq (r : rquad) (q : tquad) : Prop :=
  gn_eqb (tq_g q) (rq_g r) = true /\ term_eqb (tq_s q) (rq_s r) = true /\ rq_p r = tq_p q /\ rq_o r = tq_o q.

(* ===================================================================================== *)
(* Part 1: the pairs (graph name of the run, key) the writer visits                       *)
(* ===================================================================================== *)
Fixpoint named_pairs (fuel : nat) (keys : list tkey) : list (option term * tkey) :=
  match fuel with
  | O => []
  | S f =>
      match keys with
      | [] => []
      | k1 :: _ =>
          let run := take_while (fun k => gn_eqb (fst k1) (fst k)) keys in
          map (pair (fst k1)) run ++ named_pairs f (skipn (length run) keys)
      end
  end.
Definition doc_pairs (d : list tquad) : list (option term * tkey) :=
  let keys := subject_keys d in
  let dflt := take_while (fun k => is_none (fst k)) keys in
  map (pair None) dflt ++ named_pairs (length keys) (skipn (length dflt) keys).

Lemma flat_map_map {A B C} (f : A -> B) (g : B -> list C) l : flat_map g (map f l) = flat_map (fun x => g (f x)) l.
Proof. induction l as [|x l IH]; [reflexivity|]. cbn [map flat_map]. rewrite IH. reflexivity. Qed.

Lemma named_quads_pairs d fuel : forall keys,
  named_quads d fuel keys = flat_map (fun gk => tree_quads d (fst gk) (snd gk)) (named_pairs fuel keys).
Proof.
  induction fuel as [|f IH]; intro keys; [reflexivity|]. cbn [named_quads named_pairs].
  destruct keys as [|k1 keys]; [reflexivity|]. rewrite flat_map_app, flat_map_map, IH. reflexivity.
Qed.
Lemma doc_quads_pairs d : doc_quads d = flat_map (fun gk => tree_quads d (fst gk) (snd gk)) (doc_pairs d).
Proof.
  unfold doc_quads, doc_pairs. rewrite flat_map_app, flat_map_map, named_quads_pairs. reflexivity.
Qed.

Lemma gn_eqb_refl g : gn_eqb g g = true.
Proof. destruct g; [apply term_eqb_refl | reflexivity]. Qed.
Lemma gn_eqb_sym a b : gn_eqb a b = gn_eqb b a.
Proof. destruct a, b; try reflexivity. apply term_eqb_sym. Qed.
Lemma gn_eqb_trans a b c : gn_eqb a b = true -> gn_eqb b c = true -> gn_eqb a c = true.
Proof. destruct a, b, c; cbn; try discriminate; try reflexivity. apply term_eqb_trans. Qed.

Lemma take_skip {A} (f : A -> bool) l : take_while f l ++ skipn (length (take_while f l)) l = l.
Proof. induction l as [|x l IH]; [reflexivity|]. cbn [take_while]. destruct (f x); [cbn; rewrite IH|]; reflexivity. Qed.

(* the runs cover the keys, in order *)
Lemma named_pairs_keys fuel : forall keys, (length keys <= fuel)%nat -> map snd (named_pairs fuel keys) = keys.
Proof.
  induction fuel as [|f IH]; intros keys L.
  - destruct keys; [reflexivity | cbn in L; lia].
  - cbn [named_pairs]. destruct keys as [|k1 keys]; [reflexivity|].
    cbn [take_while]. rewrite gn_eqb_refl. cbn [length skipn map app snd]. f_equal.
    rewrite map_app, map_map. cbn [snd]. rewrite map_id. rewrite IH.
    + apply take_skip.
    + rewrite skipn_length. cbn [length] in L. lia.
Qed.
Lemma doc_pairs_keys d : map snd (doc_pairs d) = subject_keys d.
Proof.
  unfold doc_pairs. rewrite map_app, map_map. cbn [snd]. rewrite map_id, named_pairs_keys.
  - apply take_skip.
  - rewrite skipn_length. lia.
Qed.
(* the graph name of the run is equal (Term::eq) to the graph name of each of its keys *)
Lemma named_pairs_g fuel : forall keys gk, In gk (named_pairs fuel keys) -> gn_eqb (fst gk) (fst (snd gk)) = true.
Proof.
  induction fuel as [|f IH]; intros keys gk I; [destruct I|]. cbn [named_pairs] in I.
  destruct keys as [|k1 keys]; [destruct I|]. apply in_app_or in I. destruct I as [I|I]; [|exact (IH _ _ I)].
  apply in_map_iff in I. destruct I as [k [<- Ik]]. apply take_while_incl in Ik. destruct Ik as [_ Ek]. exact Ek.
Qed.
Lemma doc_pairs_g d gk : In gk (doc_pairs d) -> gn_eqb (fst gk) (fst (snd gk)) = true.
Proof.
  unfold doc_pairs. intro I. apply in_app_or in I. destruct I as [I|I]; [|exact (named_pairs_g _ _ _ I)].
  apply in_map_iff in I. destruct I as [k [<- Ik]]. apply take_while_incl in Ik. destruct Ik as [_ Ek].
  cbn [fst snd]. destruct (fst k); [discriminate Ek | reflexivity].
Qed.

(* ===================================================================================== *)
(* Part 2: SOUND -- every stated quad is a quad of the dataset                            *)
(* ===================================================================================== *)
Lemma props_quads_in d g s q : In q (props_quads d g s) -> In q d /\ m_subj s q = true /\ m_g g q = true.
Proof.
  unfold props_quads, group. intro I. apply in_app_or in I.
  assert (G : In q (filter (fun q0 => m_subj s q0 && m_g g q0) d)) by (destruct I as [I|I]; apply filter_In in I; tauto).
  apply filter_In in G. destruct G as [G1 G2]. apply andb_true_iff in G2. tauto.
Qed.
Theorem doc_quads_sound d r : In r (doc_quads d) -> exists q, In q d /\ same_rq r q.
Proof.
  rewrite doc_quads_pairs. intro I. apply in_flat_map in I. destruct I as [gk [_ I]].
  unfold tree_quads in I. apply in_map_iff in I. destruct I as [q [<- Iq]].
  destruct (props_quads_in d _ _ q Iq) as (Id & Hs & Hg). exists q. split; [exact Id|].
  unfold same_rq, rq_g, rq_s, rq_p, rq_o. cbn [fst snd]. repeat split; assumption.
Qed.

(* ===================================================================================== *)
(* Part 3: lists                                                                         *)
(* ===================================================================================== *)
Lemma filter_partition_perm {A} (f : A -> bool) l : Permutation (filter f l ++ filter (fun x => negb (f x)) l) l.
Proof.
  induction l as [|x l IH]; [apply perm_nil|]. cbn [filter]. destruct (f x); cbn [negb app].
  - apply perm_skip. exact IH.
  - apply Permutation_sym, Permutation_cons_app, Permutation_sym. exact IH.
Qed.
Lemma perm_flat_map_pointwise {A B} (f g : A -> list B) l :
  (forall x, In x l -> Permutation (f x) (g x)) -> Permutation (flat_map f l) (flat_map g l).
Proof.
  induction l as [|x l IH]; intro H; [apply perm_nil|]. cbn [flat_map]. apply Permutation_app.
  - apply H. left. reflexivity.
  - apply IH. intros y I. apply H. right. exact I.
Qed.
Lemma forall2_flat_map {A B C} (R : B -> C -> Prop) (f : A -> list B) (g : A -> list C) l :
  (forall x, In x l -> Forall2 R (f x) (g x)) -> Forall2 R (flat_map f l) (flat_map g l).
Proof.
  induction l as [|x l IH]; intro H; [constructor|]. cbn [flat_map]. apply Forall2_app.
  - apply H. left. reflexivity.
  - apply IH. intros y I. apply H. right. exact I.
Qed.
Lemma forall2_map_l {A B} (R : B -> A -> Prop) (f : A -> B) l : (forall x, In x l -> R (f x) x) -> Forall2 R (map f l) l.
Proof.
  induction l as [|x l IH]; intro H; [constructor|]. cbn [map]. constructor; [apply H; left; reflexivity|].
  apply IH. intros y I. apply H. right. exact I.
Qed.

(* every element matched by exactly one class: the classes partition the list *)
Lemma flat_map_cons_perm {A K} (m : K -> A -> bool) (F : K -> list A) x ks :
  Permutation (flat_map (fun k => if m k x then x :: F k else F k) ks)
              (repeat x (length (filter (fun k => m k x) ks)) ++ flat_map F ks).
Proof.
  induction ks as [|k ks IH]; [apply perm_nil|]. cbn [flat_map filter].
  assert (Sw : forall (R Z : list A), Permutation (F k ++ R ++ Z) (R ++ F k ++ Z)).
  { intros R Z. rewrite !app_assoc. apply Permutation_app_tail. apply Permutation_app_comm. }
  destruct (m k x); cbn [length repeat app].
  - apply perm_skip. apply (Permutation_trans (Permutation_app_head (F k) IH)). apply Sw.
  - apply (Permutation_trans (Permutation_app_head (F k) IH)). apply Sw.
Qed.
Theorem partition_perm {A K} (m : K -> A -> bool) ks l :
  (forall x, In x l -> length (filter (fun k => m k x) ks) = 1%nat) ->
  Permutation (flat_map (fun k => filter (m k) l) ks) l.
Proof.
  induction l as [|x l IH]; intro H.
  - clear H. cbn [filter]. induction ks as [|k ks IHk]; cbn [flat_map app]; [apply perm_nil | exact IHk].
  - cbn [filter]. pose proof (flat_map_cons_perm m (fun k => filter (m k) l) x ks) as P. cbn beta in P.
    eapply Permutation_trans; [exact P|].
    rewrite (H x (or_introl eq_refl)). cbn [repeat app]. apply perm_skip. apply IH. intros y I. apply H. right. exact I.
Qed.
Lemma filter_map_length {A B} (f : A -> B) (P : B -> bool) l :
  length (filter (fun x => P (f x)) l) = length (filter P (map f l)).
Proof. induction l as [|x l IH]; [reflexivity|]. cbn [filter map]. destruct (P (f x)); cbn [length]; rewrite IH; reflexivity. Qed.

(* ===================================================================================== *)
(* Part 4: the order of the keys is an order of strings                                   *)
(* ===================================================================================== *)
Definition enc_g (g : option term) : str := match g with None => [0] | Some t => 1 :: enc t end.
Definition enc_key (k : tkey) : str := enc_g (fst k) ++ enc (snd k).
Definition key_cmp (a b : tkey) : comparison := then_cmp (gn_cmp (fst a) (fst b)) (term_cmp (snd a) (snd b)).
Definition wf_key (k : tkey) : Prop := match fst k with Some g => wf g | None => True end /\ wf (snd k).

Lemma wfb_wf t : wfb t = true -> wf t.
Proof.
  induction t as [i|l|lex dt|lex tag|s IHs p IHp o IHo|v]; cbn [wfb wf]; intro H; try exact Logic.I.
  - apply negb_true_iff in H. intro E. subst dt. rewrite str_eqb_refl in H. discriminate.
  - apply andb_true_iff in H. destruct H as [H Ho]. apply andb_true_iff in H. destruct H as [Hs Hp]. auto.
Qed.
Lemma key_wfb_wf q : key_wfb q = true -> wf_key (key_of q).
Proof.
  unfold key_wfb, wf_key, key_of. cbn [fst snd]. intro H. apply andb_true_iff in H. destruct H as [Hg Hs].
  split; [destruct (tq_g q); [apply wfb_wf; exact Hg | exact Logic.I] | apply wfb_wf; exact Hs].
Qed.

Lemma enc_key_cmp a b : wf_key a -> wf_key b -> str_cmp (enc_key a) (enc_key b) = key_cmp a b.
Proof.
  destruct a as [[ga|] sa], b as [[gb|] sb]; unfold wf_key, enc_key, key_cmp; cbn [fst snd enc_g gn_cmp app str_cmp];
    intros [Wg Ws] [Wg' Ws'].
  - change (1 ?= 1) with Eq. cbn match. rewrite Sophia.C02.Proofs.enc_cmp by assumption.
    rewrite <- Sophia.C02.Proofs.term_cmp_enc by assumption. reflexivity.
  - reflexivity.
  - reflexivity.
  - change (0 ?= 0) with Eq. cbn match. cbn [then_cmp]. rewrite <- Sophia.C02.Proofs.term_cmp_enc by assumption. reflexivity.
Qed.
Lemma gn_cmp_eq a b : match a with Some g => wf g | None => True end -> match b with Some g => wf g | None => True end ->
  (gn_cmp a b = Eq <-> gn_eqb a b = true).
Proof.
  destruct a, b; cbn [gn_cmp gn_eqb opt_eqb]; intros Wa Wb; try (split; [reflexivity | reflexivity]); try (split; discriminate).
  apply Sophia.C02.Proofs.term_cmp_eq; assumption.
Qed.
Lemma key_eqb_enc a b : wf_key a -> wf_key b -> (key_eqb a b = true <-> enc_key a = enc_key b).
Proof.
  intros Wa Wb. rewrite <- str_cmp_eq, (enc_key_cmp a b Wa Wb). unfold key_cmp, key_eqb.
  rewrite Sophia.C02.Proofs.then_cmp_Eq, andb_true_iff.
  destruct Wa as [Wga Wsa], Wb as [Wgb Wsb].
  rewrite (gn_cmp_eq (fst a) (fst b) Wga Wgb), (Sophia.C02.Proofs.term_cmp_eq (snd a) (snd b) Wsa Wsb). reflexivity.
Qed.

(* ---- weakly / strictly increasing lists of strings ---- *)
Definition wle (a b : str) : Prop := str_cmp a b <> Gt.
Lemma wle_trans a b c : wle a b -> wle b c -> wle a c.
Proof.
  unfold wle. intros H1 H2. destruct (str_cmp a b) eqn:E1; [|clear H1|congruence].
  - apply str_cmp_eq in E1. subst b. exact H2.
  - destruct (str_cmp b c) eqn:E2; [|clear H2|congruence].
    + apply str_cmp_eq in E2. subst c. rewrite E1. discriminate.
    + rewrite (str_cmp_lt_trans a b c E1 E2). discriminate.
Qed.
Lemma wle_lt_trans a b c : wle a b -> str_cmp b c = Lt -> str_cmp a c = Lt.
Proof.
  unfold wle. intros H1 H2. destruct (str_cmp a b) eqn:E1; [| |congruence].
  - apply str_cmp_eq in E1. subst b. exact H2.
  - exact (str_cmp_lt_trans a b c E1 H2).
Qed.
Lemma wle_neq_lt a b : wle a b -> a <> b -> str_cmp a b = Lt.
Proof.
  unfold wle. intros H N. destruct (str_cmp a b) eqn:E; [|reflexivity|congruence]. apply str_cmp_eq in E. contradiction.
Qed.
Fixpoint adj (l : list str) : Prop :=
  match l with
  | x :: l' => match l' with y :: _ => wle x y /\ adj l' | [] => True end
  | [] => True
  end.
Fixpoint ssorted (l : list str) : Prop :=
  match l with [] => True | x :: l' => (forall y, In y l' -> wle x y) /\ ssorted l' end.
Fixpoint incr (l : list str) : Prop :=
  match l with [] => True | x :: l' => (forall y, In y l' -> str_cmp x y = Lt) /\ incr l' end.
Lemma adj_ssorted l : adj l -> ssorted l.
Proof.
  induction l as [|x l IH]; intro H; [exact Logic.I|]. cbn [adj] in H. destruct l as [|y l].
  - split; [intros y [] | exact Logic.I].
  - destruct H as [Hxy H]. specialize (IH H). split; [|exact IH].
    intros z [<-|Iz]; [exact Hxy|]. destruct IH as [Hy _]. exact (wle_trans x y z Hxy (Hy z Iz)).
Qed.
Lemma incr_nodup l : incr l -> NoDup l.
Proof.
  induction l as [|x l IH]; intro H; [constructor|]. destruct H as [Hx H]. constructor; [|exact (IH H)].
  intro I. specialize (Hx x I). rewrite str_cmp_refl in Hx. discriminate.
Qed.

(* ===================================================================================== *)
(* Part 5: in a store in order the keys of subject_types are strictly increasing          *)
(* ===================================================================================== *)
Lemma dedup_incr l : forall prev, Forall wf_key l -> match prev with Some p => wf_key p | None => True end ->
  ssorted (map enc_key l) -> (forall p, prev = Some p -> forall x, In x l -> wle (enc_key p) (enc_key x)) ->
  incr (map enc_key (dedup_first prev l)) /\
  (forall p, prev = Some p -> forall k, In k (dedup_first prev l) -> str_cmp (enc_key p) (enc_key k) = Lt).
Proof.
  induction l as [|x l IH]; intros prev W Wp S P.
  - split; [exact Logic.I | intros p _ k []].
  - inversion W as [|x' l' Wx Wl]; subst x' l'. cbn [map ssorted] in S. destruct S as [Sx S].
    assert (Kept : (forall p, prev = Some p -> enc_key p <> enc_key x) ->
              incr (map enc_key (x :: dedup_first (Some x) l)) /\
              (forall p, prev = Some p -> forall k, In k (x :: dedup_first (Some x) l) -> str_cmp (enc_key p) (enc_key k) = Lt)).
    { intro Ne. destruct (IH (Some x) Wl Wx S) as [I1 I2].
      { intros p [= <-] y Iy. apply Sx. apply in_map. exact Iy. }
      split.
      - cbn [map incr]. split; [|exact I1]. intros y Iy. apply in_map_iff in Iy. destruct Iy as [k [<- Ik]]. exact (I2 x eq_refl k Ik).
      - intros p Ep k [<-|Ik].
        + apply wle_neq_lt; [apply (P p Ep); left; reflexivity | exact (Ne p Ep)].
        + apply (wle_lt_trans _ (enc_key x)); [apply (P p Ep); left; reflexivity | exact (I2 x eq_refl k Ik)]. }
    cbn [dedup_first]. destruct prev as [p|]; cbn [opt_eqb].
    + destruct (key_eqb x p) eqn:E.
      * apply (IH (Some p) Wl Wp S). intros p' [= <-] y Iy. apply (P p eq_refl). right. exact Iy.
      * apply Kept. intros p' [= <-] Eq. symmetry in Eq. apply (key_eqb_enc x p Wx Wp) in Eq. congruence.
    + apply Kept. intros p [=].
Qed.

Lemma then_cmp_lt_le a b : then_cmp a b = Lt -> a <> Gt.
Proof. destruct a; cbn; congruence. Qed.
Lemma sorted_keys_adj d : store_sorted d = true -> Forall wf_key (map key_of d) -> adj (map enc_key (map key_of d)).
Proof.
  induction d as [|a d IH]; intros S W; [exact Logic.I|]. cbn [store_sorted] in S. destruct d as [|b d]; [exact Logic.I|].
  apply andb_true_iff in S. destruct S as [Sab S]. cbn [map] in W. inversion W as [|? ? Wa W']; subst.
  cbn [map adj]. split; [|exact (IH S W')].
  inversion W' as [|? ? Wb _]; subst. unfold wle. rewrite (enc_key_cmp (key_of a) (key_of b) Wa Wb).
  unfold key_cmp, key_of. cbn [fst snd]. unfold tquad_cmp in Sab.
  destruct (then_cmp (gn_cmp (tq_g a) (tq_g b))
              (then_cmp (term_cmp (tq_s a) (tq_s b)) (then_cmp (term_cmp (tq_p a) (tq_p b)) (term_cmp (tq_o a) (tq_o b))))) eqn:E;
    try discriminate Sab.
  destruct (gn_cmp (tq_g a) (tq_g b)); cbn [then_cmp] in *; try congruence.
  exact (then_cmp_lt_le _ _ E).
Qed.

Theorem sorted_keys_nodup d : store_sorted d = true -> forallb key_wfb d = true ->
  NoDup (map enc_key (subject_keys d)).
Proof.
  intros S W.
  assert (Wk : Forall wf_key (map key_of d)).
  { apply Forall_forall. intros k I. apply in_map_iff in I. destruct I as [q [<- Iq]]. apply key_wfb_wf.
    rewrite forallb_forall in W. exact (W q Iq). }
  apply incr_nodup. unfold subject_keys.
  apply (dedup_incr (map key_of d) None Wk Logic.I (adj_ssorted _ (sorted_keys_adj d S Wk))). intros p [=].
Qed.

(* ===================================================================================== *)
(* Part 6: EXACT -- each quad of a store in order is stated exactly once                  *)
(* ===================================================================================== *)
Lemma key_eqb_refl k : key_eqb k k = true.
Proof. unfold key_eqb. rewrite gn_eqb_refl, term_eqb_refl. reflexivity. Qed.
(* every key has a representative among the keys kept by dedup *)
Lemma dedup_rep l : forall prev x, In x l ->
  (exists k, In k (dedup_first prev l) /\ key_eqb x k = true) \/ opt_eqb key_eqb (Some x) prev = true.
Proof.
  induction l as [|x0 l IH]; intros prev x I; [destruct I|]. cbn [dedup_first].
  destruct (opt_eqb key_eqb (Some x0) prev) eqn:E.
  - destruct I as [<-|I]; [right; exact E | exact (IH prev x I)].
  - left. destruct I as [<-|I].
    + exists x0. split; [left; reflexivity | apply key_eqb_refl].
    + destruct (IH (Some x0) x I) as [[k [Ik Ek]]|Ex].
      * exists k. split; [right; exact Ik | exact Ek].
      * exists x0. split; [left; reflexivity | exact Ex].
Qed.
Lemma count_one l x : Forall wf_key l -> wf_key x -> NoDup (map enc_key l) -> In (enc_key x) (map enc_key l) ->
  length (filter (fun k => key_eqb x k) l) = 1%nat.
Proof.
  induction l as [|k l IH]; intros W Wx N I; [destruct I|].
  inversion W as [|? ? Wk Wl]; subst. cbn [map] in N. inversion N as [|? ? Nk Nl]; subst. cbn [filter].
  destruct (key_eqb x k) eqn:E.
  - cbn [length]. f_equal. apply (key_eqb_enc x k Wx Wk) in E.
    assert (Z : forall k', In k' l -> key_eqb x k' = false).
    { intros k' Ik'. destruct (key_eqb x k') eqn:E'; [|reflexivity]. exfalso. apply Nk.
      rewrite Forall_forall in Wl. apply (key_eqb_enc x k' Wx (Wl k' Ik')) in E'. rewrite <- E, E'. apply in_map. exact Ik'. }
    clear - Z. induction l as [|k' l IHl]; [reflexivity|]. cbn [filter]. rewrite (Z k' (or_introl eq_refl)).
    apply IHl. intros k'' I. apply Z. right. exact I.
  - apply IH; try assumption. destruct I as [I|I]; [|exact I]. exfalso.
    assert (T : key_eqb x k = true) by (apply (key_eqb_enc x k Wx Wk); symmetry; exact I). congruence.
Qed.

Lemma gn_eqb_congr a b x : gn_eqb a b = true -> gn_eqb x a = gn_eqb x b.
Proof.
  intro H. destruct (gn_eqb x a) eqn:E1; destruct (gn_eqb x b) eqn:E2; try reflexivity.
  - rewrite (gn_eqb_trans x a b E1 H) in E2. discriminate.
  - rewrite gn_eqb_sym in H. rewrite (gn_eqb_trans x b a E2 H) in E1. discriminate.
Qed.

Theorem doc_quads_exact d : store_sorted d = true -> forallb key_wfb d = true ->
  exists d', Permutation d' d /\ Forall2 same_rq (doc_quads d) d'.
Proof.
  intros S W.
  exists (flat_map (fun gk => props_quads d (fst gk) (snd (snd gk))) (doc_pairs d)). split.
  - (* the classes (run, key) partition the store *)
    apply (Permutation_trans (l' := flat_map (fun gk => filter (fun q => m_subj (snd (snd gk)) q && m_g (fst gk) q) d) (doc_pairs d))).
    { apply perm_flat_map_pointwise. intros gk _. apply filter_partition_perm. }
    apply (partition_perm (fun gk q => m_subj (snd (snd gk)) q && m_g (fst gk) q)).
    intros q Iq.
    assert (Wq : wf_key (key_of q)) by (apply key_wfb_wf; rewrite forallb_forall in W; exact (W q Iq)).
    assert (Wk : Forall wf_key (subject_keys d)).
    { apply Forall_forall. intros k Ik. destruct (keys_from_d d k Ik) as [q' [Iq' <-]]. apply key_wfb_wf.
      rewrite forallb_forall in W. exact (W q' Iq'). }
    rewrite (filter_ext_in _ (fun gk => key_eqb (key_of q) (snd gk))).
    + rewrite (filter_map_length snd (fun k => key_eqb (key_of q) k)), doc_pairs_keys.
      apply (count_one _ _ Wk Wq (sorted_keys_nodup d S W)).
      destruct (dedup_rep (map key_of d) None (key_of q) (in_map key_of d q Iq)) as [[k [Ik Ek]]|Ex]; [|discriminate Ex].
      rewrite Forall_forall in Wk. apply (key_eqb_enc _ _ Wq (Wk k Ik)) in Ek. rewrite Ek. apply in_map. exact Ik.
    + intros [g k] Igk. pose proof (doc_pairs_g d (g, k) Igk) as G. cbn [fst snd] in G.
      unfold m_subj, m_g, key_eqb, key_of. cbn [fst snd].
      rewrite (gn_eqb_congr g (fst k) (tq_g q) G). apply andb_comm.
  - (* graph name and subject are respelled, predicate and object are not touched *)
    rewrite doc_quads_pairs. apply forall2_flat_map. intros gk _. unfold tree_quads. apply forall2_map_l.
    intros q Iq. destruct (props_quads_in d _ _ q Iq) as (_ & Hs & Hg).
    unfold same_rq, rq_g, rq_s, rq_p, rq_o. cbn [fst snd]. repeat split; assumption.
Qed.

Lemma forall2_length {A B} (R : A -> B -> Prop) l l' : Forall2 R l l' -> length l = length l'.
Proof. induction 1; [reflexivity|]. cbn [length]. f_equal. assumption. Qed.
(* nothing is lost, nothing is stated twice *)
Corollary doc_quads_length d : store_sorted d = true -> forallb key_wfb d = true -> length (doc_quads d) = length d.
Proof.
  intros S W. destruct (doc_quads_exact d S W) as [d' [P F]].
  rewrite (forall2_length _ _ _ F). apply Permutation_length. exact P.
Qed.

(* ===================================================================================== *)
(* Part 7: the store order gives the hypothesis of the layout; the headline statement     *)
(* ===================================================================================== *)
Lemma sorted_some_tail d : forall a, store_sorted (a :: d) = true -> is_none (tq_g a) = false ->
  forallb (fun g : option term => negb (is_none g)) (map tq_g d) = true.
Proof.
  induction d as [|b d IH]; intros a S Ha; [reflexivity|]. cbn [store_sorted] in S.
  apply andb_true_iff in S. destruct S as [Sab S]. unfold tquad_cmp in Sab.
  destruct (tq_g a) as [ga|] eqn:Ea; [|discriminate Ha]. destruct (tq_g b) as [gb|] eqn:Eb; [|discriminate Sab].
  cbn [map forallb]. rewrite Eb. cbn [is_none negb andb]. apply (IH b S). rewrite Eb. reflexivity.
Qed.
Theorem sorted_nones_first d : store_sorted d = true -> nones_first (map tq_g d) = true.
Proof.
  induction d as [|a d IH]; intro S; [reflexivity|]. cbn [map nones_first].
  assert (S' : store_sorted d = true).
  { cbn [store_sorted] in S. destruct d; [reflexivity|]. apply andb_true_iff in S. tauto. }
  destruct (tq_g a) eqn:Ea; [|exact (IH S')]. apply (sorted_some_tail d a S). rewrite Ea. reflexivity.
Qed.

(* THE DOCUMENT THEOREM, in terms of the dataset: a store in order, of the class, within the hypotheses of the term
   theorem, is written as a text that the reader of the grammar reads back as a list of quads which is, one for one and
   up to Term::eq on graph names and subjects, a permutation of the store *)
Theorem doc_roundtrip_store absf pm base ind lab d :
  store_sorted d = true -> forallb key_wfb d = true ->
  pm_ok pm = true -> ns_ok pm = true -> ws_str base = true -> ws_str ind = true -> forallb wf_quad d = true ->
  in_class lab d = true ->
  exists text qs d',
    wt_doc absf pm base ind lab d = Some text /\ read_doc text = Some qs /\
    Forall2 same_rq qs d' /\ Permutation d' d.
Proof.
  intros S W Hpm Hns Hb Hi Hd C.
  assert (H : doc_hyps pm base ind d = true).
  { unfold doc_hyps. rewrite Hpm, Hns, Hb, Hi, Hd, (sorted_nones_first d S). reflexivity. }
  destruct (doc_roundtrip absf pm base ind lab d H C) as [text [T R]].
  destruct (doc_quads_exact d S W) as [d' [P F]].
  exists text, (doc_quads d), d'. auto.
Qed.

Example store_example : store_sorted dx_d = true /\ forallb key_wfb dx_d = true.
Proof. vm_compute. split; reflexivity. Qed.
