//! C10, thorough tier: fixed clone/drop/insert scenarios meant to be run under Miri
//! (`cargo +nightly miri run --bin c10_miri`): any read of released memory is reported by Miri.
use sophia_api::prelude::*;
use sophia_inmem::dataset::{FastDataset, LightDataset};
use sophia_inmem::graph::{FastGraph, LightGraph};
use sophia_inmem::index::{SimpleTermIndex, TermIndex};
use verif_harness::*;

fn terms(k: usize) -> [ST; 3] {
    [iri(&format!("http://example.org/subject/with/a/long/path/{k}")), iri("http://example.org/p"),
     if k % 3 == 0 { lit_lang(&format!("value {k}"), "en-GB") } else if k % 3 == 1 { triple(iri("http://e/a"), iri("http://e/p"), bnode(&format!("b{k}"))) } else { lit_dt(&k.to_string(), &format!("{XSD}integer")) }]
}
macro_rules! scenario { ($ty:ty, $ins:expr, $count:expr) => {{
    let ins = $ins; let count = $count;
    // clone, drop the original, read and grow the clone
    let mut a = <$ty>::default(); for k in 0..6 { ins(&mut a, k); }
    let mut b = a.clone(); drop(a);
    let junk: Vec<String> = (0..64).map(|k| format!("http://example.org/subject/with/a/long/path/{k}")).collect();
    for k in 0..9 { ins(&mut b, k); } assert_eq!(count(&b), 9); drop(junk);
    // clone, grow the original past a reallocation, drop the clone, read the original
    let mut c = b.clone(); for k in 9..40 { ins(&mut b, k); } drop(c); assert_eq!(count(&b), 40);
    // clone of a clone, swap, drop in the other order
    c = b.clone(); let mut d = c.clone(); std::mem::swap(&mut c, &mut d); drop(b); ins(&mut d, 41); drop(c); assert_eq!(count(&d), 41);
}}; }
/// widened: the other ways of cloning, moving, dropping, building and extending a store (kept small: Miri is slow)
macro_rules! scenario2 { ($ty:ty, $ins:expr, $count:expr, $collect:expr, $extend:expr) => {{
    let ins = $ins; let count = $count; let collect = $collect; let extend = $extend;
    let mut a = <$ty>::new(); for k in 0..5 { ins(&mut a, k); }
    // clone_from into a non-empty store, then drop the source
    let mut b = <$ty>::default(); ins(&mut b, 30); b.clone_from(&a); assert_eq!(count(&b), 5);
    // clone, then mutate the ORIGINAL heavily (its tables reallocate), then read everything from the clone
    let c = a.clone(); for k in 5..40 { ins(&mut a, k); } assert_eq!(count(&c), 5); assert_eq!(count(&a), 40);
    // Box / Rc / Arc / Vec / Option / Cow clones; the originals dropped first
    let bx = Box::new(c); let bx2 = bx.clone(); drop(bx); assert_eq!(count(&bx2), 5);
    let rc = std::rc::Rc::new(*bx2); let mut rc2 = std::rc::Rc::clone(&rc); ins(std::rc::Rc::make_mut(&mut rc2), 50); let un = std::rc::Rc::try_unwrap(rc).ok().unwrap(); drop(un); assert_eq!(count(&rc2), 6);
    let ar = std::sync::Arc::new(std::rc::Rc::try_unwrap(rc2).ok().unwrap()); let mut ar2 = std::sync::Arc::clone(&ar); ins(std::sync::Arc::make_mut(&mut ar2), 51); drop(ar); assert_eq!(count(&ar2), 7);
    let v = vec![std::sync::Arc::try_unwrap(ar2).ok().unwrap(); 2]; let mut v2 = v.clone(); v2.extend_from_slice(&v); drop(v); let mut v3 = v2[1..].to_vec(); v2.clear(); assert_eq!(v3.len(), 3);
    let last = v3.pop().unwrap(); v3.truncate(0); let cw = std::borrow::Cow::Borrowed(&last).into_owned(); let op = Some(&cw).cloned().unwrap(); drop(last); drop(cw); assert_eq!(count(&op), 7);
    // take / replace / swap, then grow what was moved
    let mut t = op; let mut moved = std::mem::take(&mut t); assert_eq!(count(&t), 0); ins(&mut t, 1); let old = std::mem::replace(&mut moved, t); std::mem::swap(&mut moved, &mut b); drop(moved); for k in 60..70 { ins(&mut b, k); } assert_eq!(count(&old), 7); drop(old);
    // build a store from the statements of a live one, extend another from it, drop the source, read both
    let built = collect(&a); let mut ext = <$ty>::new(); ins(&mut ext, 2); extend(&mut ext, &a); drop(a); assert_eq!(count(&built), 40); assert_eq!(count(&ext), 40);
    // a clone on another thread, the original dropped here meanwhile
    let h = { let c2 = built.clone(); std::thread::spawn(move || { let mut c2 = c2; ins(&mut c2, 80); count(&c2) }) }; drop(built); assert_eq!(h.join().unwrap(), 41);
}}; }
type LGU = sophia_inmem::graph::GenericLightGraph<SimpleTermIndex<usize>>;
type SFD = sophia_inmem::dataset::small::FastDataset;
fn widened() {
    use sophia_api::graph::CollectibleGraph; use sophia_api::dataset::CollectibleDataset;
    scenario2!(FastGraph, |g: &mut FastGraph, k: usize| { let t = terms(k); g.insert(&t[0], &t[1], &t[2]).unwrap(); }, |g: &FastGraph| g.triples().map(|t| format!("{:?}", t.unwrap())).count(),
        |g: &FastGraph| FastGraph::from_triple_source(g.triples()).unwrap(), |d: &mut FastGraph, g: &FastGraph| { d.insert_all(g.triples()).unwrap(); });
    scenario2!(LGU, |g: &mut LGU, k: usize| { let t = terms(k); g.insert(&t[0], &t[1], &t[2]).unwrap(); }, |g: &LGU| g.triples().map(|t| format!("{:?}", t.unwrap())).count(),
        |g: &LGU| g.triples().collect_triples::<LGU>().unwrap(), |d: &mut LGU, g: &LGU| { d.insert_all(g.triples()).unwrap(); });
    // datasets: every other quad in the default graph
    scenario2!(SFD, |g: &mut SFD, k: usize| { let t = terms(k); g.insert(&t[0], &t[1], &t[2], if k % 2 == 0 { None } else { Some(&t[1]) }).unwrap(); }, |g: &SFD| g.quads().map(|q| format!("{:?}", q.unwrap())).count(),
        |g: &SFD| SFD::from_quad_source(g.quads()).unwrap(), |d: &mut SFD, g: &SFD| { d.insert_all(g.quads()).unwrap(); });
    scenario2!(LightDataset, |g: &mut LightDataset, k: usize| { let t = terms(k); g.insert(&t[0], &t[1], &t[2], if k % 2 == 0 { None } else { Some(&t[1]) }).unwrap(); }, |g: &LightDataset| g.quads().map(|q| format!("{:?}", q.unwrap())).count(),
        |g: &LightDataset| g.quads().collect_quads::<LightDataset>().unwrap(), |d: &mut LightDataset, g: &LightDataset| { d.insert_all(g.quads()).unwrap(); });
    // terms whose accessors return OWNED strings (native literals): the owned branch of ensure_owned; clone, grow and drop the original, read the clone
    let mut g = FastGraph::new(); for k in 0..6i32 { g.insert(k, iri("http://example.org/p"), format!("value {k}").as_str()).unwrap(); g.insert(k, iri("http://example.org/p"), k as f64 + 0.5).unwrap(); }
    let c = g.clone(); for k in 6..30i32 { g.insert(k, iri("http://example.org/p"), true).unwrap(); } drop(g); assert_eq!(c.triples().map(|t| format!("{:?}", t.unwrap())).count(), 12);
    // bare indexes: new(), clone_from, take, collect by re-interning the terms of a live index, capacity-limited index that fills up
    let mut ix = SimpleTermIndex::<usize>::new(); for k in 0..4 { for t in terms(k) { ix.ensure_index(&t).unwrap(); } }
    let mut iy = SimpleTermIndex::<usize>::new(); iy.ensure_index(&terms(9)[0]).unwrap(); iy.clone_from(&ix);
    let mut iz = SimpleTermIndex::<u32>::default(); for i in 0..ix.len() { iz.ensure_index(ix.get_term(i)).unwrap(); }
    let moved = std::mem::take(&mut ix); drop(ix); for k in 4..12 { for t in terms(k) { iy.ensure_index(&t).unwrap(); } } drop(iy);
    for i in 0..moved.len() { assert!(Term::eq(moved.get_term(i), iz.get_term(i as u32))); let _ = format!("{:?}", moved.get_term(i)); }
    let mut small = SimpleTermIndex::<SmallIdx<6>>::new(); let mut full = false; for k in 0..4 { for t in terms(k) { if small.ensure_index(&t).is_err() { full = true; } } } assert!(full);
    let sc = small.clone(); drop(small); for i in 0..sc.len() { let _ = format!("{:?}", sc.get_term(SmallIdx(i as u8))); }
    // static-clone: terms cloned (Clone::clone) out of a graph / a dataset / an index and a clone of it are values of type
    // SimpleTerm<'static>: they are read after the stores are gone (a use-after-free while the index table borrowed its text)
    let mut kept: Vec<ST> = vec![];
    { let mut g = FastGraph::new(); for k in 0..6 { let t = terms(k); g.insert(&t[0], &t[1], &t[2]).unwrap(); }
      let c = g.clone(); kept.extend(g.triples().flat_map(|t| { let t = t.unwrap(); [t[0].clone(), t[1].clone(), t[2].clone()] })); drop(g);
      kept.extend(c.triples().map(|t| t.unwrap()[2].clone())); }
    { let mut d = LightDataset::new(); for k in 0..6 { let t = terms(k); d.insert(&t[0], &t[1], &t[2], Some(&t[0])).unwrap(); }
      kept.extend(d.quads().flat_map(|q| { let (g, t) = q.unwrap(); [g.unwrap().clone(), t[2].clone()] })); }
    { let mut ix = SimpleTermIndex::<u16>::new(); for k in 0..6 { for t in terms(k) { ix.ensure_index(&t).unwrap(); } }
      let iy = ix.clone(); kept.extend((0..ix.len()).map(|i| ix.get_term(i as u16).clone())); drop(ix); kept.extend((0..iy.len()).map(|i| iy.get_term(i as u16).clone())); }
    let junk: Vec<String> = (0..64).map(|k| format!("http://example.org/subject/with/a/long/path/{k}")).collect();
    let n: usize = kept.iter().map(|t| format!("{t:?}").len()).sum(); assert!(n > 0); drop(junk);
    let again: Vec<ST> = kept.iter().map(|t| t.clone()).collect(); drop(kept); for t in &again { assert!(Term::eq(t, t.clone())); }
}
/// Safe but ill-behaved user-defined terms (kind() and the accessors disagree, answers change between calls): every entry
/// point of the stores may refuse them or panic (caught here), never run into undefined behaviour; the store and a clone
/// taken before are read completely afterwards.  Kept small: Miri is slow.
#[derive(Clone, Copy, Debug)]
struct Odd<'a> { kind: sophia_api::term::TermKind, some: u8, flip: Option<&'a std::cell::Cell<u32>> }
impl<'a> Odd<'a> {
    /// bit i of `some`: accessor i (iri, bnode_id, lexical_form, datatype, language_tag, variable) answers Some; with `flip`, only at every other call
    fn has(&self, i: u8) -> bool { let on = self.some >> i & 1 == 1; match self.flip { Some(c) => { let n = c.get(); c.set(n + 1); on && n % 2 == 0 } None => on } }
}
impl<'a> Term for Odd<'a> {
    type BorrowTerm<'x> = Odd<'a> where Self: 'x;
    fn borrow_term(&self) -> Odd<'a> { *self }
    fn kind(&self) -> sophia_api::term::TermKind { match self.flip { Some(c) if self.some == 0xff => { let n = c.get(); c.set(n + 1); if n % 2 == 0 { sophia_api::term::TermKind::Iri } else { sophia_api::term::TermKind::Literal } } _ => self.kind } }
    fn iri(&self) -> Option<sophia_api::term::IriRef<sophia_api::MownStr<'_>>> { self.has(0).then(|| sophia_api::term::IriRef::new_unchecked(sophia_api::MownStr::from_ref("http://odd.example/t"))) }
    fn bnode_id(&self) -> Option<sophia_api::term::BnodeId<sophia_api::MownStr<'_>>> { self.has(1).then(|| sophia_api::term::BnodeId::new_unchecked(sophia_api::MownStr::from_ref("odd"))) }
    fn lexical_form(&self) -> Option<sophia_api::MownStr<'_>> { self.has(2).then(|| sophia_api::MownStr::from_ref("odd lexical form")) }
    fn datatype(&self) -> Option<sophia_api::term::IriRef<sophia_api::MownStr<'_>>> { self.has(3).then(|| sophia_api::term::IriRef::new_unchecked(sophia_api::MownStr::from_ref("http://www.w3.org/2001/XMLSchema#string"))) }
    fn language_tag(&self) -> Option<sophia_api::term::LanguageTag<sophia_api::MownStr<'_>>> { self.has(4).then(|| sophia_api::term::LanguageTag::new_unchecked(sophia_api::MownStr::from_ref("en"))) }
    fn variable(&self) -> Option<sophia_api::term::VarName<sophia_api::MownStr<'_>>> { self.has(5).then(|| sophia_api::term::VarName::new_unchecked(sophia_api::MownStr::from_ref("odd"))) }
    fn triple(&self) -> Option<[Odd<'a>; 3]> { None }
    fn to_triple(self) -> Option<[Odd<'a>; 3]> { None }
}
fn ill_behaved_terms() {
    use sophia_api::term::TermKind::*; use sophia_api::term::matcher::Any;
    let cell = std::cell::Cell::new(0u32);
    let odds: Vec<Odd> = vec![
        Odd { kind: Iri, some: 0, flip: None }, Odd { kind: BlankNode, some: 0, flip: None }, Odd { kind: Literal, some: 0, flip: None }, Odd { kind: Triple, some: 0, flip: None }, Odd { kind: Variable, some: 0, flip: None },
        Odd { kind: Literal, some: 0b000100, flip: None }, Odd { kind: Literal, some: 0b001000, flip: None }, Odd { kind: Literal, some: 0b011100, flip: None }, Odd { kind: BlankNode, some: 0b000001, flip: None }, Odd { kind: Iri, some: 0b111111, flip: None },
        Odd { kind: Iri, some: 0b000001, flip: Some(&cell) }, Odd { kind: Iri, some: 0xff, flip: Some(&cell) },
    ];
    let quiet = |f: &mut dyn FnMut()| { let _ = std::panic::catch_unwind(std::panic::AssertUnwindSafe(|| f())); };
    let prev = std::panic::take_hook(); std::panic::set_hook(Box::new(|_| {}));
    let t0 = terms(0); let t1 = terms(1);
    for (n, odd) in odds.iter().enumerate() { for start in 0..2 {
        let mut g = FastGraph::new(); g.insert(&t0[0], &t0[1], &t0[2]).unwrap(); g.insert(&t1[0], &t1[1], &t1[2]).unwrap(); let gc = g.clone();
        let mut d = LightDataset::new(); d.insert(&t0[0], &t0[1], &t0[2], Some(&t0[1])).unwrap(); d.insert(&t1[0], &t1[1], &t1[2], None::<&ST>).unwrap(); let dc = d.clone();
        let mut ix = SimpleTermIndex::<u16>::new(); for t in &t0 { ix.ensure_index(t).unwrap(); } let ic = ix.clone();
        let o = *odd; cell.set(start);
        quiet(&mut || { let _ = g.insert(o, o, o); }); quiet(&mut || { let _ = g.remove(o, o, o); }); quiet(&mut || { let _ = g.contains(o, o, o); });
        quiet(&mut || { let _ = g.triples_matching([o], Any, Any).count(); }); quiet(&mut || { let _ = g.triples_matching(Any, [o], [o]).count(); });
        if n % 3 == 0 { quiet(&mut || { let _ = g.insert_all(std::iter::once(Ok::<_, MyErr>([o, o, o]))); }); quiet(&mut || { let _ = g.remove_matching(Any, Any, [o]); }); }
        quiet(&mut || { let _ = d.insert(o, o, o, Some(o)); }); quiet(&mut || { let _ = d.remove(o, o, o, Some(o)); }); quiet(&mut || { let _ = d.quads_matching(Any, [o], Any, [Some(o)]).count(); });
        quiet(&mut || { let _ = ix.ensure_index(o); }); quiet(&mut || { let _ = ix.get_index(o); });
        // everything is still readable, the clones taken before are untouched
        assert!(g.triples().map(|t| format!("{:?}", t.unwrap())).count() >= 2); assert_eq!(gc.triples().map(|t| format!("{:?}", t.unwrap())).count(), 2);
        assert!(d.quads().map(|q| format!("{:?}", q.unwrap())).count() >= 2); assert_eq!(dc.quads().map(|q| format!("{:?}", q.unwrap())).count(), 2);
        for i in 0..ix.len() { let _ = format!("{:?}", ix.get_term(i as u16)); } assert_eq!(ic.len(), 3);
        drop(g); drop(d); drop(ix); assert_eq!(gc.triples_matching(Any, [&t0[1]], Any).count(), 2); assert_eq!(dc.quads_matching(Any, Any, Any, [None::<&ST>]).count(), 1); let _ = format!("{:?}", ic.get_term(2));
    } }
    std::panic::set_hook(prev);
}
/// A clone taken BEFORE any query was made on the original, then mutations of either side, then queries of every shape
/// on both sides: neither side may answer with (or read) what belongs to the other
fn clone_before_first_query() {
    use sophia_api::term::matcher::Any;
    let t: Vec<[ST; 3]> = (0..4).map(terms).collect();
    for mutate_clone in [false, true] { for clone_first in [false, true] {
        let mut a = FastGraph::new(); a.insert(&t[0][0], &t[0][1], &t[0][2]).unwrap(); a.insert(&t[1][0], &t[1][1], &t[1][2]).unwrap();
        let mut b = a.clone();
        { let m = if mutate_clone { &mut b } else { &mut a }; m.insert(&t[2][0], &t[2][1], &t[2][2]).unwrap(); assert!(m.remove(&t[0][0], &t[0][1], &t[0][2]).unwrap()); }
        let (na, nb) = if mutate_clone { (2, 2) } else { (2, 2) };
        let count = |g: &FastGraph| [g.triples_matching(Any, [&t[0][1]], Any).count(), g.triples_matching(Any, Any, [&t[2][2]]).count(), g.triples_matching([&t[1][0]], Any, [&t[1][2]]).count(), g.triples_matching(Any, [&t[0][1]], [&t[0][2]]).count(), g.triples().count()];
        let (ca, cb) = if clone_first { let cb = count(&b); (count(&a), cb) } else { let ca = count(&a); (ca, count(&b)) };
        let mutated = [2, 1, 1, 0, 2]; let untouched = [2, 0, 1, 1, 2];
        assert_eq!(ca, if mutate_clone { untouched } else { mutated }); assert_eq!(cb, if mutate_clone { mutated } else { untouched }); assert_eq!((na, nb), (2, 2));
        if clone_first { drop(a); assert_eq!(count(&b), cb); } else { drop(b); assert_eq!(count(&a), ca); }
    } }
    let mut d = FastDataset::new(); d.insert(&t[0][0], &t[0][1], &t[0][2], Some(&t[0][1])).unwrap(); d.insert(&t[1][0], &t[1][1], &t[1][2], None::<&ST>).unwrap();
    let e = d.clone(); assert!(d.remove(&t[0][0], &t[0][1], &t[0][2], Some(&t[0][1])).unwrap()); d.insert(&t[2][0], &t[2][1], &t[2][2], None::<&ST>).unwrap();
    assert_eq!(d.quads_matching(Any, [&t[0][1]], Any, Any).count(), 2); assert_eq!(e.quads_matching(Any, [&t[0][1]], Any, Any).count(), 2);
    assert_eq!(e.quads_matching(Any, Any, [&t[0][2]], [Some(&t[0][1])]).count(), 1); assert_eq!(d.quads_matching(Any, Any, [&t[0][2]], [Some(&t[0][1])]).count(), 0);
    drop(d); assert_eq!(e.quads_matching([&t[0][0]], Any, Any, Any).count(), 1);
}
fn main() {
    scenario!(FastGraph, |g: &mut FastGraph, k: usize| { let t = terms(k); g.insert(&t[0], &t[1], &t[2]).unwrap(); }, |g: &FastGraph| g.triples().map(|t| { let t = t.unwrap(); t.s().is_iri() as usize + t.o().lexical_form().map(|l| l.len()).unwrap_or(0) * 0 }).count());
    scenario!(LightGraph, |g: &mut LightGraph, k: usize| { let t = terms(k); g.insert(&t[0], &t[1], &t[2]).unwrap(); }, |g: &LightGraph| g.triples().map(|t| t.unwrap().o().kind()).count());
    scenario!(FastDataset, |g: &mut FastDataset, k: usize| { let t = terms(k); g.insert(&t[0], &t[1], &t[2], Some(&t[1])).unwrap(); }, |g: &FastDataset| g.quads().map(|q| q.unwrap().s().iri().map(|i| i.len())).count());
    scenario!(LightDataset, |g: &mut LightDataset, k: usize| { let t = terms(k); g.insert(&t[0], &t[1], &t[2], Some(&t[1])).unwrap(); }, |g: &LightDataset| g.quads().map(|q| format!("{:?}", q.unwrap().o())).count());
    let mut ix = SimpleTermIndex::<u16>::default(); for k in 0..5 { for t in terms(k) { ix.ensure_index(&t).unwrap(); } }
    let iy = ix.clone(); drop(ix); for i in 0..iy.len() { let _ = format!("{:?}", iy.get_term(i as u16)); }
    widened();
    ill_behaved_terms();
    clone_before_first_query();
    println!("c10_miri: scenarios completed");
}
