(* C20/Properties.v -- pinned statements of property C20. *)
From Sophia.C20 Require Import Model Proofs.

(* ---- i32 / isize / usize ---- *)
Check (print_int_lex : forall z, xsd_integer_lex (print_int z) = true).
Check (print_int_value : forall z, int_value (print_int z) = z).
Check (parse_int_sound : forall signed lo hi s v,
  (lo <= 0 <= hi)%Z -> parse_int signed lo hi s = inr v ->
  xsd_integer_lex s = true /\ v = int_value s /\ (lo <= v <= hi)%Z).
Check (parse_int_complete : forall signed lo hi s,
  (lo <= 0 <= hi)%Z -> xsd_integer_lex s = true -> (lo <= int_value s <= hi)%Z ->
  signed = true \/ hd 0 s <> 45 ->
  parse_int signed lo hi s = inr (int_value s)).
Check (parse_print_int : forall signed lo hi z,
  (lo <= 0 <= hi)%Z -> (lo <= z <= hi)%Z -> ((z < 0)%Z -> signed = true) ->
  parse_int signed lo hi (print_int z) = inr z).
Check (int_term_valid : forall digits_of fixed ty z,
  datatype_native (NInt ty z) = xsd_integer
  /\ xsd_integer_lex (lexical_native digits_of fixed (NInt ty z)) = true
  /\ int_value (lexical_native digits_of fixed (NInt ty z)) = z).
Check (int_roundtrip : forall digits_of fixed ty z,
  in_ity ty z = true ->
  try_int fixed ty (native_term digits_of fixed (NInt ty z)) = inr z).
Check (try_int_sound : forall ty t v,
  try_int true ty t = inr v ->
  exists lex, lexical_form t = Some lex
    /\ in_list (datatype t) (whitelist ty) = true
    /\ xsd_integer_lex lex = true
    /\ v = int_value lex
    /\ in_value_space (datatype t) v = true
    /\ in_ity ty v = true).
Check (try_int_complete : forall ty lex dt,
  in_list dt (whitelist ty) = true -> xsd_integer_lex lex = true ->
  in_value_space dt (int_value lex) = true -> in_ity ty (int_value lex) = true ->
  ity_signed ty = true \/ hd 0 lex <> 45 ->
  try_int true ty (LitDt lex dt) = inr (int_value lex)).
Check (try_int_not_literal : forall fixed ty t,
  lexical_form t = None -> try_int fixed ty t = inl PInvalidDigit).
Check (try_int_not_listed : forall fixed ty t,
  in_list (datatype t) (whitelist ty) = false -> try_int fixed ty t = inl PInvalidDigit).
Check (xsd_integer_lex_spec : forall s,
  xsd_integer_lex s = true <->
  exists sg ds, s = sg ++ ds /\ (sg = [] \/ sg = [43] \/ sg = [45]) /\ ds <> []
                /\ Forall (fun c => 48 <= c <= 57) ds).

(* ---- bool, str ---- *)
Check (bool_term_valid : forall digits_of fixed b,
  datatype_native (NBool b) = xsd_boolean
  /\ xsd_boolean_lex (lexical_native digits_of fixed (NBool b)) = true).
Check (bool_roundtrip : forall digits_of fixed b,
  try_bool (native_term digits_of fixed (NBool b)) = Some b).
Check (try_bool_sound : forall t b,
  try_bool t = Some b ->
  exists lex, lexical_form t = Some lex /\ datatype t = xsd_boolean
    /\ xsd_boolean_lex lex = true /\ lex = print_bool b).
Check (try_bool_refuses : forall t,
  lexical_form t = None \/ datatype t <> xsd_boolean -> try_bool t = None).
Check (str_roundtrip : forall digits_of fixed s,
  lexical_form (native_term digits_of fixed (NStr s)) = Some s
  /\ datatype (native_term digits_of fixed (NStr s)) = xsd_string).
Check (str_term_valid : forall digits_of fixed s,
  xsd_string_lex (lexical_native digits_of fixed (NStr s)) = forallb xml_char s).

(* ---- f64 ---- *)
Check (rust_number_ok_eq : forall s, rust_number_ok s = numeric_ok s).
Check (render_xsd_double : forall neg ds exp,
  all_digits ds = true -> xsd_double_lex (render neg ds exp) = true).
Check (f64_term_valid : forall digits_of : N -> Z -> str * Z,
  (forall m e, all_digits (fst (digits_of m e)) = true) ->
  forall x, datatype_native (NF64 x) = xsd_double
            /\ xsd_double_lex (lexical_native digits_of true (NF64 x)) = true).
Check (f64_roundtrip_class : forall digits_of : N -> Z -> str * Z,
  (forall m e, all_digits (fst (digits_of m e)) = true) ->
  forall x, try_f64 true (native_term digits_of true (NF64 x)) = class_of x).
Check (try_f64_sound : forall t r,
  try_f64 true t = r -> r <> RErr ->
  exists lex, lexical_form t = Some lex
    /\ in_list (datatype t) wl_f64 = true
    /\ float_lex_of (datatype t) lex = true
    /\ (r = RNaN -> lex = s_NaN)
    /\ (r = RInf false -> lex = s_INF \/ lex = s_pINF)
    /\ (r = RInf true -> lex = s_mINF)
    /\ (forall neg, r = RNum neg -> numeric_ok (strip_sign lex) = true /\ neg = (hd 0 lex =? 45))).
Check (try_f64_refuses : forall fixed t,
  lexical_form t = None \/ in_list (datatype t) wl_f64 = false -> try_f64 fixed t = RErr).

(* ---- copies of a native term (any representation, any serialisation that preserves Term::eq) ---- *)
Check (native_rep_eq : forall digits_of fixed v t,
  term_eqb (native_term digits_of fixed v) t = true -> t = native_term digits_of fixed v).
Check (native_is_literal : forall digits_of fixed v,
  kind_of (native_term digits_of fixed v) = KLiteral
  /\ lexical_form (native_term digits_of fixed v) = Some (lexical_native digits_of fixed v)
  /\ datatype (native_term digits_of fixed v) = datatype_native v).
Check (reps_ok_sound : forall digits_of fixed v kinds images,
  reps_ok (native_term digits_of fixed v) kinds images = true ->
  (forall k, In k kinds -> k = 2) /\ (forall t, In t images -> t = native_term digits_of fixed v)).
Check (int_rep_roundtrip : forall digits_of fixed ty z t,
  in_ity ty z = true -> term_eqb (native_term digits_of fixed (NInt ty z)) t = true ->
  try_int fixed ty t = inr z).
Check (bool_rep_roundtrip : forall digits_of fixed b t,
  term_eqb (native_term digits_of fixed (NBool b)) t = true -> try_bool t = Some b).
Check (str_rep_roundtrip : forall digits_of fixed s t,
  term_eqb (native_term digits_of fixed (NStr s)) t = true ->
  lexical_form t = Some s /\ datatype t = xsd_string).
Check (f64_rep_roundtrip_class : forall digits_of : N -> Z -> str * Z,
  (forall m e, all_digits (fst (digits_of m e)) = true) ->
  forall x t, term_eqb (native_term digits_of true (NF64 x)) t = true ->
  try_f64 true t = class_of x).

(* ---- pretty Turtle / TriG: literals written as bare tokens ---- *)
Check (bare_reads_back : forall t, written_bare t = true -> read_bare (lexical t) = Some t).
Check (int_written_bare : forall digits_of fixed ty z,
  written_bare (native_term digits_of fixed (NInt ty z)) = true
  /\ read_bare (print_int z) = Some (native_term digits_of fixed (NInt ty z))).
Check (bool_written_bare : forall digits_of fixed b,
  written_bare (native_term digits_of fixed (NBool b)) = true
  /\ read_bare (print_bool b) = Some (native_term digits_of fixed (NBool b))).
Check (str_never_bare : forall digits_of fixed s,
  written_bare (native_term digits_of fixed (NStr s)) = false).
Check (f64_never_bare : forall digits_of : N -> Z -> str * Z,
  (forall m e, all_digits (fst (digits_of m e)) = true) ->
  forall x, written_bare (native_term digits_of true (NF64 x)) = false).
Check (bare_examples :
  map written_bare [LitDt [49;101;53] xsd_double; LitDt [43;49;46;101;45;51] xsd_double; LitDt [49;46;53] xsd_double;
                    LitDt [49;46;53] xsd_decimal; LitDt [46;53] xsd_decimal; LitDt [53;46] xsd_decimal; LitDt [43;48;48;55] xsd_integer;
                    LitDt [49] xsd_boolean; LitDt s_true xsd_boolean; LitDt [49;101;53] xsd_decimal; LitDt [53] xsd_int;
                    LitLang [53] [101;110]; Iri xsd_integer]
  = [true; true; false; true; true; false; true; false; true; false; false; false; false]).

(* ---- the code before the repair, and what no repair can reach ---- *)
Check (try_int_prefix_refuted :
  try_int false I32 (LitDt [53] xsd_negativeInteger) = inr 5%Z
  /\ in_value_space xsd_negativeInteger 5 = false
  /\ try_int false I32 (LitDt [51;48;48] xsd_unsignedByte) = inr 300%Z
  /\ in_value_space xsd_unsignedByte 300 = false
  /\ try_int true I32 (LitDt [53] xsd_negativeInteger) = inl PInvalidDigit
  /\ try_int true I32 (LitDt [51;48;48] xsd_unsignedByte) = inl PInvalidDigit).
Check (f64_term_prefix_refuted :
  lexical_f64 no_digits false (FInf false) = s_inf
  /\ xsd_double_lex (lexical_f64 no_digits false (FInf false)) = false
  /\ xsd_double_lex (lexical_f64 no_digits false (FInf true)) = false
  /\ lexical_f64 no_digits true (FInf false) = s_INF
  /\ lexical_f64 no_digits true (FInf true) = s_mINF).
Check (try_f64_prefix_refuted :
  try_f64 false (LitDt s_inf xsd_double) = RInf false /\ xsd_double_lex s_inf = false
  /\ try_f64 false (LitDt s_nan xsd_double) = RNaN /\ xsd_double_lex s_nan = false
  /\ try_f64 false (LitDt [49;101;53] xsd_decimal) = RNum false /\ xsd_decimal_lex [49;101;53] = false
  /\ try_f64 true (LitDt s_inf xsd_double) = RErr
  /\ try_f64 true (LitDt s_nan xsd_double) = RErr
  /\ try_f64 true (LitDt [49;101;53] xsd_decimal) = RErr
  /\ try_f64 true (LitDt [49;101;53] xsd_double) = RNum false).
Check (str_term_refuted :
  exists s, xsd_string_lex (lexical_native no_digits true (NStr s)) = false).

(* ---- non-vacuity ---- *)
(* a digit generator satisfying the only hypothesis on it; 1.5 = 0.15e1 *)
Definition some_digits (m : N) (e : Z) : str * Z := ([49; 53], 1%Z).
Example some_digits_ok : forall m e, all_digits (fst (some_digits m e)) = true.
Proof. reflexivity. Qed.
Example f64_example :
  lexical_native some_digits true (NF64 (FFin true 3 (-1))) = [45; 49; 46; 53]
  /\ try_f64 true (native_term some_digits true (NF64 (FFin true 3 (-1)))) = RNum true
  /\ lexical_native some_digits true (NF64 (FZero true)) = [45; 48]
  /\ try_f64 true (native_term some_digits true (NF64 FNaN)) = RNaN.
Proof. vm_compute. repeat split. Qed.
(* the renderer on its three layouts: 0.00123, 12.3, 12300 *)
Example render_example :
  render false [49;50;51] (-2) = [48;46;48;48;49;50;51]
  /\ render false [49;50;51] 2 = [49;50;46;51]
  /\ render true [49;50;51] 5 = [45;49;50;51;48;48].
Proof. vm_compute. repeat split. Qed.
(* extremes of the three integer types satisfy the hypotheses of int_roundtrip *)
Example int_extremes :
  in_ity I32 (-2147483648) = true /\ in_ity I32 2147483647 = true
  /\ in_ity Isize (-9223372036854775808) = true /\ in_ity Usize 18446744073709551615 = true
  /\ in_ity I32 2147483648 = false /\ in_ity Usize (-1) = false
  /\ print_int (-2147483648) = [45;50;49;52;55;52;56;51;54;52;56]
  /\ try_int true Usize (LitDt [45;48] xsd_integer) = inl PInvalidDigit      (* "-0" as usize: refused *)
  /\ try_int true I32 (LitDt [45;48] xsd_unsignedByte) = inr 0%Z              (* "-0"^^xsd:unsignedByte *)
  /\ try_int true I32 (LitDt [43;48;48;55] xsd_short) = inr 7%Z               (* "+007"^^xsd:short *)
  /\ try_int true I32 (LitDt [32;55] xsd_integer) = inl PInvalidDigit         (* " 7" *)
  /\ try_int true I32 (LitDt [50;49;52;55;52;56;51;54;52;56] xsd_long) = inl PPosOverflow.
Proof. vm_compute. repeat split. Qed.
(* the recognisers separate: 1E-5 .5 5. -INF in; "" . e5 1e +-1 inf +NaN 1.2.3 out *)
Example double_lex_examples :
  map xsd_double_lex [[49;69;45;53]; [46;53]; [53;46]; s_mINF; s_pINF; s_NaN; [43;49;46;53;101;43;49;48]]
    = [true; true; true; true; true; true; true]
  /\ map xsd_double_lex [[]; [46]; [101;53]; [49;101]; [43;45;49]; s_inf; [43;78;97;78]; [49;46;50;46;51]; [49;32]]
    = [false; false; false; false; false; false; false; false; false]
  /\ map xsd_decimal_lex [[49]; [45;46;53]; [53;46]; [49;101;53]; s_INF; [46]]
    = [true; true; true; false; false; false].
Proof. vm_compute. repeat split. Qed.

(* copies: the checker accepts the literal and nothing else; a bare token of each kind reads back *)
Example reps_example :
  int_reps_ok 0 (-7) [2; 2] [LitDt [45;55] xsd_integer] = true
  /\ int_reps_ok 0 (-7) [2] [LitDt [45;55] xsd_int] = false
  /\ int_reps_ok 0 (-7) [1] [] = false
  /\ str_reps_ok [104;105] [2] [LitLang [104;105] [101;110]] = false
  /\ f64_reps_ok 2 [2] [LitDt s_mINF xsd_double] = true
  /\ read_bare [45;55] = Some (LitDt [45;55] xsd_integer)
  /\ read_bare [46;53] = Some (LitDt [46;53] xsd_decimal)
  /\ read_bare [49;69;43;50] = Some (LitDt [49;69;43;50] xsd_double)
  /\ read_bare s_false = Some (LitDt s_false xsd_boolean)
  /\ read_bare s_INF = None /\ read_bare [53;46] = None.
Proof. vm_compute. repeat split. Qed.

Print Assumptions print_int_lex.
Print Assumptions print_int_value.
Print Assumptions parse_int_sound.
Print Assumptions parse_int_complete.
Print Assumptions parse_print_int.
Print Assumptions int_term_valid.
Print Assumptions int_roundtrip.
Print Assumptions try_int_sound.
Print Assumptions try_int_complete.
Print Assumptions try_int_not_literal.
Print Assumptions try_int_not_listed.
Print Assumptions xsd_integer_lex_spec.
Print Assumptions bool_term_valid.
Print Assumptions bool_roundtrip.
Print Assumptions try_bool_sound.
Print Assumptions try_bool_refuses.
Print Assumptions str_roundtrip.
Print Assumptions str_term_valid.
Print Assumptions rust_number_ok_eq.
Print Assumptions render_xsd_double.
Print Assumptions f64_term_valid.
Print Assumptions f64_roundtrip_class.
Print Assumptions try_f64_sound.
Print Assumptions try_f64_refuses.
Print Assumptions try_int_prefix_refuted.
Print Assumptions f64_term_prefix_refuted.
Print Assumptions try_f64_prefix_refuted.
Print Assumptions str_term_refuted.
Print Assumptions native_rep_eq.
Print Assumptions native_is_literal.
Print Assumptions reps_ok_sound.
Print Assumptions int_rep_roundtrip.
Print Assumptions bool_rep_roundtrip.
Print Assumptions str_rep_roundtrip.
Print Assumptions f64_rep_roundtrip_class.
Print Assumptions bare_reads_back.
Print Assumptions int_written_bare.
Print Assumptions bool_written_bare.
Print Assumptions str_never_bare.
Print Assumptions f64_never_bare.
Print Assumptions bare_examples.

(* ---- tie to the source: the datatype white-lists of the model are the ones found in
   api/src/term/_native_literal.rs today (re-generated into gen/Consts.v on every run) ---- *)
From Sophia.gen Require Consts.
Definition subset_str (a b : list str) : bool := forallb (fun x => existsb (str_eqb x) b) a.
Definition same_set (a b : list str) : bool := subset_str a b && subset_str b a.
Theorem whitelists_from_source :
  same_set wl_signed Consts.wl_i32 = true /\ same_set wl_signed Consts.wl_isize = true
  /\ same_set wl_usize Consts.wl_usize = true /\ same_set wl_f64 Consts.wl_f64 = true.
Proof. repeat split; vm_compute; reflexivity. Qed.
Print Assumptions whitelists_from_source.
