From RelationAlgebra Require Import lattice monoid kleene kat_tac.
From Coq Require Import NArith.
From Sophia.C09 Require Import Model Rfc3987 Eval.
Section s.
Context `{L: monoid.laws} `{Hl: BKA ≪ l} (n: ob X) (f : N -> X n n).
Lemma iri_ka : eval n f iri_regex_atoms ≡ eval n f (abstract IRI).
Proof. Time vm_compute. Time ka. Time Qed.
End s.
Print Assumptions iri_ka.
