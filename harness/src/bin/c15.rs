//! C15: sources, adapter chains (depth 0..3) and consumers with one injected fault, against the
//! Coq model (C15/Model.v) and a naive oracle (filter_map over the prefix before the fault).
use sophia_api::prelude::*;
use sophia_api::source::{Source, StreamError, TripleSource};
use sophia_api::term::SimpleTerm;
use sophia_inmem::graph::{FastGraph, GenericFastGraph, GenericLightGraph};
use sophia_inmem::index::SimpleTermIndex;
use sophia_turtle::serializer::nt::NtSerializer;
use std::cell::Cell;
use std::rc::Rc;
use verif_harness::*;

#[derive(Clone, Copy, Debug, PartialEq)]
enum AD { FilterEven, FilterLt(u64), FilterNone, FilterAll, MapSucc, MapDouble, MapConst(u64), FilterMapHalf, FilterMapLtSucc(u64) }
#[derive(Clone, Copy)]
enum K { F, M, FM }
fn kind(a: AD) -> K { match a { AD::FilterEven | AD::FilterLt(_) | AD::FilterNone | AD::FilterAll => K::F, AD::MapSucc | AD::MapDouble | AD::MapConst(_) => K::M, _ => K::FM } }
fn filt(a: AD, x: u64) -> bool { match a { AD::FilterEven => x % 2 == 0, AD::FilterLt(k) => x < k, AD::FilterNone => false, AD::FilterAll => true, _ => unreachable!() } }
fn mapf(a: AD, x: u64) -> u64 { match a { AD::MapSucc => x + 1, AD::MapDouble => 2 * x, AD::MapConst(k) => k, _ => unreachable!() } }
fn fmf(a: AD, x: u64) -> Option<u64> { match a { AD::FilterMapHalf => (x % 2 == 0).then_some(x / 2), AD::FilterMapLtSucc(k) => (x < k).then_some(x + 1), _ => unreachable!() } }
fn through(chain: &[AD], x: u64) -> Option<u64> {
    let mut x = x;
    for a in chain { match kind(*a) { K::F => if !filt(*a, x) { return None }, K::M => x = mapf(*a, x), K::FM => x = fmf(*a, x)? } }
    Some(x)
}
fn c_ad(a: &AD) -> String { match a { AD::FilterEven => "DFilterEven".into(), AD::FilterLt(k) => format!("(DFilterLt {k})"), AD::FilterNone => "DFilterNone".into(), AD::FilterAll => "DFilterAll".into(), AD::MapSucc => "DMapSucc".into(), AD::MapDouble => "DMapDouble".into(), AD::MapConst(k) => format!("(DMapConst {k})"), AD::FilterMapHalf => "DFilterMapHalf".into(), AD::FilterMapLtSucc(k) => format!("(DFilterMapLtSucc {k})") } }

struct Counting<I> { it: I, n: Rc<Cell<usize>> }
impl<I: Iterator> Iterator for Counting<I> { type Item = I::Item; fn next(&mut self) -> Option<I::Item> { self.n.set(self.n.get() + 1); self.it.next() } }

/// a user-level Source that hands over several items per step and may fail at the end of a step
/// (the shape of the Rio parser adapters: one parse_step = one statement = 0..n triples)
struct BatchSource { steps: std::collections::VecDeque<(Vec<u64>, Option<u64>)>, n: Rc<Cell<usize>> }
impl Source for BatchSource {
    type Item<'x> = u64;
    type Error = MyErr;
    fn try_for_some_item<E, F>(&mut self, mut f: F) -> Result<bool, StreamError<MyErr, E>>
    where E: std::error::Error + Send + Sync + 'static, F: FnMut(u64) -> Result<(), E> {
        let Some((items, oe)) = self.steps.pop_front() else { return Ok(false) };
        self.n.set(self.n.get() + 1);
        for x in items { f(x).map_err(StreamError::SinkError)?; }
        match oe { Some(e) => Err(StreamError::SourceError(MyErr(e))), None => Ok(true) }
    }
}

#[derive(Clone, Debug, PartialEq)]
enum Outc { Done, Source(u64), Sink(u64) }
#[derive(Clone, Debug, PartialEq)]
struct Obs { trace: Vec<u64>, out: Outc, pulled: usize, drained: Vec<Result<u64, u64>> }
fn c_outc(o: &Outc) -> String { match o { Outc::Done => "KDone".into(), Outc::Source(e) => format!("(KSource {e})"), Outc::Sink(e) => format!("(KSink {e})") } }

#[derive(Clone, Copy, Debug)]
enum Mode { TryEach, Stepwise, ForEach, IterMap, IterFilterMap }
struct Cons { mode: Mode, fault: Option<(usize, u64)>, counter: Rc<Cell<usize>> }
impl Cons {
    fn run<S>(self, mut s: S) -> Obs where S: Source<Error = MyErr>, for<'x> S: Source<Item<'x> = u64> {
        let mut trace: Vec<u64> = vec![];
        let fault = self.fault;
        let res: Result<(), StreamError<MyErr, MyErr>> = match self.mode {
            Mode::TryEach => s.try_for_each_item(|x| { trace.push(x); match fault { Some((j, e)) if trace.len() == j + 1 => Err(MyErr(e)), _ => Ok(()) } }),
            Mode::Stepwise => loop {
                match s.try_for_some_item(|x| { trace.push(x); match fault { Some((j, e)) if trace.len() == j + 1 => Err(MyErr(e)), _ => Ok(()) } }) {
                    Ok(true) => continue, Ok(false) => break Ok(()), Err(e) => break Err(e),
                }
            },
            Mode::ForEach => s.for_each_item(|x| trace.push(x)).map_err(StreamError::SourceError),
            Mode::IterMap => { let drained: Vec<Result<u64, u64>> = s.map_items(|x: u64| x).into_iter().map(|r| r.map_err(|e| e.0)).collect(); return Obs { trace, out: Outc::Done, pulled: self.counter.get(), drained } }
            Mode::IterFilterMap => { let drained: Vec<Result<u64, u64>> = s.filter_map_items(|x: u64| Some(x)).into_iter().map(|r| r.map_err(|e| e.0)).collect(); return Obs { trace, out: Outc::Done, pulled: self.counter.get(), drained } }
        };
        let out = match res { Ok(()) => Outc::Done, Err(StreamError::SourceError(e)) => Outc::Source(e.0), Err(StreamError::SinkError(e)) => Outc::Sink(e.0) };
        // Done is only observed after the source returned None once more; normalise pulled to elements, not next() calls
        Obs { trace, out, pulled: self.counter.get(), drained: vec![] }
    }
}
fn lvl0<S>(s: S, chain: &[AD], c: Cons) -> Obs where S: Source<Error = MyErr>, for<'x> S: Source<Item<'x> = u64> { assert!(chain.is_empty()); c.run(s) }
macro_rules! level { ($name:ident, $next:ident) => {
    fn $name<S>(s: S, chain: &[AD], c: Cons) -> Obs where S: Source<Error = MyErr>, for<'x> S: Source<Item<'x> = u64> {
        match chain.split_first() {
            None => c.run(s),
            Some((a, rest)) => { let a = *a; match kind(a) {
                K::F => $next(s.filter_items(move |x: &u64| filt(a, *x)), rest, c),
                K::M => $next(s.map_items(move |x: u64| mapf(a, x)), rest, c),
                K::FM => $next(s.filter_map_items(move |x: u64| fmf(a, x)), rest, c),
            } }
        }
    }
}; }
level!(lvl1, lvl0); level!(lvl2, lvl1); level!(lvl3, lvl2);

type Steps = Vec<(Vec<u64>, Option<u64>)>;
fn of_results(src: &[Result<u64, u64>]) -> Steps { src.iter().map(|r| match r { Ok(x) => (vec![*x], None), Err(e) => (vec![], Some(*e)) }).collect() }
fn oracle(src: &Steps, chain: &[AD], fault: Option<(usize, u64)>) -> Obs {
    let mut trace = vec![];
    for (i, (items, oe)) in src.iter().enumerate() {
        for x in items { if let Some(y) = through(chain, *x) { trace.push(y); if let Some((j, e)) = fault { if trace.len() == j + 1 { return Obs { trace, out: Outc::Sink(e), pulled: i + 1, drained: vec![] } } } } }
        if let Some(e) = oe { return Obs { trace, out: Outc::Source(*e), pulled: i + 1, drained: vec![] } }
    }
    Obs { trace, out: Outc::Done, pulled: src.len(), drained: vec![] }
}
fn oracle_drain(src: &Steps, chain: &[AD]) -> Vec<Result<u64, u64>> {
    let mut out = vec![];
    for (items, oe) in src { for x in items { if let Some(y) = through(chain, *x) { out.push(Ok(y)) } } if let Some(e) = oe { out.push(Err(*e)) } }
    out
}
fn c_steps(src: &Steps) -> String { coq_list(src.iter().map(|(items, oe)| format!("({}, {})", coq_list(items.iter().map(|x| x.to_string())), match oe { Some(e) => format!("Some {e}"), None => "None".into() }))) }

// ---------- triple flavour ----------
fn tr(n: u64) -> [ST; 3] { [iri("http://e/s"), iri("http://e/p"), lit_dt(&n.to_string(), &format!("{XSD}integer"))] }
fn num(t: &[ST; 3]) -> u64 { t[2].lexical_form().unwrap().parse().unwrap() }
fn tr_through<T: Triple>(t: T) -> u64 { t.o().lexical_form().unwrap().parse().unwrap() }

/// a writer that accepts `budget` bytes and then reports an error; it records every call made AFTER the first error
/// (a consumer that has been told about a sink error must not touch the sink again)
struct FailingWriter { budget: usize, written: Vec<u8>, failed: bool, calls_after_failure: usize }
impl std::io::Write for FailingWriter {
    fn write(&mut self, b: &[u8]) -> std::io::Result<usize> {
        if self.failed { self.calls_after_failure += 1; }
        if self.failed || self.written.len() + b.len() > self.budget { self.failed = true; return Err(std::io::Error::new(std::io::ErrorKind::Other, "disk full")); }
        self.written.extend_from_slice(b); Ok(b.len())
    }
    fn flush(&mut self) -> std::io::Result<()> { if self.failed { self.calls_after_failure += 1; } Ok(()) }
}
/// a store that can fail while it is enumerated, and that relies on the DEFAULT methods of the Graph trait
/// (triples_matching, contains ...): its records are results
struct FallibleGraph(Vec<Result<[ST; 3], MyErr>>);
impl Graph for FallibleGraph {
    type Triple<'x> = [ST; 3];
    type Error = MyErr;
    fn triples(&self) -> impl Iterator<Item = Result<Self::Triple<'_>, Self::Error>> + '_ { self.0.iter().cloned() }
}

fn main() {
    let a = parse_args();
    let mut sum = Summary::default();
    sum.rule = "case = (source items with at most one injected Err, adapter chain of depth 0..3 over {filter,map,filter_map}, consumer {try_for_each, step-wise try_for_some, for_each}, optional sink fault position); \
plus triple-level cases: sources {iterator, N-Triples parser with a syntax error at statement k, store}, sinks {insert_all into a capacity-limited store, remove_all, collect, N-Triples serializer on a failing writer}; \
non-trivial = a fault is actually hit after at least one item was consumed, or a filter dropped something; distinct = distinct printed case".into();
    let base = Rng::new(a.seed);
    let mut cases: Vec<(usize, String)> = vec![];
    let mut seen = std::collections::HashSet::new();
    let all_ads = [AD::FilterEven, AD::FilterLt(5), AD::FilterNone, AD::FilterAll, AD::MapSucc, AD::MapDouble, AD::MapConst(4), AD::FilterMapHalf, AD::FilterMapLtSucc(6)];
    let range: Vec<usize> = match a.only { Some(i) => vec![i], None => (0..a.n).collect() };
    for idx in range {
        let mut r = base.fork(idx as u64);
        let flavour = idx % 4; // 0,1,2: generic pipeline; 3: triple-level
        if flavour != 3 {
            let batch = r.chance(1, 2);
            let len = r.below(8);
            let steps: Steps = if batch {
                (0..r.below(6)).map(|_| ((0..r.below(4)).map(|_| r.below(10) as u64).collect(), if r.chance(1, 5) { Some(100 + r.below(50) as u64) } else { None })).collect()
            } else {
                let mut src: Vec<Result<u64, u64>> = (0..len).map(|_| Ok(r.below(10) as u64)).collect();
                if r.chance(1, 2) { let k = r.below(len + 1); src.insert(k, Err(100 + r.below(50) as u64)); }
                of_results(&src)
            };
            let depth = r.below(4);
            let chain: Vec<AD> = (0..depth).map(|_| *r.pick(&all_ads)).collect();
            let mode = *r.pick(&[Mode::TryEach, Mode::Stepwise, Mode::ForEach, Mode::IterMap, Mode::IterFilterMap]);
            let fault = if !matches!(mode, Mode::TryEach | Mode::Stepwise) || r.chance(1, 3) { None } else { Some((r.below(5), 200 + r.below(50) as u64)) };
            let counter = Rc::new(Cell::new(0));
            let cons = Cons { mode, fault, counter: counter.clone() };
            let obs0 = if batch { lvl3(BatchSource { steps: steps.clone().into(), n: counter.clone() }, &chain, cons) } else {
                let flat: Vec<Result<u64, MyErr>> = steps.iter().map(|(i, e)| match e { Some(e) => Err(MyErr(*e)), None => Ok(i[0]) }).collect();
                lvl3(Counting { it: flat.into_iter(), n: counter.clone() }, &chain, cons) };
            let text = format!("source={} steps={steps:?} chain={chain:?} mode={mode:?} sink_fault={fault:?}", if batch { "batching" } else { "iterator" });
            if matches!(mode, Mode::IterMap | Mode::IterFilterMap) {
                let exp = oracle_drain(&steps, &chain);
                if a.only.is_some() { println!("CASE {idx}: {text}\nIMPL   {:?}\nORACLE {exp:?}", obs0.drained); }
                if obs0.drained != exp { sum.oracle_failures.push((idx.to_string(), format!("into_iter {text}: implementation yields {:?}, expected {exp:?}", obs0.drained))); }
                let nontrivial = exp.iter().any(|x| x.is_err()) && exp.iter().any(|x| x.is_ok());
                if seen.insert(text.clone()) && nontrivial { sum.distinct_nontrivial += 1; }
                sum.bump(&format!("mode:{mode:?}")); sum.bump(if batch { "source:batching" } else { "source:iterator" });
                let mut mchain: Vec<String> = chain.iter().map(c_ad).collect(); mchain.push("DFilterAll".into());
                cases.push((idx, format!("drain_ok {} {} {}", c_steps(&steps), coq_list(mchain), coq_list(obs0.drained.iter().map(|x| match x { Ok(v) => format!("inl {v}"), Err(e) => format!("inr {e}") })))));
                sum.evaluations += 1;
                continue;
            }
            let exp = oracle(&steps, &chain, fault);
            // an iterator is asked once more than it has elements when the stream ends normally
            let obs = Obs { pulled: if !batch && obs0.out == Outc::Done { obs0.pulled - 1 } else { obs0.pulled }, ..obs0 };
            if a.only.is_some() { println!("CASE {idx}: {text}\nIMPL   {obs:?}\nORACLE {exp:?}"); }
            if obs != exp { sum.oracle_failures.push((idx.to_string(), format!("pipeline {text}: implementation {obs:?}, expected {exp:?}"))); }
            let n_ok: usize = steps.iter().map(|s| s.0.len()).sum();
            let nontrivial = (exp.out != Outc::Done && !exp.trace.is_empty()) || exp.trace.len() < n_ok;
            if seen.insert(text.clone()) && nontrivial { sum.distinct_nontrivial += 1; }
            sum.bump(&format!("depth:{depth}")); sum.bump(&format!("mode:{mode:?}")); sum.bump(if batch { "source:batching" } else { "source:iterator" });
            sum.bump(&format!("outcome:{}", match exp.out { Outc::Done => "done", Outc::Source(_) => "source-error", Outc::Sink(_) => "sink-error" }));
            if sum.samples.len() < 3 && nontrivial { sum.samples.push(format!("case {idx}: {text} => {obs:?}")); }
            let c_fault = match fault { None => "None".to_string(), Some((j, e)) => format!("(Some ({j}%nat, {e}))") };
            cases.push((idx, format!("run_rec_ok {} {} {c_fault} {} {} {}", c_steps(&steps), coq_list(chain.iter().map(c_ad)), coq_list(obs.trace.iter().map(|x| x.to_string())), c_outc(&obs.out), obs.pulled)));
        } else {
            // triple-level: items are triples (s, p, "n"^^xsd:integer)
            let len = r.below(7);
            let items: Vec<u64> = (0..len).map(|_| r.below(9) as u64).collect();
            let k_fault = if r.chance(1, 2) { Some(r.below(len + 1)) } else { None };
            let chain: Vec<AD> = match r.below(4) { 0 => vec![], 1 => vec![AD::FilterEven], 2 => vec![AD::MapSucc], _ => vec![AD::FilterLt(5), AD::MapDouble] };
            let source_kind = r.below(5); // 4 = a fallible store enumerated through the DEFAULT Graph::triples_matching; 0 iterator, 1 N-Triples parser, 2 store (no source fault possible), 3 Turtle parser with ONE statement holding all items (object list: one parser step yields several triples)
            let sink_kind = r.below(6); // 0 insert_all capped, 1 remove_all, 2 collect into capped store, 3 serializer with failing writer, 4 closure failing on its j-th item, 5 remove_all on a DATASET (quads in the default graph)
            let init: Vec<u64> = (0..r.below(4)).map(|_| r.below(9) as u64).collect();
            let k_fault = if source_kind == 2 { None } else { k_fault };
            let src_model: Vec<Result<u64, u64>> = { let mut v: Vec<Result<u64, u64>> = items.iter().map(|x| Ok(*x)).collect(); if let Some(k) = k_fault { v.insert(k, Err(7)); if source_kind == 1 || source_kind == 3 { v.truncate(k + 1) } } v };
            // store sources enumerate a set: dedupe + we canonicalise by sorting the model source too
            let store_items: Vec<u64> = { let mut v = items.clone(); v.sort(); v.dedup(); v };
            let src_model = if source_kind == 2 { store_items.iter().map(|x| Ok(*x)).collect() } else { src_model };
            macro_rules! with_source { ($s:ident => $body:expr) => { match source_kind {
                0 => { let v: Vec<Result<[ST; 3], MyErr>> = src_model.iter().map(|x| x.map(tr).map_err(MyErr)).collect(); let $s = v.into_iter(); $body }
                1 => { let mut text = String::new(); for x in &src_model { match x { Ok(n) => text.push_str(&format!("<http://e/s> <http://e/p> \"{n}\"^^<{XSD}integer> .\n")), Err(_) => text.push_str("<http://e/s> <http://e/p> oops .\n") } }
                       let $s = sophia_turtle::parser::nt::parse_str(&text).map_triples(|t| [t.s().into_term::<ST>(), t.p().into_term(), t.o().into_term()]).map_items(|x| x).into_iter().map(|r| r.map_err(|_| MyErr(7))); $body }
                4 => { let fg = FallibleGraph(src_model.iter().map(|x| x.map(tr).map_err(MyErr)).collect());
                       let v: Vec<Result<[ST; 3], MyErr>> = if r.chance(1, 2) { fg.triples_matching(Any, Any, Any).collect() } else { fg.triples_matching(Any, [iri("http://e/p")], |t: SimpleTerm| t.is_literal()).collect() };
                       let $s = v.into_iter(); $body }
                3 => { let oks: Vec<u64> = src_model.iter().filter_map(|x| x.ok()).collect(); let mut text = String::from("@prefix e: <http://e/> .\n");
                       if !oks.is_empty() { text.push_str(&format!("e:s e:p {} .\n", oks.iter().map(|n| format!("\"{n}\"^^<{XSD}integer>")).collect::<Vec<_>>().join(" , "))); }
                       if src_model.iter().any(|x| x.is_err()) { text.push_str("e:s e:p oops oops .\n"); }
                       let $s = sophia_turtle::parser::turtle::parse_str(&text).map_triples(|t| [t.s().into_term::<ST>(), t.p().into_term(), t.o().into_term()]).map_items(|x| x).into_iter().map(|r| r.map_err(|_| MyErr(7))); $body }
                _ => { let mut g = FastGraph::new(); for n in &store_items { g.insert_triple(tr(*n)).unwrap(); }
                       let mut v: Vec<[ST; 3]> = g.triples().map(|t| { let t = t.unwrap(); [t.s().into_term(), t.p().into_term(), t.o().into_term()] }).collect(); v.sort_by_key(num);
                       let $s = v.into_iter().map(Ok::<_, MyErr>); $body }
            } }; }
            macro_rules! chained { ($s:expr) => {{ let c = chain.clone(); let c2 = chain.clone();
                $s.filter_triples(move |t: &[ST; 3]| through(&c, num(t)).is_some()).map_triples(move |t: [ST; 3]| tr(through(&c2, num(&t)).unwrap())) }}; }
            let cap: u8 = 2 + 3; // s, p + 3 distinct objects
            type Capped = GenericFastGraph<SimpleTermIndex<SmallIdx<5>>>;
            type CappedLight = GenericLightGraph<SimpleTermIndex<SmallIdx<5>>>;
            let text = format!("triple-level source={} sink={} items={items:?} source_fault_at={k_fault:?} chain={chain:?} init={init:?}", ["iterator", "nt-parser", "store", "turtle-parser(object list)", "fallible store through the default triples_matching"][source_kind], ["insert_all(capped)", "remove_all", "collect(capped)", "nt-serializer(failing writer)", "closure failing at item j", "dataset remove_all"][sink_kind]);
            let (content, count, out): (Vec<u64>, u64, Outc) = match sink_kind {
                0 | 2 => {
                    let mut g = Capped::new();
                    let init_eff: Vec<u64> = if sink_kind == 0 { init.iter().take(2).cloned().collect() } else { vec![] };
                    for n in &init_eff { g.insert_triple(tr(*n)).unwrap(); }
                    let before = g.triples().count();
                    let res = if sink_kind == 0 { with_source!(s => g.insert_all(chained!(s))) } else {
                        let r2: Result<CappedLight, _> = with_source!(s => chained!(s).collect_triples());
                        match r2 { Ok(g2) => { let n = g2.triples().count(); for t in g2.triples() { g.insert_triple(t.unwrap()).unwrap(); } Ok(n) } Err(e) => Err(match e { StreamError::SourceError(e) => StreamError::SourceError(e), StreamError::SinkError(e) => StreamError::SinkError(e) }) }
                    };
                    let content: Vec<u64> = g.triples().map(|t| tr_through(t.unwrap())).collect();
                    match res { Ok(n) => (content, n as u64, Outc::Done), Err(StreamError::SourceError(e)) => (content.clone(), (content.len() - before) as u64, Outc::Source(e.0)), Err(StreamError::SinkError(_)) => (content.clone(), (content.len() - before) as u64, Outc::Sink(999)) }
                }
                1 => {
                    let mut g = FastGraph::new();
                    for n in &init { g.insert_triple(tr(*n)).unwrap(); }
                    let before = g.triples().count();
                    let res = with_source!(s => g.remove_all(chained!(s)));
                    let content: Vec<u64> = g.triples().map(|t| tr_through(t.unwrap())).collect();
                    match res { Ok(n) => (content, n as u64, Outc::Done), Err(StreamError::SourceError(e)) => (content.clone(), (before - content.len()) as u64, Outc::Source(e.0)), Err(StreamError::SinkError(_)) => (content, 0, Outc::Sink(998)) }
                }
                4 => {
                    // a consumer closure that fails on its j-th item: it must see exactly the items up to and including that one
                    let j = r.below(5);
                    let produced: Vec<u64> = src_model.iter().take_while(|x| x.is_ok()).filter_map(|x| through(&chain, x.unwrap())).collect();
                    let step_wise = r.chance(1, 2);
                    let mut seen_items: Vec<u64> = vec![];
                    // parser sources: the consumer is driven by the parser adapter ITSELF (rio/src/parser.rs), without any
                    // intermediate iterator, so that a consumer failing in the middle of a parser step is exercised
                    let direct_parser = (source_kind == 1 || source_kind == 3) && r.chance(2, 3);
                    let produced: Vec<u64> = if direct_parser { src_model.iter().take_while(|x| x.is_ok()).map(|x| x.unwrap()).collect() } else { produced };
                    let res: Result<(), StreamError<MyErr, MyErr>> = if direct_parser {
                        let oks: Vec<u64> = src_model.iter().filter_map(|x| x.ok()).collect(); let bad = src_model.iter().any(|x| x.is_err());
                        let mut f = |n: u64| -> Result<(), MyErr> { seen_items.push(n); if seen_items.len() - 1 == j { Err(MyErr(5)) } else { Ok(()) } };
                        macro_rules! drive { ($p:expr) => {{ let mut src = $p; let r0 = if step_wise { loop { match src.try_for_some_triple(|t| f(tr_through(t))) { Ok(true) => {} Ok(false) => break Ok(()), Err(e) => break Err(e) } } } else { src.try_for_each_triple(|t| f(tr_through(t))) };
                            r0.map_err(|e| match e { StreamError::SourceError(_) => StreamError::SourceError(MyErr(7)), StreamError::SinkError(e) => StreamError::SinkError(e) }) }}; }
                        if source_kind == 1 {
                            let mut text = String::new(); for n in &oks { text.push_str(&format!("<http://e/s> <http://e/p> \"{n}\"^^<{XSD}integer> .\n")); } if bad { text.push_str("<http://e/s> <http://e/p> oops .\n"); }
                            drive!(sophia_turtle::parser::nt::parse_str(&text))
                        } else {
                            let mut text = String::from("@prefix e: <http://e/> .\n");
                            if !oks.is_empty() { text.push_str(&format!("e:s e:p {} .\n", oks.iter().map(|n| format!("\"{n}\"^^<{XSD}integer>")).collect::<Vec<_>>().join(" , "))); }
                            if bad { text.push_str("e:s e:p oops oops .\n"); }
                            drive!(sophia_turtle::parser::turtle::parse_str(&text))
                        }
                    } else { with_source!(s => {
                        let mut src = chained!(s);
                        let mut f = |t: [ST; 3]| -> Result<(), MyErr> { seen_items.push(num(&t)); if seen_items.len() - 1 == j { Err(MyErr(5)) } else { Ok(()) } };
                        if step_wise { loop { match src.try_for_some_triple(&mut f) { Ok(true) => {} Ok(false) => break Ok(()), Err(e) => break Err(e) } } } else { src.try_for_each_triple(&mut f) }
                    }) };
                    let out = match res { Ok(()) => Outc::Done, Err(StreamError::SourceError(e)) => Outc::Source(e.0), Err(StreamError::SinkError(e)) => Outc::Sink(e.0) };
                    let exp_seen: Vec<u64> = produced.iter().take(j + 1).cloned().collect();
                    let exp_out = if produced.len() > j { Outc::Sink(5) } else if let Some(Err(e)) = src_model.iter().find(|x| x.is_err()) { Outc::Source(*e) } else { Outc::Done };
                    if seen_items != exp_seen || out != exp_out { sum.oracle_failures.push((idx.to_string(), format!("{text}{} closure fails at its item #{j} ({}): the closure saw {seen_items:?}, outcome {out:?}; expected {exp_seen:?} {exp_out:?}", if direct_parser { " [consumer driven by the parser adapter directly, no adapter chain]" } else { "" }, if step_wise { "driven step-wise" } else { "whole stream" }))); }
                    sum.bump("sink:closure"); sum.bump(&format!("source:{}", ["iterator", "nt-parser", "store", "turtle-object-list", "fallible-store-default-matching"][source_kind])); sum.evaluations += 1;
                    if seen.insert(format!("{text} j={j}")) && exp_out != Outc::Done && !exp_seen.is_empty() { sum.distinct_nontrivial += 1; }
                    continue;
                }
                5 => {
                    // MutableDataset::remove_all (a default method of the trait) over quads in the default graph, on three dataset types
                    use sophia_api::source::QuadSource as _;
                    let which = r.below(3);
                    fn go<D: MutableDataset + Dataset + Default>(init: &[u64], src: impl TripleSource<Error = MyErr>) -> (Vec<u64>, Result<usize, StreamError<MyErr, MyErr>>) where D::MutationError: std::fmt::Debug {
                        let mut d = D::default(); for n in init { d.insert_quad((tr(*n), None::<ST>)).ok().unwrap(); }
                        let res = d.remove_all(src.to_quads()).map_err(|e| match e { StreamError::SourceError(e) => StreamError::SourceError(e), StreamError::SinkError(_) => StreamError::SinkError(MyErr(996)) });
                        let content: Vec<u64> = d.quads().map(|q| { let q = q.ok().unwrap(); q.o().lexical_form().unwrap().parse().unwrap() }).collect();
                        (content, res)
                    }
                    let (content, res) = match which {
                        0 => with_source!(s => go::<sophia_inmem::dataset::FastDataset>(&init, chained!(s))),
                        1 => with_source!(s => go::<Vec<sophia_api::quad::Spog<ST>>>(&init, chained!(s))),
                        _ => with_source!(s => go::<std::collections::BTreeSet<sophia_api::quad::Spog<ST>>>(&init, chained!(s))),
                    };
                    let mut set: Vec<u64> = vec![]; for n in &init { if !set.contains(n) { set.push(*n) } }
                    let mut cnt = 0usize; let mut exp_out = Outc::Done;
                    for x in &src_model { match x { Err(e) => { exp_out = Outc::Source(*e); break } Ok(v) => if let Some(y) = through(&chain, *v) { if set.contains(&y) { set.retain(|z| *z != y); cnt += 1 } } } }
                    let out = match &res { Ok(_) => Outc::Done, Err(StreamError::SourceError(e)) => Outc::Source(e.0), Err(StreamError::SinkError(_)) => Outc::Sink(996) };
                    // Vec is not a SetDataset: it keeps duplicates and its removal count is documented as not significant
                    let mut c_sorted = content.clone(); c_sorted.sort(); if which == 1 { c_sorted.dedup(); } set.sort();
                    let count_ok = match &res { Ok(n) => which == 1 || *n == cnt, Err(_) => true };
                    if c_sorted != set || out != exp_out || !count_ok { sum.oracle_failures.push((idx.to_string(), format!("{text} (dataset type #{which}): implementation content={c_sorted:?} result={res:?}; expected content={set:?} count={cnt} outcome={exp_out:?}"))); }
                    sum.bump("sink:dataset-remove_all"); sum.bump(&format!("source:{}", ["iterator", "nt-parser", "store", "turtle-object-list", "fallible-store-default-matching"][source_kind])); sum.evaluations += 1;
                    if seen.insert(format!("{text} d={which}")) && (exp_out != Outc::Done || cnt > 0) { sum.distinct_nontrivial += 1; }
                    continue;
                }
                _ => {
                    // each statement is exactly one line; a writer that accepts `budget` whole lines then fails
                    let line_len = |n: u64| format!("<http://e/s> <http://e/p> \"{n}\"^^<{XSD}integer>.\n").len();
                    let j = r.below(4);
                    let produced: Vec<u64> = src_model.iter().take_while(|x| x.is_ok()).filter_map(|x| through(&chain, x.unwrap())).collect();
                    let budget: usize = produced.iter().take(j).map(|n| line_len(*n)).sum::<usize>() + 3;
                    let mut fw = FailingWriter { budget, written: vec![], failed: false, calls_after_failure: 0 };
                    let res = { let mut ser = NtSerializer::new(&mut fw); with_source!(s => ser.serialize_triples(chained!(s)).map(|_| ())) };
                    if fw.calls_after_failure > 0 { sum.oracle_failures.push((idx.to_string(), format!("{text} writer budget {j} lines: the serializer called the writer {} more time(s) after the writer had reported an error", fw.calls_after_failure))); }
                    let text_out = String::from_utf8(fw.written).unwrap();
                    let lines: Vec<u64> = text_out.split_inclusive('\n').filter(|l| l.ends_with(">.\n")).map(|l| l.split('"').nth(1).unwrap().parse().unwrap()).collect();
                    let out = match res { Ok(()) => Outc::Done, Err(StreamError::SourceError(e)) => Outc::Source(e.0), Err(StreamError::SinkError(_)) => Outc::Sink(997) };
                    // oracle for this sink: complete lines written = first min(j, produced) items, error iff produced.len() > j
                    let exp_out = if produced.len() > j { Outc::Sink(997) } else if let Some(Err(e)) = src_model.iter().find(|x| x.is_err()) { Outc::Source(*e) } else { Outc::Done };
                    let exp_lines: Vec<u64> = produced.iter().take(j).cloned().collect();
                    if lines != exp_lines || out != exp_out { sum.oracle_failures.push((idx.to_string(), format!("{text} writer budget {j} lines: wrote complete lines {lines:?} outcome {out:?}, expected {exp_lines:?} {exp_out:?}"))); }
                    sum.bump("sink:serializer"); sum.evaluations += 1;
                    if seen.insert(text.clone()) && !lines.is_empty() && out != Outc::Done { sum.distinct_nontrivial += 1; }
                    let _ = cap;
                    continue;
                }
            };
            // oracle (naive) for store sinks
            let init_eff: Vec<u64> = match sink_kind { 0 => init.iter().take(2).cloned().collect(), 1 => init.clone(), _ => vec![] };
            let mut set: Vec<u64> = vec![]; for n in &init_eff { if !set.contains(n) { set.push(*n) } }
            let mut cnt = 0u64; let mut exp_out = Outc::Done;
            let mut interned: Vec<u64> = set.clone();
            for x in &src_model { match x {
                Err(e) => { exp_out = Outc::Source(*e); break }
                Ok(v) => if let Some(y) = through(&chain, *v) {
                    if sink_kind == 1 { if set.contains(&y) { set.retain(|z| *z != y); cnt += 1 } }
                    else if !set.contains(&y) { if !interned.contains(&y) && interned.len() >= 3 - if sink_kind == 2 { 0 } else { 0 } { exp_out = Outc::Sink(999); break } if !interned.contains(&y) { interned.push(y) } set.push(y); cnt += 1 }
                }
            } }
            // a failed collect returns only the error: no content is observable
            let collect_failed = sink_kind == 2 && exp_out != Outc::Done;
            if collect_failed { set.clear(); cnt = 0; }
            let mut c_sorted = content.clone(); c_sorted.sort(); let mut s_sorted = set.clone(); s_sorted.sort();
            if a.only.is_some() { println!("CASE {idx}: {text}\nIMPL content={c_sorted:?} count={count} out={out:?}\nORACLE content={s_sorted:?} count={cnt} out={exp_out:?}"); }
            if c_sorted != s_sorted || count != cnt || out != exp_out { sum.oracle_failures.push((idx.to_string(), format!("{text}: implementation content={c_sorted:?} count={count} outcome={out:?}; expected content={s_sorted:?} count={cnt} outcome={exp_out:?}"))); }
            if seen.insert(text.clone()) && (exp_out != Outc::Done || cnt > 0) { sum.distinct_nontrivial += 1; }
            sum.bump(&format!("source:{}", ["iterator", "nt-parser", "store", "turtle-object-list", "fallible-store-default-matching"][source_kind])); sum.bump(&format!("sink:{}", ["insert_all", "remove_all", "collect", "serializer", "closure", "dataset-remove_all"][sink_kind]));
            if sum.samples.len() < 5 && exp_out != Outc::Done { sum.samples.push(format!("case {idx}: {text} => content={c_sorted:?} count={count} {out:?}")); }
            let c_src = format!("(of_results {})", coq_list(src_model.iter().map(|x| match x { Ok(v) => format!("inl {v}"), Err(e) => format!("inr {e}") })));
            let c_chain = coq_list(chain.iter().map(c_ad));
            let c_init = coq_list(init_eff.iter().map(|x| x.to_string()));
            let c_content = coq_list(content.iter().map(|x| x.to_string()));
            if collect_failed { sum.evaluations += 1; continue; }
            match sink_kind {
                1 => cases.push((idx, format!("run_remove_ok {c_init} {c_src} {c_chain} {c_content} {count} {}", c_outc(&out)))),
                _ => cases.push((idx, format!("run_insert_ok {c_init} {c_src} {c_chain} (Some 3%nat) {c_content} {count} {}", c_outc(&out)))),
            }
        }
        sum.evaluations += 1;
    }
    if a.only.is_none() {
        sum.shards = write_shards(&a.out, "From Sophia.C15 Require Import Model.", &cases, a.shards);
        sum.extra.push(("coq_cases".into(), cases.len().to_string()));
        std::fs::write(format!("{}/summary.json", a.out), sum.to_json()).unwrap();
    }
    println!("c15: {} cases, {} distinct non-trivial, {} oracle failures", sum.evaluations, sum.distinct_nontrivial, sum.oracle_failures.len());
}
