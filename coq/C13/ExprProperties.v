(* C13/ExprProperties.v -- pinned statements of property C13, expression layer
   (SPARQL 1.1 section 17: FILTER keeps a solution iff the expression's effective boolean value
   is true, BIND leaves the variable unbound on error, so the multiset of solutions of property
   C13 depends on expressions being evaluated as section 17 prescribes). *)
From Coq Require Import String Ascii.
From Sophia.C13 Require Import ExprImpl ExprConcrete ExprProofs.

(* the two assumptions on the abstract float library: after repair C13e-6, Rust's parser behind
   the syntax check is the XSD lexical mapping (ExprConcrete.v: true by construction, hyp_sample) *)
Definition float_lib_ok (X : xlib) : Prop :=
  (forall s, (if float_syntax s then f_rust X s else None) = f_lex X s) /\
  (forall s, (if float_syntax s then d_rust X s else None) = d_lex X s).

(* ---- MAIN: implementation (with repairs C13e-1..9) = specification, for every expression of
   the fragment and every solution mapping; [orel] relates an EvalResult to the result of the
   specification: same error, same term, or same computed value ---- *)
Check (eval_correct : forall X : xlib,
  (forall s, (if float_syntax s then f_rust X s else None) = f_lex X s) ->
  (forall s, (if float_syntax s then d_rust X s else None) = d_lex X s) ->
  forall (e : expr) (mu : amap),
    orel X (i_eval X cfg_fixed e mu) (s_eval X (P_sophia X cfg_fixed) sophia_dialect e mu)).
(* FILTER keeps exactly the solutions the specification keeps *)
Check (filter_correct : forall X : xlib,
  (forall s, (if float_syntax s then f_rust X s else None) = f_lex X s) ->
  (forall s, (if float_syntax s then d_rust X s else None) = d_lex X s) ->
  forall e mu, i_filter X cfg_fixed e mu = s_filter X (P_sophia X cfg_fixed) sophia_dialect e mu).
(* BIND binds exactly the specification's term, and nothing exactly when it raises an error *)
Check (bind_correct : forall X : xlib,
  (forall s, (if float_syntax s then f_rust X s else None) = f_lex X s) ->
  (forall s, (if float_syntax s then d_rust X s else None) = d_lex X s) ->
  forall e mu, i_bind X cfg_fixed e mu = s_bind X (P_sophia X cfg_fixed) sophia_dialect e mu).
(* the same in the vocabulary of Model.v (the algebra of the first run of C13): the engine's
   expression library and the specification's are interchangeable in Filter and Extend *)
Check (filter_keep_correct : forall X : xlib,
  (forall s, (if float_syntax s then f_rust X s else None) = f_lex X s) ->
  (forall s, (if float_syntax s then d_rust X s else None) = d_lex X s) ->
  forall (e : expr) mu,
    filter_keep (L_impl X cfg_fixed) e mu = filter_keep (L_spec X cfg_fixed sophia_dialect) e mu).
Check (extend_mu_correct : forall X : xlib,
  (forall s, (if float_syntax s then f_rust X s else None) = f_lex X s) ->
  (forall s, (if float_syntax s then d_rust X s else None) = d_lex X s) ->
  forall v (e : expr) mu,
    extend_mu (L_impl X cfg_fixed) v e mu = extend_mu (L_spec X cfg_fixed sophia_dialect) v e mu).

(* the library the model is RUN with (ExprConcrete.v: IEEE-754 from Coq.Floats.SpecFloat, bigdecimal's
   division, a dateTime reader) satisfies the two assumptions: no hypothesis is left for the very
   model that is compared with the engine on every generated case *)
Check (XC_float_lib_ok : float_lib_ok XC).
Check (eval_correct_XC : forall e mu,
  orel XC (i_eval XC cfg_fixed e mu) (s_eval XC (P_sophia XC cfg_fixed) sophia_dialect e mu)).
Check (filter_correct_XC : forall e mu,
  i_filter XC cfg_fixed e mu = s_filter XC (P_sophia XC cfg_fixed) sophia_dialect e mu).
Check (bind_correct_XC : forall e mu,
  i_bind XC cfg_fixed e mu = s_bind XC (P_sophia XC cfg_fixed) sophia_dialect e mu).

(* ---- the dialect: three operator extensions (17.3.1: a type error of the bare table replaced
   by a value) and one genuine difference, IN, which only loses answers ---- *)
Check (s_eq_extension : forall X Pr D' a b r,
  s_eq X Pr strict a b = Some r -> s_eq X Pr D' a b = Some r).
Check (s_rel_extension : forall X Pr D' pred a b r,
  s_rel X Pr strict pred a b = Some r -> s_rel X Pr D' pred a b = Some r).
Check (in_first_error_sound : forall X Pr D' x rs b,
  in_first_error X Pr D' x rs = Some b -> in_strict X Pr D' x rs = Some b).
(* without IN, the repaired implementation is the operator table plus those extensions *)
Check (eval_correct_no_in : forall X : xlib,
  (forall s, (if float_syntax s then f_rust X s else None) = f_lex X s) ->
  (forall s, (if float_syntax s then d_rust X s else None) = d_lex X s) ->
  forall e mu, no_in e = true ->
    orel X (i_eval X cfg_fixed e mu) (s_eval X (P_sophia X cfg_fixed) extensions_only e mu)).

(* ---- ingredients ---- *)
(* literals: what SparqlValue::try_from_term reads is the class section 17.1 assigns *)
Check (classify_try_from_term : forall X : xlib,
  (forall s, (if float_syntax s then f_rust X s else None) = f_lex X s) ->
  (forall s, (if float_syntax s then d_rust X s else None) = d_lex X s) ->
  forall t, classify X t = vclass X (try_from_term X cfg_fixed t) t).
(* the third-party parsers on the XSD lexical spaces *)
Check (rust_prim_signed : forall lo hi s,
  rust_prim true lo hi s =
  match xsd_integer s with
  | Some z => if ((lo <=? z) && (z <=? hi))%Z then Some z else None
  | None => None
  end).
Check (rust_bigint_valid : forall s z, xsd_integer s = Some z -> rust_bigint s = Some z).
Check (rust_bigdecimal_valid : forall s, dec_syntax s = true ->
  option_map dec_of_big (rust_bigdecimal s) = xsd_decimal s).
(* SparqlNumber's coercing operators = numeric type promotion + the XPath operators *)
Check (add_den : forall X a b, option_map (den X) (add (FL X) a b) = x_add X (den X a) (den X b)).
Check (sub_den : forall X a b, option_map (den X) (sub (FL X) a b) = x_sub X (den X a) (den X b)).
Check (mul_den : forall X a b, option_map (den X) (mul (FL X) a b) = x_mul X (den X a) (den X b)).
Check (div_den : forall X a b, option_map (den X) (div (FL X) a b) = x_div X (den X a) (den X b)).
Check (neg_den : forall X a, option_map (den X) (neg (FL X) a) = Some (x_neg X (den X a))).
Check (cmp_den : forall X a b, num_cmp (FL X) a b = x_cmp X (den X a) (den X b)).
(* the literal written for a computed integer / boolean is well-typed and denotes the value *)
Check (int_print_valid : forall z, xsd_integer (z_to_str z) = Some z).
Check (computed_int_valid : forall X z,
  classify X (s_term X (P_sophia X cfg_fixed) (SN (XI z))) = KNum (XI z)).
Check (dec_print_valid : forall d, xsd_decimal (dec2string true d) = Some (dnorm d)).
Check (computed_dec_valid : forall X d,
  classify X (s_term X (P_sophia X cfg_fixed) (SN (XD d))) = KNum (XD (dnorm d))).
Check (dnorm_idem : forall d, dnorm (dnorm d) = dnorm d).
Check (computed_bool_valid : forall X b,
  classify X (s_term X (P_sophia X cfg_fixed) (SB b)) = KBool b).

(* ---- non-vacuity: the theorems say something about concrete expressions ---- *)
Example ex_in : s_bind XC (P_sophia XC cfg_fixed) strict (EIn two [EDiv one zero; two]) []
                = Some (tlit "true" "boolean").
Proof. vm_compute. reflexivity. Qed.
Example ex_promotion :
  i_bind XC cfg_fixed (EAdd (lit "1" "byte") (EMul (lit "1.5" "decimal") (lit "2e0" "double"))) []
  = Some (tlit "4e0" "double").
Proof. vm_compute. reflexivity. Qed.
Example ex_overflow :
  i_bind XC cfg_fixed (EAdd (lit "9223372036854775807" "integer") one) []
  = Some (tlit "9223372036854775808" "integer").
Proof. vm_compute. reflexivity. Qed.
Example ex_three_valued :
  i_filter XC cfg_fixed (EOr (EDiv one zero) (ELt one two)) [] = true
  /\ i_filter XC cfg_fixed (EAnd (EDiv one zero) (ELt one two)) [] = false.
Proof. vm_compute. auto. Qed.

Print Assumptions eval_correct.
Print Assumptions filter_correct.
Print Assumptions bind_correct.
Print Assumptions filter_keep_correct.
Print Assumptions extend_mu_correct.
Print Assumptions XC_float_lib_ok.
Print Assumptions eval_correct_XC.
Print Assumptions filter_correct_XC.
Print Assumptions bind_correct_XC.
Print Assumptions s_eq_extension.
Print Assumptions s_rel_extension.
Print Assumptions in_first_error_sound.
Print Assumptions eval_correct_no_in.
Print Assumptions classify_try_from_term.
Print Assumptions rust_prim_signed.
Print Assumptions rust_bigint_valid.
Print Assumptions rust_bigdecimal_valid.
Print Assumptions add_den.
Print Assumptions sub_den.
Print Assumptions mul_den.
Print Assumptions div_den.
Print Assumptions neg_den.
Print Assumptions cmp_den.
Print Assumptions int_print_valid.
Print Assumptions computed_int_valid.
Print Assumptions dec_print_valid.
Print Assumptions computed_dec_valid.
Print Assumptions dnorm_idem.
Print Assumptions computed_bool_valid.
(* the code before the repairs / the two differences left in place *)
Print Assumptions if_refuted.
Print Assumptions eq_ill_refuted.
Print Assumptions eq_ill_refuted2.
Print Assumptions nan_truthy_refuted.
Print Assumptions ebv_illnum_refuted.
Print Assumptions nan_cmp_refuted.
Print Assumptions lex_refuted.
Print Assumptions dec_print_refuted.
Print Assumptions dt_year0_refuted.
Print Assumptions unsigned_refuted.
Print Assumptions in_refuted.
Print Assumptions inf_output_refuted.
Print Assumptions hyp_sample.
Print Assumptions ex_in.
Print Assumptions ex_promotion.
Print Assumptions ex_overflow.
Print Assumptions ex_three_valued.
