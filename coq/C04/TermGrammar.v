(* C04/TermGrammar.v -- the remaining TOKEN productions of the W3C Turtle grammar (RDF 1.1 Turtle, section 6.5)
   that a term can be spelled with, transcribed BY HAND as regular expressions over character classes like
   Grammar.v (this file is part of the reference: it does not look at sophia's sources), and the coarse
   "shape" languages used to reason about the longest-match rule.  Definitions only.

     [139s] PNAME_NS         ::= PN_PREFIX? ':'
     [140s] PNAME_LN         ::= PNAME_NS PN_LOCAL
     [141s] BLANK_NODE_LABEL ::= '_:' (PN_CHARS_U | [0-9]) ((PN_CHARS | '.')* PN_CHARS)?
     [167s] PN_PREFIX        ::= PN_CHARS_BASE ((PN_CHARS | '.')* PN_CHARS)?
     [16]   NumericLiteral   ::= INTEGER | DECIMAL | DOUBLE                                              *)
From Sophia.Common Require Import Prelude.
From Sophia.C04 Require Import Regex Grammar.

Definition pn_tail : rex cclass := opt (cats [Star (alts [PN_CHARS; t_dot]); PN_CHARS]).
Definition PN_PREFIX : rex cclass := cats [PN_CHARS_BASE; pn_tail].
Definition PNAME_NS : rex cclass := cats [opt PN_PREFIX; chr c_colon].
(* PNAME_LN | PNAME_NS: one token, the longest match decides *)
Definition PNAME : rex cclass := cats [PNAME_NS; opt PN_LOCAL].
(* the same without the escape alternative of PN_LOCAL (what a writer that copies the local part verbatim
   from an IRI can produce) *)
Definition PNAME_noesc : rex cclass := cats [PNAME_NS; opt PN_LOCAL_noesc].
(* BLANK_NODE_LABEL after the "_:" *)
Definition BNODE_BODY : rex cclass := cats [alts [PN_CHARS_U; t_digit]; pn_tail].
Definition NUMERIC : rex cclass := alts [INTEGER; DECIMAL; DOUBLE].

(* ---------- classes given as unions of atoms of the fixed vocabulary (gen/RegexTurtle.v) ---------- *)
Definition cls_of (atoms : list N) : cclass :=
  map (fun e => (e_lo e, e_hi e)) (filter (fun e => memN (e_atom e) atoms) atom_table).

(*  0 other 1 newline 2 plus 3 minus 4 dot 5 digit 6 colon 7 underscore 8 percent 9 backslash 10 escpunct
   11..23 the ASCII letters 24 middot 25 combining 26 tie 27 base *)
Definition at_letters : list N := [11; 12; 13; 14; 15; 16; 17; 18; 19; 20; 21; 22; 23].
Definition at_pn_chars : list N := [3; 5; 7] ++ at_letters ++ [24; 25; 26; 27].
Definition at_all : list N := [0; 1; 2; 3; 4; 5; 6; 7; 8; 9; 10] ++ at_letters ++ [24; 25; 26; 27].
Definition without (l : list N) : list N := filter (fun a => negb (memN a l)) at_all.

(* PN_CHARS_BASE *)
Definition cls_base : cclass := cls_of (at_letters ++ [27]).
(* PN_CHARS and '.': the characters of a PN_PREFIX and of a blank node label *)
Definition cls_pfx : cclass := cls_of (4 :: at_pn_chars).
(* the characters of a prefixed name without escapes: PN_CHARS . : % *)
Definition cls_tok : cclass := cls_of (4 :: 6 :: 8 :: at_pn_chars).
(* sign, dot, digits, e, E: the characters of a numeric literal; its possible first characters *)
Definition cls_num : cclass := cls_of [2; 3; 4; 5; 13; 22].
Definition cls_numstart : cclass := cls_of [2; 3; 4; 5].
Definition cls_digit : cclass := cls_of [5].
Definition cls_not01 : cclass := cls_of (without [0; 1]).
Definition cls_not10 : cclass := cls_of (without [10]).
Definition cls_a10 : cclass := cls_of [10].
Definition cls_notdot : cclass := cls_of (without [4]).

(* ---------- shapes ---------- *)
Definition S_all (c : cclass) : rex cclass := Star (Lf c).                    (* every character in c *)
Definition S_end (c : cclass) : rex cclass := cats [Star any_char; Lf c].     (* last character in c *)
Definition S_first (c : cclass) : rex cclass := cats [Lf c; Star any_char].   (* first character in c *)
(* no escpunct character at all, or the first one comes right after a backslash *)
Definition S_esc10 : rex cclass :=
  alts [S_all cls_not10; cats [Star (Lf cls_not10); chr c_bslash; Lf cls_a10; Star any_char]].
(* the last character is not a dot, or it is an escaped dot *)
Definition S_enddot : rex cclass := alts [S_end cls_notdot; cats [Star any_char; chr c_bslash; t_dot]].
(* a colon, and only PN_PREFIX characters before the first one *)
Definition S_colon : rex cclass := cats [Star (Lf cls_pfx); chr c_colon; Star any_char].
