(* C06/Properties.v -- pinned statements of property C06 (the output is what W3C RDFC-1.0
   specifies; failures are explicit).  impl_model = the model of sophia_c14n after the two repairs
   of build/proposed/C06.diff (C05/Model.v); spec_model = the independent transcription of the
   Recommendation (C06/Model.v).  H is an arbitrary hash function everywhere. *)
From Sophia.C06 Require Import Proofs.

(* (1) canonical N-Quads: the escape table of _cnq.rs `nq` IS the table of the canonical form
   (ECHAR for BS HT LF FF CR, the double quote and the backslash, upper-case \uXXXX for the other C0 controls and DEL, everything
   else verbatim), and terms / lines / first-degree lines are written as specified *)
Check (esc_char_is_canonical : forall c : N, esc_char c = cnq_char c).
Check (escape_table_listing :
  map (fun c => (c, esc_char c)) [0;7;8;9;10;11;12;13;14;31;32;34;92;126;127;128]
  = [(0, [92;117;48;48;48;48]); (7, [92;117;48;48;48;55]); (8, [92;98]); (9, [92;116]);
     (10, [92;110]); (11, [92;117;48;48;48;66]); (12, [92;102]); (13, [92;114]);
     (14, [92;117;48;48;48;69]); (31, [92;117;48;48;49;70]); (32, [32]); (34, [92;34]);
     (92, [92;92]); (126, [126]); (127, [92;117;48;48;55;70]); (128, [128])]).
Check (nq_is_canonical : forall t, is_rdf_term t = true -> nq t = cnq_term (fun b => b) t ++ [32]).
Check (nq_line_is_canonical : forall q, sp_supported q = true -> nq_line q = cnq_quad (fun b => b) q).
Check (h1d_line_is_canonical : forall r q, sp_supported q = true ->
  h1d_line r q = cnq_quad (fun b => if str_eqb b r then [97] else [122]) q).

(* (2) the limits (depth_factor, permutation_limit) can only turn a result into ToxicGraph *)
Check (limits_only_toxic : forall H v fuel df pl d,
  le_res (normalize_with H v fuel df pl d) (normalize_with H v fuel None None d)).
Check (run_limited_ok : forall H v fuel df pl d r,
  normalize_with H v fuel df pl d = Ok r -> normalize_with H v fuel None None d = Ok r).
Check (run_limited_err : forall H v fuel df pl d e,
  normalize_with H v fuel df pl d = Err e ->
  e = EToxicDepth \/ e = EToxicPerm \/ normalize_with H v fuel None None d = Err e).

(* (3) unsupported input (blank predicate, quoted triple, variable) is rejected before any
   hashing, supported input is never rejected as unsupported *)
Check (unsupported_rejected_first : forall H v fuel df pl d e,
  step2 (v_once v) d [] = Err e -> normalize_with H v fuel df pl d = Err e).
Check (step2_errors : forall once d m0 e, step2 once d m0 = Err e -> e = EBlankPred \/ e = EBadTerm).
Check (step2_supported : forall once d m0, supported d = true -> exists m, step2 once d m0 = Ok m).
Check (step2_unsupported : forall once d m0, supported d = false -> exists e, step2 once d m0 = Err e).
Check (later_errors : forall H v fuel df pl d e,
  normalize_with H v fuel df pl d = Err e -> (e = EBlankPred \/ e = EBadTerm) -> supported d = false).

(* (4) the memoised first-degree hash (b2h, "not specified in the spec") is the recomputation *)
Check (b2h_memo : forall H (b2q : b2q_t) b qs,
  bt_get b2q b = Some qs -> bt_get (step3_b2h H b2q) b = Some (h1d H b qs)).

(* (5) the implementation (after the repairs) computes what the specification defines, for every
   hash function: same canonical document, same issued identifiers, with Heap's order for "each
   permutation" and label order for "each key of the blank node to quads map".  [false] = the
   specification without step 5.2.1 of section 4.4 (which the implementation does not have);
   fuel exhaustion corresponds to fuel exhaustion. *)
Check (impl_equals_spec_without_5_2_1 : forall H fuel d,
  Forall wf_quad d ->
  match normalize_with H (mkVar true true) fuel None None d with
  | Ok (bytes, issued) => spec_model H heap_perms label_order false d fuel = SpOk (bytes, issued)
  | Err EFuel => spec_model H heap_perms label_order false d fuel = SpFuel
  | Err _ => True
  end).
Check (impl_ok_is_spec : forall H fuel d bytes issued,
  Forall wf_quad d ->
  normalize_with H (mkVar true true) fuel None None d = Ok (bytes, issued) ->
  spec_model H heap_perms label_order false d fuel = SpOk (bytes, issued)).
(* step 5.2.1 of section 4.4 is unobservable (for every enumeration of permutations that visits
   at least one permutation and only genuine rearrangements), hence the full statement: *)
Check (step_5_2_1_unobservable : forall H perms node_order d fuel r,
  (forall l p, In p (perms l) -> forall x, In x p -> In x l) ->
  (forall l p, In p (perms l) -> forall x, In x l -> In x p) ->
  (forall l, perms l = [] -> l = []) ->
  spec_model H perms node_order false d fuel = SpOk r ->
  spec_model H perms node_order true d fuel = SpOk r).
Check (unobservable_needs_nonempty_perms :
  ~ (forall H perms node_order d fuel r,
       (forall l p, In p (perms l) -> forall x, In x p -> In x l) ->
       spec_model H perms node_order false d fuel = SpOk r ->
       spec_model H perms node_order true d fuel = SpOk r)).
Check (impl_ok_is_rdfc10 : forall H fuel d bytes issued,
  Forall wf_quad d ->
  normalize_with H (mkVar true true) fuel None None d = Ok (bytes, issued) ->
  spec_model H heap_perms label_order true d fuel = SpOk (bytes, issued)).
(* THE conformance theorem: any hash function, any limits, any well-formed dataset *)
Check (conformance : forall H fuel df pl d bytes issued,
  Forall wf_quad d ->
  normalize_with H (mkVar true true) fuel df pl d = Ok (bytes, issued) ->
  spec_model H heap_perms label_order true d fuel = SpOk (bytes, issued)).
(* ingredients worth reading on their own: first-degree hashes, the repaired smaller_path *)
Check (first_degree_agrees : forall H d b,
  forallb sp_supported d = true -> In b (bnodes d) ->
  first_degree H true d b = Some (sp_h1 H d b)).
Check (skip_eq : forall chosen path,
  negb (is_nil chosen) && prune_rule true chosen path = sp_skip chosen path).

(* (6) the code before the repairs does NOT conform (concrete datasets, concrete toy hashes) *)
Check (b2q_prefix_refuted :
  differs_from_spec (mkVar false true) toyL w27 20 = true
  /\ differs_from_spec (mkVar true true) toyL w27 20 = false).
Check (prune_prefix_refuted :
  differs_from_spec (mkVar true false) toyC w_b9b10 80 = true
  /\ differs_from_spec (mkVar true true) toyC w_b9b10 80 = false).

Print Assumptions esc_char_is_canonical.
Print Assumptions escape_table_listing.
Print Assumptions nq_is_canonical.
Print Assumptions nq_line_is_canonical.
Print Assumptions h1d_line_is_canonical.
Print Assumptions limits_only_toxic.
Print Assumptions run_limited_ok.
Print Assumptions run_limited_err.
Print Assumptions unsupported_rejected_first.
Print Assumptions step2_errors.
Print Assumptions step2_supported.
Print Assumptions step2_unsupported.
Print Assumptions later_errors.
Print Assumptions b2h_memo.
Print Assumptions impl_equals_spec_without_5_2_1.
Print Assumptions impl_ok_is_spec.
Print Assumptions step_5_2_1_unobservable.
Print Assumptions unobservable_needs_nonempty_perms.
Print Assumptions impl_ok_is_rdfc10.
Print Assumptions conformance.
Print Assumptions first_degree_agrees.
Print Assumptions skip_eq.
Print Assumptions b2q_prefix_refuted.
Print Assumptions prune_prefix_refuted.
