#!/bin/bash
# usage: seedtest.sh <patch.diff> <Cxx> [tier]  -- apply a seeded change to /repo, run the check, undo it
patch=$1; pid=$2; tier=${3:-quick}
cd /repo || exit 2
if ! git diff --quiet; then echo "/repo working tree is dirty"; exit 2; fi
git apply "$patch" || { echo "patch does not apply"; exit 2; }
cd /verif && ./check "$pid" --tier "$tier"; rc=$?
git -C /repo checkout -- . 
echo "seedtest: check exit=$rc"
exit 0
