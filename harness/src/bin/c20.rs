//! C20: native Rust values (i32/isize/usize/bool/str/f64) as typed literals and back, and
//! TryFromTerm on arbitrary literals, against the Coq model (C20/Model.v) and against the property
//! itself (oracle: lexical form valid for the XSD datatype, exact round trip through every term
//! representation and an N-Triples document, conversion never panics and only ever returns the
//! value the lexical form denotes in the stated datatype).
use sophia_api::source::TripleSource;
use sophia_api::term::{FromTerm, SimpleTerm, Term, TermKind, TryFromTerm};
use sophia_term::{ArcTerm, RcTerm};
use std::num::IntErrorKind;
use std::panic::AssertUnwindSafe;
use std::sync::atomic::{AtomicBool, Ordering};
use verif_harness::*;

// ---------------- XSD lexical spaces, written as plain scanners (the oracle's own) ----------------
fn eat_digits(b: &[u8], mut i: usize) -> usize { while i < b.len() && b[i].is_ascii_digit() { i += 1 } i }
fn eat_sign(b: &[u8], i: usize) -> usize { if i < b.len() && (b[i] == b'+' || b[i] == b'-') { i + 1 } else { i } }
fn lex_integer(s: &str) -> bool { let b = s.as_bytes(); let i = eat_sign(b, 0); let j = eat_digits(b, i); j > i && j == b.len() }
fn lex_boolean(s: &str) -> bool { matches!(s, "true" | "false" | "1" | "0") }
/// position after an unsigned decimal numeral starting at i, if there is one
fn eat_unsigned_decimal(b: &[u8], i: usize) -> Option<usize> {
    let j = eat_digits(b, i);
    if j < b.len() && b[j] == b'.' { let k = eat_digits(b, j + 1); if (j - i) + (k - j - 1) > 0 { Some(k) } else { None } }
    else if j > i { Some(j) } else { None }
}
fn lex_decimal(s: &str) -> bool { let b = s.as_bytes(); eat_unsigned_decimal(b, eat_sign(b, 0)) == Some(b.len()) }
fn lex_double(s: &str) -> bool {
    if matches!(s, "INF" | "+INF" | "-INF" | "NaN") { return true; }
    let b = s.as_bytes();
    let Some(j) = eat_unsigned_decimal(b, eat_sign(b, 0)) else { return false };
    if j == b.len() { return true; }
    if b[j] != b'e' && b[j] != b'E' { return false; }
    let k = eat_sign(b, j + 1); let l = eat_digits(b, k); l > k && l == b.len()
}
fn xml_char(c: char) -> bool { matches!(c as u32, 0x9 | 0xA | 0xD | 0x20..=0xD7FF | 0xE000..=0xFFFD | 0x10000..=0x10FFFF) }
fn lex_string(s: &str) -> bool { s.chars().all(xml_char) }
/// the integer an xsd:integer lexical form denotes (None: not a numeral, or beyond 10^38)
fn int_value(s: &str) -> Option<i128> {
    if !lex_integer(s) { return None; }
    let neg = s.starts_with('-'); let d = s.trim_start_matches(['+', '-']).trim_start_matches('0');
    if d.len() > 38 { return None; }
    let m: i128 = if d.is_empty() { 0 } else { d.parse::<u128>().ok()? as i128 };
    Some(if neg { -m } else { m })
}
const INT_FAMILY: [(&str, Option<i128>, Option<i128>); 13] = [
    ("integer", None, None), ("nonPositiveInteger", None, Some(0)), ("negativeInteger", None, Some(-1)),
    ("long", Some(i64::MIN as i128), Some(i64::MAX as i128)), ("int", Some(i32::MIN as i128), Some(i32::MAX as i128)),
    ("short", Some(-32768), Some(32767)), ("byte", Some(-128), Some(127)),
    ("nonNegativeInteger", Some(0), None), ("unsignedLong", Some(0), Some(u64::MAX as i128)), ("unsignedInt", Some(0), Some(u32::MAX as i128)),
    ("unsignedShort", Some(0), Some(65535)), ("unsignedByte", Some(0), Some(255)), ("positiveInteger", Some(1), None),
];
fn int_facets(dt: &str) -> Option<(Option<i128>, Option<i128>)> { let l = dt.strip_prefix(XSD)?; INT_FAMILY.iter().find(|f| f.0 == l).map(|f| (f.1, f.2)) }

// ---------------- helpers ----------------
static QUIET: AtomicBool = AtomicBool::new(false);
/// catch_unwind that keeps the panic message of the code under test off the terminal
fn catch_unwind<R>(f: impl FnOnce() -> R + std::panic::UnwindSafe) -> std::thread::Result<R> {
    QUIET.store(true, Ordering::SeqCst); let r = std::panic::catch_unwind(f); QUIET.store(false, Ordering::SeqCst); r
}
fn z(v: i128) -> String { if v < 0 { format!("({v})%Z") } else { format!("{v}%Z") } }
fn lex_bits(s: &str) -> String { format!("lex_ok {} {} {} {} {} {}", coq_str(s), coq_bool(lex_integer(s)), coq_bool(lex_boolean(s)), coq_bool(lex_decimal(s)), coq_bool(lex_double(s)), coq_bool(lex_string(s))) }
fn int_code(r: &Result<i128, std::num::ParseIntError>) -> (u64, i128) {
    match r { Ok(v) => (0, *v), Err(e) => (match e.kind() { IntErrorKind::Empty => 1, IntErrorKind::InvalidDigit => 2, IntErrorKind::PosOverflow => 3, IntErrorKind::NegOverflow => 4, _ => 9 }, 0) }
}
fn special_body(lex: &str) -> String { lex.strip_prefix(['+', '-']).unwrap_or(lex).to_ascii_lowercase() }
/// class of an f64 conversion result as the model reports it (99 = inconsistent with the spelling)
fn f64_class(lex: &str, r: &Result<f64, std::num::ParseFloatError>) -> u64 {
    match r {
        Err(_) => 0,
        Ok(v) => { let b = special_body(lex);
            if b == "nan" { if v.is_nan() { 1 } else { 99 } }
            else if b == "inf" || b == "infinity" { if !v.is_infinite() { 99 } else if v.is_sign_negative() { 3 } else { 2 } }
            else if v.is_nan() { 99 } else if v.is_sign_negative() { 5 } else { 4 } }
    }
}
fn same_f64(a: f64, b: f64) -> bool { if a.is_nan() { b.is_nan() } else { a.to_bits() == b.to_bits() } }
fn show_f64(v: f64) -> String { format!("{v:?} (bits {:#018x})", v.to_bits()) }
/// the object of a one-line N-Triples document written with the crate's own writer and read back
fn nt_roundtrip<T: Term>(t: T) -> Result<ST, String> {
    let mut buf: Vec<u8> = b"<tag:s> <tag:p> ".to_vec();
    sophia_turtle::serializer::nt::write_term(&mut buf, t).map_err(|e| format!("write_term: {e}"))?;
    buf.extend_from_slice(b" .\n");
    let text = String::from_utf8(buf).map_err(|e| format!("serializer wrote invalid UTF-8: {e}"))?;
    let g: Vec<[ST; 3]> = sophia_turtle::parser::nt::parse_str(&text).collect_triples().map_err(|e| format!("the document {text:?} does not parse: {e}"))?;
    if g.len() != 1 { return Err(format!("{} triples read back from {text:?}", g.len())); }
    Ok(g.into_iter().next().unwrap()[2].clone())
}
/// every representation a native term is copied to: (name, copy)
fn reps<T: Term + Copy>(t: T) -> Vec<(&'static str, Result<ST, String>)> {
    let arc: ArcTerm = ArcTerm::from_term(t); let rc: RcTerm = RcTerm::from_term(t);
    vec![("SimpleTerm", Ok(SimpleTerm::from_term(t))), ("ArcTerm", Ok(SimpleTerm::from_term(arc.borrow_term()))), ("RcTerm", Ok(SimpleTerm::from_term(rc.borrow_term()))), ("N-Triples", nt_roundtrip(t))]
}

#[derive(Clone, Debug)]
enum Native { I32(i32), Isize(isize), Usize(usize), Bool(bool), Str(String), F64(f64) }
#[derive(Clone, Debug)]
enum Case { Native(Native), Conv(ST), F64Batch(Vec<f64>) }

struct Ctx { sum: Summary, cases: Vec<(usize, String)>, seen: std::collections::HashSet<String>, verbose: bool }
impl Ctx {
    /// at most three descriptions per case, but every failing case is listed
    fn fail(&mut self, idx: usize, msg: String) {
        if self.verbose { println!("ORACLE FAILURE: {msg}"); }
        let id = idx.to_string();
        if self.sum.oracle_failures.iter().rev().take_while(|f| f.0 == id).count() < 3 { self.sum.oracle_failures.push((id, msg)); } else { self.sum.bump("oracle-failures-not-listed"); }
    }
}

/// lexical form, datatype and the general term contract of a native value
fn native_face<T: Term + Copy>(cx: &mut Ctx, idx: usize, what: &str, t: T, dt_local: &str, valid: fn(&str) -> bool) -> (String, String) {
    let lex = t.lexical_form().map(|l| l.to_string()).unwrap_or_default();
    let dt = t.datatype().map(|d| d.as_str().to_string()).unwrap_or_default();
    if t.kind() != TermKind::Literal || t.lexical_form().is_none() || t.language_tag().is_some() || dt != format!("{XSD}{dt_local}") {
        cx.fail(idx, format!("{what} as a term: kind {:?}, datatype <{dt}>, language tag {:?}; expected a plain literal typed xsd:{dt_local}", t.kind(), t.language_tag().map(|l| l.as_str().to_string())));
    }
    if !valid(&lex) {
        let class = if dt_local == "string" { "xsd:string lexical space: a Rust str holding a code point outside the XML Char production gives an ill-typed literal".to_string() } else { format!("xsd:{dt_local} lexical space") };
        cx.fail(idx, format!("{class}: {what} has lexical form {lex:?}, which is not a valid xsd:{dt_local}"));
    }
    (lex, dt)
}

fn run_native(cx: &mut Ctx, idx: usize, v: &Native) {
    let mut body: Vec<String> = vec![];
    macro_rules! int_case { ($x:expr, $ty:ty, $k:expr, $name:expr) => {{
        let x: $ty = $x; let what = format!("{}{}", x, $name);
        let (lex, dt) = native_face(cx, idx, &what, x, "integer", lex_integer);
        if int_value(&lex) != Some(x as i128) { cx.fail(idx, format!("{what}: lexical form {lex:?} does not denote {x}")); }
        body.push(format!("int_term_ok {} {} {} {}", $k, z(x as i128), coq_str(&lex), coq_str(&dt)));
        let direct = catch_unwind(AssertUnwindSafe(|| <$ty>::try_from_term(x)));
        match &direct { Ok(Ok(y)) if *y == x => {}, other => cx.fail(idx, format!("{what}: try_from_term on the native term itself gives {other:?}")) }
        for (name, rep) in reps(x) {
            match rep {
                Err(e) => cx.fail(idx, format!("{what} through {name}: {e}")),
                Ok(st) => {
                    let back = catch_unwind(AssertUnwindSafe(|| <$ty>::try_from_term(st.borrow_term())));
                    match &back { Ok(Ok(y)) if *y == x => {}, other => cx.fail(idx, format!("{what} copied to {name} ({st:?}) converts back to {other:?}")) }
                    if name == "N-Triples" { let r = back.unwrap_or_else(|_| "x".parse::<$ty>()); let (code, val) = int_code(&r.map(|v| v as i128)); body.push(format!("try_int_ok {} {} {code} {}", $k, coq_term(st.borrow_term()), z(val))); }
                }
            }
        }
        cx.sum.bump(concat!("native:", stringify!($ty)));
    }}; }
    match v {
        Native::I32(x) => int_case!(*x, i32, 0, "i32"),
        Native::Isize(x) => int_case!(*x, isize, 1, "isize"),
        Native::Usize(x) => int_case!(*x, usize, 2, "usize"),
        Native::Bool(b) => {
            let what = format!("{b}");
            let (lex, dt) = native_face(cx, idx, &what, *b, "boolean", lex_boolean);
            if (lex == "true" || lex == "1") != *b { cx.fail(idx, format!("{what}: lexical form {lex:?} does not denote it")); }
            body.push(format!("bool_term_ok {} {} {}", coq_bool(*b), coq_str(&lex), coq_str(&dt)));
            match catch_unwind(AssertUnwindSafe(|| bool::try_from_term(*b))) { Ok(Ok(y)) if y == *b => {}, other => cx.fail(idx, format!("{what}: try_from_term on the native term itself gives {other:?}")) }
            for (name, rep) in reps(*b) {
                match rep { Err(e) => cx.fail(idx, format!("{what} through {name}: {e}")), Ok(st) => {
                    let back = catch_unwind(AssertUnwindSafe(|| bool::try_from_term(st.borrow_term())));
                    match &back { Ok(Ok(y)) if y == b => {}, other => cx.fail(idx, format!("{what} copied to {name} converts back to {other:?}")) }
                    if name == "N-Triples" { body.push(format!("try_bool_ok {} {}", coq_term(st.borrow_term()), coq_opt(back.ok().and_then(|r| r.ok()).map(|b| coq_bool(b).to_string())))); }
                } }
            }
            cx.sum.bump("native:bool");
        }
        Native::Str(s) => {
            let what = format!("the str {s:?}");
            let (lex, dt) = native_face(cx, idx, &what, s.as_str(), "string", lex_string);
            if lex != *s { cx.fail(idx, format!("{what}: lexical form {lex:?} differs from the string")); }
            body.push(format!("str_term_ok {} {} {}", coq_str(s), coq_str(&lex), coq_str(&dt)));
            for (name, rep) in reps(s.as_str()) {
                match rep { Err(e) => cx.fail(idx, format!("{what} through {name}: {e}")), Ok(st) => {
                    let ok = st.lexical_form().map(|l| *l == **s).unwrap_or(false) && st.datatype().map(|d| d.as_str() == format!("{XSD}string")).unwrap_or(false) && st.language_tag().is_none();
                    if !ok { cx.fail(idx, format!("{what} copied to {name} reads back as {st:?}")); }
                } }
            }
            body.push(lex_bits(s));
            cx.sum.bump("native:str");
        }
        Native::F64(x) => { run_f64(cx, idx, *x, Some(&mut body)); }
    }
    cx.cases.push((idx, body.join(" && ")));
}

/// one double: validity of the lexical form and exact round trip through every representation
fn run_f64(cx: &mut Ctx, idx: usize, x: f64, body: Option<&mut Vec<String>>) {
    let what = format!("the f64 {}", show_f64(x));
    let (lex, dt) = native_face(cx, idx, &what, x, "double", lex_double);
    match catch_unwind(AssertUnwindSafe(|| f64::try_from_term(x))) { Ok(Ok(y)) if same_f64(x, y) => {}, other => cx.fail(idx, format!("{what}: try_from_term on the native term itself gives {other:?}")) }
    let mut class = 98;
    for (name, rep) in reps(x) {
        match rep { Err(e) => cx.fail(idx, format!("{what} through {name}: {e}")), Ok(st) => {
            let back = catch_unwind(AssertUnwindSafe(|| f64::try_from_term(st.borrow_term())));
            match &back { Ok(Ok(y)) if same_f64(x, *y) => {}, Ok(Ok(y)) => cx.fail(idx, format!("{what} (lexical form {lex:?}) copied to {name} converts back to {}", show_f64(*y))), other => cx.fail(idx, format!("{what} (lexical form {lex:?}) copied to {name} converts back to {other:?}")) }
            if name == "N-Triples" { if let Ok(r) = &back { class = f64_class(&st.lexical_form().unwrap(), r); } }
        } }
    }
    let sig = lex.chars().filter(|c| c.is_ascii_digit()).collect::<String>().trim_start_matches('0').trim_end_matches('0').len();
    cx.sum.bump(if x.is_nan() { "f64:nan" } else if x.is_infinite() { "f64:infinite" } else if x == 0.0 { "f64:zero" } else if x.is_subnormal() { "f64:subnormal" } else if sig >= 17 { "f64:17-significant-digits" } else if lex.len() > 25 { "f64:huge-or-tiny-magnitude" } else if x.fract() == 0.0 { "f64:integral" } else { "f64:other-finite" });
    if let Some(body) = body {
        let code = if x.is_nan() { Some(0) } else if x == f64::INFINITY { Some(1) } else if x == f64::NEG_INFINITY { Some(2) } else if x == 0.0 { Some(if x.is_sign_negative() { 4 } else { 3 }) } else { None };
        if let Some(c) = code { body.push(format!("f64_term_ok {c} {} {}", coq_str(&lex), coq_str(&dt))); }
        // the model's reader on the text the implementation wrote
        body.push(format!("try_f64_ok (LitDt {} {}) {class}", coq_str(&lex), coq_str(&dt)));
        body.push(lex_bits(&lex));
    }
}

/// TryFromTerm of the five native types on an arbitrary term
fn run_conv(cx: &mut Ctx, idx: usize, t: &ST) {
    let lit = t.is_literal();
    let lex = t.lexical_form().map(|l| l.to_string()).unwrap_or_default();
    let dt = t.datatype().map(|d| d.as_str().to_string()).unwrap_or_default();
    let shown = format!("{t:?}");
    let mut body: Vec<String> = vec![];
    let ct = coq_term(t.borrow_term());
    macro_rules! int_conv { ($ty:ty, $k:expr) => {{
        let mut first: Option<Result<$ty, std::num::ParseIntError>> = None;
        for arc in [false, true] {
            let r = if arc { let a = ArcTerm::from_term(t.borrow_term()); catch_unwind(AssertUnwindSafe(|| <$ty>::try_from_term(a.borrow_term()))) } else { catch_unwind(AssertUnwindSafe(|| <$ty>::try_from_term(t.borrow_term()))) };
            match r {
                Err(_) => cx.fail(idx, format!("{}::try_from_term({shown}) panics", stringify!($ty))),
                Ok(r) if arc => { if first.as_ref() != Some(&r) { cx.fail(idx, format!("{}::try_from_term({shown}) = {first:?} on a SimpleTerm but {r:?} on its ArcTerm copy", stringify!($ty))); } }
                Ok(r) => {
                    first = Some(r.clone());
                    if let Ok(v) = &r {
                        let v = *v as i128;
                        let why = if !lit { Some("the term is not a literal".to_string()) }
                            else { match int_facets(&dt) {
                                None => Some(format!("<{dt}> is not an integer datatype")),
                                Some((lo, hi)) => if !lex_integer(&lex) { Some(format!("{lex:?} is not in the lexical space of xsd:integer")) }
                                    else if int_value(&lex) != Some(v) { Some(format!("{lex:?} denotes {:?}", int_value(&lex))) }
                                    else if lo.is_some_and(|lo| v < lo) || hi.is_some_and(|hi| v > hi) { Some(format!("derived integer datatype range: {v} is not in the value space of <{dt}>, the literal is ill-typed and denotes nothing")) }
                                    else { None } } };
                        if let Some(why) = why { cx.fail(idx, format!("{}::try_from_term({shown}) = Ok({v}) but {why}", stringify!($ty))); }
                        cx.sum.bump(concat!("conv-ok:", stringify!($ty)));
                    }
                    { let (code, val) = int_code(&r.map(|v| v as i128)); body.push(format!("try_int_ok {} {ct} {code} {}", $k, z(val))); }
                }
            }
        }
    }}; }
    int_conv!(i32, 0); int_conv!(isize, 1); int_conv!(usize, 2);
    match catch_unwind(AssertUnwindSafe(|| f64::try_from_term(t.borrow_term()))) {
        Err(_) => cx.fail(idx, format!("f64::try_from_term({shown}) panics")),
        Ok(r) => {
            if let Ok(v) = &r {
                let l = dt.strip_prefix(XSD).unwrap_or("");
                let why = if !lit { Some("the term is not a literal".to_string()) }
                    else if !matches!(l, "double" | "float" | "decimal") { Some(format!("<{dt}> is not a floating point or decimal datatype")) }
                    else if !(if l == "decimal" { lex_decimal(&lex) } else { lex_double(&lex) }) { Some(format!("{lex:?} is not in the lexical space of xsd:{l}")) }
                    else {
                        let expect = match lex.as_str() { "INF" | "+INF" => f64::INFINITY, "-INF" => f64::NEG_INFINITY, "NaN" => f64::NAN,
                            _ => if l == "float" { lex.parse::<f32>().map(f64::from).unwrap_or(f64::NAN) } else { lex.parse::<f64>().unwrap_or(f64::NAN) } };
                        if same_f64(expect, *v) { None } else { Some(format!("{lex:?} denotes {} in xsd:{l}{}", show_f64(expect), if l == "float" { " (the value space of xsd:float is that of f32)" } else { "" })) }
                    };
                if let Some(why) = why { cx.fail(idx, format!("f64::try_from_term({shown}) = Ok({}) but {why}", show_f64(*v))); }
                cx.sum.bump("conv-ok:f64");
            }
            body.push(format!("try_f64_ok {ct} {}", f64_class(&lex, &r)));
        }
    }
    match catch_unwind(AssertUnwindSafe(|| bool::try_from_term(t.borrow_term()))) {
        Err(_) => cx.fail(idx, format!("bool::try_from_term({shown}) panics")),
        Ok(r) => {
            if let Ok(v) = &r {
                let why = if !lit { Some("the term is not a literal") } else if dt != format!("{XSD}boolean") { Some("the datatype is not xsd:boolean") } else if !lex_boolean(&lex) { Some("the lexical form is not in the lexical space of xsd:boolean") } else if (lex == "true" || lex == "1") != *v { Some("the lexical form denotes the other value") } else { None };
                if let Some(why) = why { cx.fail(idx, format!("bool::try_from_term({shown}) = Ok({v}) but {why}")); }
                cx.sum.bump("conv-ok:bool");
            }
            body.push(format!("try_bool_ok {ct} {}", coq_opt(r.ok().map(|b| coq_bool(b).to_string()))));
        }
    }
    if lit { body.push(lex_bits(&lex)); }
    cx.sum.bump(&format!("conv:{}", if !lit { "not-a-literal".to_string() } else if t.language_tag().is_some() { "language-tagged".into() } else { dt.strip_prefix(XSD).unwrap_or("other-datatype").to_string() }));
    cx.cases.push((idx, body.join(" && ")));
}

// ---------------- generators ----------------
const FLOAT_FORMS: [&str; 62] = ["0", "-0", "+0", "1", "-1", "1.5", "-1.5", "+1.5", ".5", "-.5", "5.", "+5.", "1e5", "1E5", "1e+5", "1E-5", "-1.5e-3", ".5e1", "5.e1", "1e400", "-1e400", "1e-400", "-1e-400",
    "0.1", "0.3", "16777217", "3.4028235e38", "3.4028236e38", "1e39", "1e-46", "0.30000000000000004", "1.7976931348623157e308", "1.7976931348623159e308", "4.9e-324", "2e-324",
    "INF", "+INF", "-INF", "NaN", "inf", "-inf", "+inf", "Inf", "infinity", "-Infinity", "INFINITY", "nan", "NAN", "+NaN", "-NaN", "-nan",
    "", ".", "+", "-", "e5", "1e", "1e+", "1.2.3", "0x10", "1_000", "1f"];
const INT_MALFORMED: [&str; 22] = ["", "+", "-", "--1", "+-1", "-+1", "1-", "1.0", "1.", ".1", "1e3", "0x10", "1_000", "1,000", "\u{0661}\u{0662}", "\u{ff11}", "१२", "one", "1 2", "-", "+ 1", "１"];
const PADS: [(&str, &str); 7] = [(" ", ""), ("", " "), (" ", " "), ("\t", ""), ("", "\n"), ("\u{a0}", ""), ("", "\r\n")];
const CONV_DTS: [&str; 20] = ["integer", "nonPositiveInteger", "negativeInteger", "long", "int", "short", "byte", "nonNegativeInteger", "unsignedLong", "unsignedInt", "unsignedShort", "unsignedByte", "positiveInteger",
    "decimal", "double", "float", "boolean", "string", "dateTime", "anyURI"];
fn xsd(l: &str) -> String { format!("{XSD}{l}") }
fn int_boundaries(dt: &str) -> Vec<i128> {
    let mut v: Vec<i128> = vec![0, 1, -1, 127, 128, -128, -129, 255, 256, 32767, 32768, -32768, -32769, 65535, 65536,
        i32::MAX as i128, i32::MAX as i128 + 1, i32::MIN as i128, i32::MIN as i128 - 1, u32::MAX as i128, u32::MAX as i128 + 1,
        i64::MAX as i128, i64::MAX as i128 + 1, i64::MIN as i128, i64::MIN as i128 - 1, u64::MAX as i128, u64::MAX as i128 + 1, 10i128.pow(30), -(10i128.pow(30))];
    if let Some((lo, hi)) = int_facets(&xsd(dt)) { for b in [lo, hi].into_iter().flatten() { v.extend([b - 1, b, b + 1]); } }
    v.sort(); v.dedup(); v
}
fn fixed_cases() -> Vec<Case> {
    let mut c = vec![];
    for x in [i32::MIN, i32::MIN + 1, -2147483647, -1000000000, -10, -9, -1, 0, 1, 9, 10, 99, 100, 1000000000, i32::MAX - 1, i32::MAX] { c.push(Case::Native(Native::I32(x))); }
    for x in [isize::MIN, isize::MIN + 1, i32::MIN as isize - 1, i32::MIN as isize, -1, 0, 1, i32::MAX as isize, i32::MAX as isize + 1, u32::MAX as isize, 999999999999999999, 1000000000000000000, isize::MAX - 1, isize::MAX] { c.push(Case::Native(Native::Isize(x))); }
    for x in [0usize, 1, 9, 10, i32::MAX as usize, i32::MAX as usize + 1, u32::MAX as usize, u32::MAX as usize + 1, i64::MAX as usize, i64::MAX as usize + 1, 9999999999999999999, 10000000000000000000, usize::MAX - 1, usize::MAX] { c.push(Case::Native(Native::Usize(x))); }
    for b in [true, false] { c.push(Case::Native(Native::Bool(b))); }
    for s in ["", "hello world", "true", "1", "42", "INF", " ", "\n", "\t\r", "say \"hi\" \\ back", "é€😀", "\u{d7ff}\u{e000}", "\u{fffd}", "\u{10000}\u{10ffff}", "\u{7f}\u{80}\u{85}",
              "\u{0}", "a\u{1}b", "\u{8}\u{b}\u{c}\u{e}\u{1f}", "\u{fffe}", "\u{ffff}"] { c.push(Case::Native(Native::Str(s.to_string()))); }
    let bits = |b: u64| f64::from_bits(b);
    for x in [f64::NAN, -f64::NAN, bits(0x7ff0000000000001), bits(0xfff8000000000123), f64::INFINITY, f64::NEG_INFINITY, 0.0, -0.0,
              f64::MIN_POSITIVE, -f64::MIN_POSITIVE, bits(1), -bits(1), bits(2), bits(0x000fffffffffffff), bits(0x0008000000000000), bits(0x0010000000000001),
              f64::MAX, f64::MIN, bits(0x7feffffffffffffe), f64::EPSILON, 1.0, -1.0, 1.0 + f64::EPSILON, 1.0 - f64::EPSILON / 2.0, 0.1, 0.2, 0.1 + 0.2, 1.0 / 3.0, 2.0 / 3.0, 100.0, 1.5, -2.5e-5,
              9007199254740991.0, 9007199254740992.0, 9007199254740994.0, 9007199254740993.0, 123456789012345680.0, 1e15, 1e16, 1e17, 1e21, 1e22, 1e23, 1e-5, 1e-6, 1e-7, 1e100, 1e300, 1e308, 1e-300, 1e-308, 1e-320,
              1.7976931348623157e308, 2.2250738585072014e-308, 2.225073858507201e-308, 4.9e-324, 5e-324, 0.30000000000000004, 8.41e21, 2.0f64.powi(63), 2.0f64.powi(64), -(2.0f64.powi(31)), 2.0f64.powi(-1074), 2.0f64.powi(1023),
              f64::from(f32::MAX), f64::from(0.1f32), f64::from(f32::MIN_POSITIVE), std::f64::consts::PI, std::f64::consts::E] { c.push(Case::Native(Native::F64(x))); }
    // literals: every integer datatype with every boundary, plain
    for dt in &CONV_DTS[..13] { for v in int_boundaries(dt) { c.push(Case::Conv(lit_dt(&v.to_string(), &xsd(dt)))); } }
    // signed / padded / malformed forms on a few datatypes
    for dt in ["integer", "unsignedByte", "negativeInteger", "nonPositiveInteger", "positiveInteger", "long"] {
        for f in ["+0", "-0", "+1", "-1", "007", "+007", "-007", "000", "-000", "+255", "+256", "0255", "00000000000000000000000000000000000000000001", "-00000000000000000000000000000000000000000001", "99999999999999999999999999999999999999999"] { c.push(Case::Conv(lit_dt(f, &xsd(dt)))); }
        for f in INT_MALFORMED { c.push(Case::Conv(lit_dt(f, &xsd(dt)))); }
        for (a, b) in PADS { c.push(Case::Conv(lit_dt(&format!("{a}7{b}"), &xsd(dt)))); }
    }
    for dt in ["double", "float", "decimal"] { for f in FLOAT_FORMS { c.push(Case::Conv(lit_dt(f, &xsd(dt)))); } for (a, b) in PADS { c.push(Case::Conv(lit_dt(&format!("{a}1.5{b}"), &xsd(dt)))); } }
    for f in ["true", "false", "1", "0", "TRUE", "True", " true", "true ", "", "yes", "01", "+1"] { c.push(Case::Conv(lit_dt(f, &xsd("boolean")))); }
    for dt in ["string", "dateTime", "anyURI", "Integer", "INTEGER", "integer%20", "doubl", "doublee"] { for f in ["5", "true", "1.5", "NaN"] { c.push(Case::Conv(lit_dt(f, &xsd(dt)))); } }
    for f in ["5", "true", "1.5"] { c.push(Case::Conv(lit_dt(f, "http://www.w3.org/2001/XMLSchema/integer"))); c.push(Case::Conv(lit_dt(f, "integer"))); c.push(Case::Conv(lit_dt(f, ""))); c.push(Case::Conv(lit_lang(f, "en"))); }
    for t in [iri(&xsd("integer")), iri("5"), iri(""), bnode("b5"), bnode("5"), var("v"), triple(iri("tag:s"), iri("tag:p"), lit_dt("5", &xsd("integer"))), triple(lit_dt("5", &xsd("integer")), lit_dt("true", &xsd("boolean")), lit_dt("1.5", &xsd("double")))] { c.push(Case::Conv(t)); }
    c
}
fn random_f64(r: &mut Rng) -> f64 {
    match r.below(10) {
        0 | 1 | 2 => f64::from_bits(r.next()),                                              // anything, mostly huge or tiny magnitudes
        3 => f64::from_bits(r.next() & 0x800f_ffff_ffff_ffff),                              // subnormal
        4 => { let e = r.range(1000, 1060) as u64; f64::from_bits((r.next() & 0x800f_ffff_ffff_ffff) | (e << 52)) } // around 1 .. 2^37: 17 digits with a point inside
        5 => (r.next() >> r.below(64)) as f64 * if r.chance(1, 2) { -1.0 } else { 1.0 },      // integral
        6 => { let m = (r.next() % 1_000_000) as f64; let e = r.range(0, 60) as i32 - 30; m * 10f64.powi(e) } // short decimal
        7 => { let e = r.range(0, 640) as i32 - 330; let m = 1.0 + (r.next() % 9000) as f64 / 1000.0; m * 10f64.powi(e) } // all decimal exponents
        8 => { let base = f64::from_bits(r.next() & 0x7fff_ffff_ffff_ffff); let n = r.below(3); let mut x = base; for _ in 0..n { x = f64::from_bits(x.to_bits().wrapping_add(1)); } if r.chance(1, 2) { -x } else { x } } // neighbours
        _ => f64::from((r.next() as u32 as f32) / (1u32 << r.below(31)) as f32),            // exactly representable in f32
    }
}
/// a decimal numeral at, just above or just below the midpoint of two adjacent values of the datatype's value
/// space (f32 for xsd:float, f64 otherwise): rounding it in two steps, or from a truncated prefix, gives the wrong neighbour
fn midpoint_lex(r: &mut Rng, float32: bool) -> String {
    let digits = if float32 {
        let e = r.range(127 - 40, 127 + 60) as u32; let x = f32::from_bits((e << 23) | (r.next() as u32 & 0x007f_ffff)); let y = f32::from_bits(x.to_bits() + 1);
        let m = (f64::from(x) + f64::from(y)) / 2.0; // exact: both have 24-bit significands
        let s = format!("{m:.120}"); s.trim_end_matches('0').to_string() + if s.trim_end_matches('0').ends_with('.') { "0" } else { "" }
    } else {
        let k = r.range(1, 40) as u32; let m = (r.next() >> 11) | (1 << 52); let x = (m as u128) << k; let mid = x + (1u128 << (k - 1));
        format!("{mid}.0")
    };
    let s = match r.below(4) {
        0 => digits,                                   // the tie itself (round half to even)
        1 => format!("{digits}{}1", "0".repeat(r.below(30))), // just above
        _ => { // just below: decrement the last non-zero digit and append nines
            let mut ch: Vec<char> = digits.trim_end_matches('0').trim_end_matches('.').chars().collect();
            let had_point = ch.contains(&'.');
            if let Some(p) = ch.iter().rposition(|c| c.is_ascii_digit() && *c != '0') { ch[p] = char::from(ch[p] as u8 - 1); for q in p + 1..ch.len() { if ch[q] == '0' { ch[q] = '9'; } } }
            let t: String = ch.into_iter().collect(); format!("{t}{}{}", if had_point { "" } else { "." }, "9".repeat(r.range(12, 40)))
        }
    };
    if r.chance(1, 2) { format!("-{s}") } else { s }
}
fn random_int_lex(r: &mut Rng, dt: &str) -> String {
    let v: i128 = match r.below(4) {
        0 => *r.pick(&int_boundaries(dt)),
        1 => { let w = r.range(1, 70) as u32; let m = ((r.next() as u128) << 64 | r.next() as u128) >> (128 - w); if r.chance(1, 2) { -(m as i128) } else { m as i128 } }
        2 => r.below(300) as i128 - 150,
        _ => { let b = *r.pick(&int_boundaries(dt)); b + r.below(5) as i128 - 2 }
    };
    let mut s = v.abs().to_string();
    if r.chance(1, 5) { s = format!("{}{s}", "0".repeat(r.range(1, 25))); }
    let mut s = if v < 0 { format!("-{s}") } else if r.chance(1, 5) { format!("+{s}") } else if v == 0 && r.chance(1, 3) { format!("-{s}") } else { s };
    if r.chance(1, 12) { let (a, b) = *r.pick(&PADS); s = format!("{a}{s}{b}"); }
    if r.chance(1, 12) { let pos = r.below(s.chars().count() + 1); let ins = *r.pick(&["x", ".", "e", "-", "+", " ", "_", "٣", "\u{0}"]); let mut t: Vec<char> = s.chars().collect(); for (k, ch) in ins.chars().enumerate() { t.insert(pos + k, ch); } s = t.into_iter().collect(); }
    s
}
fn random_case(r: &mut Rng) -> Case {
    match r.below(12) {
        0 => Case::Native(match r.below(3) { 0 => Native::I32((r.next() as i32) >> r.below(32)), 1 => Native::Isize((r.next() as isize) >> r.below(64)), _ => Native::Usize((r.next() as usize) >> r.below(64)) }),
        1 => { let n = r.below(8); let pool = ['a', 'Z', '0', ' ', '"', '\\', '\n', '\r', '\t', '\u{0}', '\u{1f}', '\u{7f}', 'é', '\u{d7ff}', '\u{e000}', '\u{fffd}', '\u{fffe}', '\u{ffff}', '\u{10000}', '\u{10ffff}', '<', '>', '^', '@', '.']; Case::Native(Native::Str((0..n).map(|_| *r.pick(&pool)).collect())) }
        2 | 3 => Case::Native(Native::F64(random_f64(r))),
        4 | 5 => Case::F64Batch((0..500).map(|_| random_f64(r)).collect()),
        6 | 7 | 8 => { let dt = *r.pick(&CONV_DTS[..16]); Case::Conv(lit_dt(&random_int_lex(r, if int_facets(&xsd(dt)).is_some() { dt } else { "integer" }), &xsd(dt))) }
        9 | 10 => { let dt = *r.pick(&["double", "float", "decimal", "double", "float", "decimal", "integer", "string"]);
            let lex = if matches!(dt, "double" | "float") && r.chance(1, 4) { midpoint_lex(r, dt == "float") } else if r.chance(1, 3) { r.pick(&FLOAT_FORMS).to_string() } else { let x = random_f64(r); let mut s = match r.below(4) { 0 => format!("{x}"), 1 => format!("{x:e}"), 2 => format!("{x:E}"), _ => format!("{:.*}", r.below(20), x) };
                if r.chance(1, 6) { s = format!("+{s}"); } if r.chance(1, 10) { let (a, b) = *r.pick(&PADS); s = format!("{a}{s}{b}"); } if r.chance(1, 10) { s = s.replace('.', ""); } if r.chance(1, 12) { s.push_str(*r.pick(&["e", "e+", "f", "d", ".", "e1.5", "_0"])); } s };
            Case::Conv(lit_dt(&lex, &xsd(dt))) }
        _ => { let dt = *r.pick(&CONV_DTS); let lex = r.pick(&["5", "-5", "true", "false", "1", "0", "1.5", "NaN", "", "2024-01-01T00:00:00Z"]).to_string(); if r.chance(1, 4) { Case::Conv(lit_lang(&lex, "en")) } else { Case::Conv(lit_dt(&lex, &xsd(dt))) } }
    }
}

fn main() {
    let a = parse_args();
    let default_hook = std::panic::take_hook();
    std::panic::set_hook(Box::new(move |info| { if !QUIET.load(Ordering::SeqCst) { default_hook(info) } }));
    let mut cx = Ctx { sum: Summary::default(), cases: vec![], seen: Default::default(), verbose: a.only.is_some() };
    cx.sum.rule = "case = either a native value (i32/isize/usize/bool/str/f64: every extreme, zero and negative zero, subnormals, infinities, NaNs, 17-digit and huge/tiny-exponent doubles, strings with control and non-characters) checked through the Term API, SimpleTerm, ArcTerm, RcTerm and an N-Triples write+read, \
or a term (literals of the 13 integer datatypes, decimal, double, float, boolean, other datatypes, language-tagged, non-literals; lexical forms at and around every datatype and native bound, signed, zero-padded, whitespace-padded, malformed) converted with try_from_term to all five native types, \
or a batch of 500 random doubles (oracle only); non-trivial = everything except literals whose datatype no conversion accepts; distinct = distinct (kind, value/term)".into();
    let fixed = fixed_cases();
    let base = Rng::new(a.seed);
    let range: Vec<usize> = match a.only { Some(i) => vec![i], None => (0..a.n).collect() };
    for idx in range {
        let case = if idx < fixed.len() { fixed[idx].clone() } else { random_case(&mut base.fork(idx as u64)) };
        if a.only.is_some() { println!("CASE {idx}: {case:?}"); }
        let key = format!("{case:?}");
        let trivial = matches!(&case, Case::Conv(t) if t.is_literal() && t.language_tag().is_none() && !CONV_DTS[..17].iter().any(|d| t.datatype().unwrap().as_str() == xsd(d)));
        let before = cx.sum.oracle_failures.len();
        match &case {
            Case::Native(v) => { run_native(&mut cx, idx, v); cx.sum.evaluations += 1; }
            Case::Conv(t) => { run_conv(&mut cx, idx, t); cx.sum.evaluations += 1; }
            Case::F64Batch(xs) => { for x in xs { run_f64(&mut cx, idx, *x, None); } cx.sum.evaluations += xs.len() as u64; cx.sum.bump("f64-batches"); }
        }
        if cx.seen.insert(key.clone()) && !trivial { cx.sum.distinct_nontrivial += 1; }
        if a.only.is_some() { if let Some((_, b)) = cx.cases.last() { println!("COQ: {b}"); } println!("oracle failures on this case: {}", cx.sum.oracle_failures.len() - before); }
        if cx.sum.samples.len() < 6 && idx % 97 == 5 { cx.sum.samples.push(format!("case {idx}: {key}")); }
    }
    if a.only.is_none() {
        let header = "From Sophia.C20 Require Import Model.\nOpen Scope N_scope.\n";
        cx.sum.shards = write_shards(&a.out, header, &cx.cases, a.shards);
        cx.sum.extra.push(("coq_cases".into(), cx.cases.len().to_string()));
        cx.sum.extra.push(("fixed_boundary_cases".into(), fixed.len().to_string()));
        if a.n < fixed.len() { eprintln!("c20: --n {} is smaller than the {} fixed boundary cases; some boundaries were not run", a.n, fixed.len()); }
        std::fs::write(format!("{}/summary.json", a.out), cx.sum.to_json()).unwrap();
    }
    println!("c20: {} evaluations, {} coq cases, {} distinct non-trivial, {} oracle failures", cx.sum.evaluations, cx.cases.len(), cx.sum.distinct_nontrivial, cx.sum.oracle_failures.len());
    for (k, v) in &cx.sum.dist { if a.only.is_none() { println!("  {k}: {v}"); } }
}
