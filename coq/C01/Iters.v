(* C01/Iters.v -- the cached-flag iterators of inmem/src/{graph,dataset}/_iter.rs are filters:
   decoding every row in full and testing every matcher on every row gives the same list. *)
From Coq Require Import Permutation.
From Sophia.C01 Require Import Model Sets.

Section Iters.
Variable max : N.
Variable ti : tindex.
Notation gt := (get_term ti).
Notation ggn := (get_graph_name max ti).

(* a cache entry is consistent: its term and flag are those of its index *)
Definition tcons (m : tmatcher) (d : tdata) : Prop :=
  td_t d = gt (td_i d) /\ td_b d = tm_pred m (td_t d).
Definition gcons (m : gmatcher) (d : gdata) : Prop :=
  gd_t d = ggn (gd_i d) /\ gd_b d = gm_pred m (gd_t d).

Lemma tcache_step m d i : tcons m d ->
  let d' := (if negb (N.eqb i (td_i d)) then td_update ti m i else d) in
  td_t d' = gt i /\ td_b d' = tm_pred m (gt i) /\ tcons m d'.
Proof.
  intros [H1 H2]. destruct (N.eqb_spec i (td_i d)) as [->|Hne]; cbn.
  - split; [exact H1|]. split; [rewrite H2, H1; reflexivity | split; auto].
  - split; [reflexivity|]. split; [reflexivity|]. split; reflexivity.
Qed.
Lemma gcache_step m d i : gcons m d ->
  let d' := (if negb (N.eqb i (gd_i d)) then gd_update max ti m i else d) in
  gd_t d' = ggn i /\ gd_b d' = gm_pred m (ggn i) /\ gcons m d'.
Proof.
  intros [H1 H2]. destruct (N.eqb_spec i (gd_i d)) as [->|Hne]; cbn.
  - split; [exact H1|]. split; [rewrite H2, H1; reflexivity | split; auto].
  - split; [reflexivity|]. split; [reflexivity|]. split; reflexivity.
Qed.
Lemma tcons_new m i : tcons m (td_new ti m i).
Proof. split; reflexivity. Qed.
Lemma gcons_new m i : gcons m (gd_new max ti m i).
Proof. split; reflexivity. Qed.

(* ---------- graphs ---------- *)
Definition m3 (sm pm om : tmatcher) (t : t3) : bool :=
  let '(s, p, o) := t in tm_pred sm (gt s) && tm_pred pm (gt p) && tm_pred om (gt o).
Definition m3bc (bm cm : tmatcher) (t : t3) : bool :=
  let '(a, b, c) := t in tm_pred bm (gt b) && tm_pred cm (gt c).

Lemma spo_loop_spec sm pm om rows : forall s p o, tcons sm s -> tcons pm p ->
  spo_loop ti sm pm om s p o rows = map (dec3 ti) (filter (m3 sm pm om) rows).
Proof.
  induction rows as [|[[si pi] oi] rest IH]; intros s p o Hs Hp; [reflexivity|].
  cbn [spo_loop filter m3].
  destruct (tcache_step sm s si Hs) as (Ht & Hb & Hc).
  set (s' := if negb (si =? td_i s) then td_update ti sm si else s) in *.
  rewrite Hb. destruct (tm_pred sm (gt si)); cbn [negb andb]; [|apply IH; auto].
  destruct (tcache_step pm p pi Hp) as (Ht2 & Hb2 & Hc2).
  set (p' := if negb (pi =? td_i p) then td_update ti pm pi else p) in *.
  rewrite Hb2. destruct (tm_pred pm (gt pi)); cbn [negb andb]; [|apply IH; auto].
  cbn [td_update td_b td_t].
  destruct (tm_pred om (gt oi)); cbn [negb map]; [|apply IH; auto].
  rewrite Ht, Ht2. cbn [dec3]. f_equal. apply IH; auto.
Qed.

Theorem spo_boxed_spec rows sm pm om :
  spo_boxed ti rows sm pm om = map (dec3 ti) (filter (m3 sm pm om) rows).
Proof.
  destruct rows as [|[[si pi] oi] rest]; [reflexivity|].
  unfold spo_boxed. apply spo_loop_spec; apply tcons_new.
Qed.

Lemma bc_loop_spec bm cm a rows : forall b c, tcons bm b ->
  bc_loop ti bm cm a b c rows =
  map (fun '(ai, bi, ci) => (a, gt bi, gt ci)) (filter (m3bc bm cm) rows).
Proof.
  induction rows as [|[[ai bi] ci] rest IH]; intros b c Hb0; [reflexivity|].
  cbn [bc_loop filter m3bc].
  destruct (tcache_step bm b bi Hb0) as (Ht & Hb & Hc).
  set (b' := if negb (bi =? td_i b) then td_update ti bm bi else b) in *.
  rewrite Hb. destruct (tm_pred bm (gt bi)); cbn [negb andb]; [|apply IH; auto].
  cbn [td_update td_b td_t].
  destruct (tm_pred cm (gt ci)); cbn [negb map]; [|apply IH; auto].
  rewrite Ht. f_equal. apply IH; auto.
Qed.

Theorem bc_boxed_spec rows bm cm back a0 :
  (forall a b c, In (a, b, c) rows -> a = a0) ->
  bc_boxed ti rows bm cm back = map (fun r => back (dec3 ti r)) (filter (m3bc bm cm) rows).
Proof.
  intros Hall. destruct rows as [|[[ai bi] ci] rest]; [reflexivity|].
  unfold bc_boxed. rewrite bc_loop_spec by apply tcons_new. rewrite map_map.
  apply map_ext_in. intros [[a b] c] Hin. apply filter_In in Hin. destruct Hin as [Hin _].
  rewrite (Hall a b c Hin), (Hall ai bi ci (or_introl eq_refl)). reflexivity.
Qed.

(* ---------- datasets ---------- *)
Definition gdec (t : t4) : gq := let '(a, b, c, d) := t in (ggn a, ggn b, ggn c, ggn d).
Definition m4 (gm : gmatcher) (sm pm om : tmatcher) (t : t4) : bool :=
  let '(g, s, p, o) := t in
  gm_pred gm (ggn g) && tm_pred sm (gt s) && tm_pred pm (gt p) && tm_pred om (gt o).
Definition m4bcd (bm cm dm : gmatcher) (t : t4) : bool :=
  let '(a, b, c, d) := t in gm_pred bm (ggn b) && gm_pred cm (ggn c) && gm_pred dm (ggn d).
Definition m4cd (cm dm : gmatcher) (t : t4) : bool :=
  let '(a, b, c, d) := t in gm_pred cm (ggn c) && gm_pred dm (ggn d).

Lemma gspo_loop_spec gm sm pm om rows : forall g s p o, gcons gm g -> tcons sm s -> tcons pm p ->
  gspo_loop max ti gm sm pm om g s p o rows = map (dec4 max ti) (filter (m4 gm sm pm om) rows).
Proof.
  induction rows as [|[[[gi si] pi] oi] rest IH]; intros g s p o Hg Hs Hp; [reflexivity|].
  cbn [gspo_loop filter m4].
  destruct (gcache_step gm g gi Hg) as (Ht0 & Hb0 & Hc0).
  set (g' := if negb (gi =? gd_i g) then gd_update max ti gm gi else g) in *.
  rewrite Hb0. destruct (gm_pred gm (ggn gi)); cbn [negb andb]; [|apply IH; auto].
  destruct (tcache_step sm s si Hs) as (Ht & Hb & Hc).
  set (s' := if negb (si =? td_i s) then td_update ti sm si else s) in *.
  rewrite Hb. destruct (tm_pred sm (gt si)); cbn [negb andb]; [|apply IH; auto].
  destruct (tcache_step pm p pi Hp) as (Ht2 & Hb2 & Hc2).
  set (p' := if negb (pi =? td_i p) then td_update ti pm pi else p) in *.
  rewrite Hb2. destruct (tm_pred pm (gt pi)); cbn [negb andb]; [|apply IH; auto].
  cbn [td_update td_b td_t].
  destruct (tm_pred om (gt oi)); cbn [negb map]; [|apply IH; auto].
  rewrite Ht0, Ht, Ht2. cbn [dec4]. f_equal. apply IH; auto.
Qed.

Theorem gspo_boxed_spec rows gm sm pm om :
  gspo_boxed max ti rows gm sm pm om = map (dec4 max ti) (filter (m4 gm sm pm om) rows).
Proof.
  destruct rows as [|[[[gi si] pi] oi] rest]; [reflexivity|].
  unfold gspo_boxed. apply gspo_loop_spec; first [apply gcons_new | apply tcons_new].
Qed.

Lemma bcd_loop_spec bm cm dm a rows : forall b c d, gcons bm b -> gcons cm c ->
  bcd_loop max ti bm cm dm a b c d rows =
  map (fun '(ai, bi, ci, di) => (a, ggn bi, ggn ci, ggn di)) (filter (m4bcd bm cm dm) rows).
Proof.
  induction rows as [|[[[ai bi] ci] di] rest IH]; intros b c d Hb0 Hc0; [reflexivity|].
  cbn [bcd_loop filter m4bcd].
  destruct (gcache_step bm b bi Hb0) as (Ht & Hb & Hc).
  set (b' := if negb (bi =? gd_i b) then gd_update max ti bm bi else b) in *.
  rewrite Hb. destruct (gm_pred bm (ggn bi)); cbn [negb andb]; [|apply IH; auto].
  destruct (gcache_step cm c ci Hc0) as (Ht2 & Hb2 & Hc2).
  set (c' := if negb (ci =? gd_i c) then gd_update max ti cm ci else c) in *.
  rewrite Hb2. destruct (gm_pred cm (ggn ci)); cbn [negb andb]; [|apply IH; auto].
  cbn [gd_update gd_b gd_t].
  destruct (gm_pred dm (ggn di)); cbn [negb map]; [|apply IH; auto].
  rewrite Ht, Ht2. f_equal. apply IH; auto.
Qed.

Theorem bcd_boxed_spec rows bm cm dm back a0 :
  (forall a b c d, In (a, b, c, d) rows -> a = a0) ->
  bcd_boxed max ti rows bm cm dm back =
  map (fun r => quad_of_gq (back (gdec r))) (filter (m4bcd bm cm dm) rows).
Proof.
  intros Hall. destruct rows as [|[[[ai bi] ci] di] rest]; [reflexivity|].
  unfold bcd_boxed. rewrite bcd_loop_spec by apply gcons_new. rewrite map_map.
  apply map_ext_in. intros [[[a b] c] d] Hin. apply filter_In in Hin. destruct Hin as [Hin _].
  rewrite (Hall a b c d Hin), (Hall ai bi ci di (or_introl eq_refl)). reflexivity.
Qed.

Lemma cd_loop_spec cm dm a b rows : forall c d, gcons cm c ->
  cd_loop max ti cm dm a b c d rows =
  map (fun '(ai, bi, ci, di) => (a, b, ggn ci, ggn di)) (filter (m4cd cm dm) rows).
Proof.
  induction rows as [|[[[ai bi] ci] di] rest IH]; intros c d Hc0; [reflexivity|].
  cbn [cd_loop filter m4cd].
  destruct (gcache_step cm c ci Hc0) as (Ht2 & Hb2 & Hc2).
  set (c' := if negb (ci =? gd_i c) then gd_update max ti cm ci else c) in *.
  rewrite Hb2. destruct (gm_pred cm (ggn ci)); cbn [negb andb]; [|apply IH; auto].
  cbn [gd_update gd_b gd_t].
  destruct (gm_pred dm (ggn di)); cbn [negb map]; [|apply IH; auto].
  rewrite Ht2. f_equal. apply IH; auto.
Qed.

Theorem cd_boxed_spec rows cm dm back a0 b0 :
  (forall a b c d, In (a, b, c, d) rows -> a = a0 /\ b = b0) ->
  cd_boxed max ti rows cm dm back =
  map (fun r => quad_of_gq (back (gdec r))) (filter (m4cd cm dm) rows).
Proof.
  intros Hall. destruct rows as [|[[[ai bi] ci] di] rest]; [reflexivity|].
  unfold cd_boxed. rewrite cd_loop_spec by apply gcons_new. rewrite map_map.
  apply map_ext_in. intros [[[a b] c] d] Hin. apply filter_In in Hin. destruct Hin as [Hin _].
  destruct (Hall a b c d Hin) as [-> ->]. destruct (Hall ai bi ci di (or_introl eq_refl)) as [-> ->].
  reflexivity.
Qed.

End Iters.
