(* C16/PrettyChainProofs.v -- the pretty writer on a chain of blank nodes: with the guard of the
   code the depth is bounded by a constant whatever the length of the chain AND whatever the
   indentation configured; the brackets and labels written do not depend on the indentation;
   a guard deduced from the indentation string is refuted by the empty indentation. *)
From Sophia.C16 Require Import Model Proofs PrettyChain.

Lemma emit_depth t : depth (emit t) = 2%nat. Proof. reflexivity. Qed.
Lemma emit_res t : res (emit t) = t. Proof. reflexivity. Qed.

(* ------------------------------------------------------------------------------------------ *)
(** * Depth with the guard of the code                                                         *)
(* ------------------------------------------------------------------------------------------ *)
Lemma props_depth m unit typed n : forall fuel i d ind,
  (depth (props_c (counter_guard m) unit typed n fuel i d ind) <= 5 * (m - d) + 7)%nat.
Proof.
  induction fuel as [|f IH]; intros i d ind; [cbn; lia|].
  cbn [props_c]. rewrite depth_call, depth_bind.
  assert (Hpre : (depth (if typed then emit [] else emit [PNewline (ind + unit)]) = 2)%nat)
    by (destruct typed; reflexivity).
  rewrite Hpre. clear Hpre.
  set (pre := res (if typed then emit [] else emit [PNewline (ind + unit)])).
  rewrite depth_bind.
  match goal with |- context [if typed then call ?o else ?o] => set (object := o) end.
  assert (Hobj : (depth object <= 5 * (m - d) + 5)%nat).
  { unfold object. rewrite !depth_call. destruct (n <=? S i)%nat.
    - rewrite depth_bind, emit_depth, depth_ret. lia.
    - unfold counter_guard at 1. destruct (m <=? S d)%nat eqn:G.
      + rewrite depth_bind, emit_depth, depth_ret. lia.
      + apply Nat.leb_gt in G. rewrite depth_bind, emit_depth, emit_res, depth_bind.
        specialize (IH (S i) (S d) (ind + unit + unit)%nat).
        destruct (res (props_c (counter_guard m) unit typed n f (S i) (S d) (ind + unit + unit))) as [inner roots].
        rewrite depth_bind, emit_depth, depth_ret. lia. }
  assert (Hw : (depth (if typed then call object else object) <= 5 * (m - d) + 6)%nat)
    by (destruct typed; [rewrite depth_call|]; lia).
  destruct (res (if typed then call object else object)) as [obj roots].
  rewrite depth_ret. lia.
Qed.

Lemma trees_depth m unit typed n : forall fuel root,
  (depth (trees_c (counter_guard m) unit typed n fuel root) <= 5 * m + 8)%nat.
Proof.
  induction fuel as [|f IH]; intros root; [cbn; lia|].
  cbn [trees_c]. rewrite depth_bind.
  set (tree := call _).
  assert (Ht : (depth tree <= 5 * m + 8)%nat).
  { unfold tree. rewrite depth_call, depth_bind, emit_depth, depth_bind.
    assert (Hl : (depth (if (root =? 0)%nat then call (emit []) else call (call (emit [PLabel root]))) <= 4)%nat)
      by (destruct (root =? 0)%nat; cbn; lia).
    pose proof (props_depth m unit typed n (S n) root 0 0) as Hp. rewrite Nat.sub_0_r in Hp.
    rewrite depth_bind.
    destruct (res (props_c (counter_guard m) unit typed n (S n) root 0 0)) as [p roots].
    rewrite depth_bind, emit_depth, depth_ret. lia. }
  destruct (res tree) as [t roots]. destruct roots as [|r rs].
  - rewrite depth_ret. lia.
  - rewrite depth_bind, depth_ret. specialize (IH r). lia.
Qed.

(* pinned: no term for the length of the chain, none for the indentation *)
Theorem chain_depth_bounded unit typed n :
  (depth (chain_doc_c (counter_guard MAX_DEPTH) unit typed n) <= 5 * MAX_DEPTH + 11)%nat.
Proof.
  unfold chain_doc_c. rewrite !depth_call.
  pose proof (trees_depth MAX_DEPTH unit typed n (S n) 0). lia.
Qed.

(* ------------------------------------------------------------------------------------------ *)
(** * The brackets and labels do not depend on the indentation                                 *)
(* ------------------------------------------------------------------------------------------ *)
Lemma no_newlines_app a b : no_newlines (a ++ b) = no_newlines a ++ no_newlines b.
Proof. unfold no_newlines. apply filter_app. Qed.

Lemma props_shape m typed n u1 u2 : forall fuel i d ind1 ind2,
  no_newlines (fst (res (props_c (counter_guard m) u1 typed n fuel i d ind1))) =
  no_newlines (fst (res (props_c (counter_guard m) u2 typed n fuel i d ind2))) /\
  snd (res (props_c (counter_guard m) u1 typed n fuel i d ind1)) =
  snd (res (props_c (counter_guard m) u2 typed n fuel i d ind2)).
Proof.
  induction fuel as [|f IH]; intros i d ind1 ind2; [split; reflexivity|].
  cbn [props_c]. rewrite !res_call, !res_bind.
  assert (Hpre : forall u ind, no_newlines (res (if typed then emit [] else emit [PNewline (ind + u)])) = [])
    by (intros; destruct typed; reflexivity).
  assert (Hw : forall (o : C (list ptok * list nat)), res (if typed then call o else o) = res o)
    by (intros; destruct typed; reflexivity).
  rewrite !Hw, !res_call.
  destruct (n <=? S i)%nat.
  - rewrite !res_bind, !emit_res, !res_ret. cbn [fst snd]. rewrite !no_newlines_app, !Hpre. split; reflexivity.
  - change (counter_guard m (S d) (ind1 + u1 + u1)%nat) with (m <=? S d)%nat.
    change (counter_guard m (S d) (ind2 + u2 + u2)%nat) with (m <=? S d)%nat.
    destruct (m <=? S d)%nat.
    + rewrite !res_bind, !emit_res, !res_ret. cbn [fst snd]. rewrite !no_newlines_app, !Hpre. split; reflexivity.
    + rewrite !res_bind, !emit_res.
      destruct (IH (S i) (S d) (ind1 + u1 + u1)%nat (ind2 + u2 + u2)%nat) as [E1 E2].
      destruct (res (props_c (counter_guard m) u1 typed n f (S i) (S d) (ind1 + u1 + u1))) as [in1 r1].
      destruct (res (props_c (counter_guard m) u2 typed n f (S i) (S d) (ind2 + u2 + u2))) as [in2 r2].
      cbn [fst snd] in E1, E2. rewrite !res_bind, !emit_res, !res_ret. cbn [fst snd].
      rewrite !no_newlines_app, !Hpre, E1, E2. split; reflexivity.
Qed.

Lemma trees_shape m typed n u1 u2 : forall fuel root,
  no_newlines (res (trees_c (counter_guard m) u1 typed n fuel root)) =
  no_newlines (res (trees_c (counter_guard m) u2 typed n fuel root)).
Proof.
  induction fuel as [|f IH]; intros root; [reflexivity|].
  cbn [trees_c]. rewrite !res_bind, !res_call, !res_bind, !emit_res.
  destruct (props_shape m typed n u1 u2 (S n) root 0 0 0) as [E1 E2].
  destruct (res (props_c (counter_guard m) u1 typed n (S n) root 0 0)) as [p1 r1].
  destruct (res (props_c (counter_guard m) u2 typed n (S n) root 0 0)) as [p2 r2].
  cbn [fst snd] in E1, E2. subst r2. rewrite !res_bind, !emit_res, !res_ret.
  destruct r1 as [|r rs].
  - rewrite !res_ret, !no_newlines_app, E1. reflexivity.
  - rewrite !res_bind, !res_ret, !no_newlines_app, E1, (IH r). reflexivity.
Qed.

(* pinned: two indentations, the same brackets, labels and statements *)
Theorem chain_shape_indent_independent u1 u2 typed n :
  no_newlines (res (chain_doc_c (counter_guard MAX_DEPTH) u1 typed n)) =
  no_newlines (res (chain_doc_c (counter_guard MAX_DEPTH) u2 typed n)).
Proof. unfold chain_doc_c. rewrite !res_call. apply trees_shape. Qed.

(* ------------------------------------------------------------------------------------------ *)
(** * A guard deduced from the indentation string: refuted by the empty indentation            *)
(* ------------------------------------------------------------------------------------------ *)
Lemma props_depth_noguard m n : forall fuel i d ind, (i < n)%nat -> (n - i <= fuel)%nat ->
  (n - i <= depth (props_c (indent_guard m 0) 0 false n fuel i d ind))%nat.
Proof.
  induction fuel as [|f IH]; intros i d ind Li Lf; [lia|].
  cbn [props_c]. rewrite depth_call, depth_bind, emit_depth, depth_bind, !depth_call.
  destruct (n <=? S i)%nat eqn:E.
  - apply Nat.leb_le in E. lia.
  - apply Nat.leb_gt in E.
    change (indent_guard m 0 (S d) (ind + 0 + 0)%nat) with false. cbv iota.
    rewrite depth_bind, emit_depth, emit_res, depth_bind.
    specialize (IH (S i) (S d) (ind + 0 + 0)%nat E ltac:(lia)).
    destruct (res (props_c (indent_guard m 0) 0 false n f (S i) (S d) (ind + 0 + 0))) as [inner roots].
    rewrite depth_bind, emit_depth, depth_ret.
    match goal with |- context [res ?x] => destruct (res x) end.
    rewrite depth_ret. lia.
Qed.
Theorem indent_guard_refuted : forall c : nat, exists n,
  (depth (chain_doc_c (indent_guard MAX_DEPTH 0) 0 false n) > c)%nat.
Proof.
  intros c. exists (S c). unfold chain_doc_c. rewrite !depth_call. cbn [trees_c].
  rewrite depth_bind, depth_call, depth_bind, emit_depth, depth_bind. cbn [Nat.eqb].
  pose proof (props_depth_noguard MAX_DEPTH (S c) (S (S c)) 0 0 0 ltac:(lia) ltac:(lia)) as H.
  rewrite depth_bind.
  destruct (res (props_c (indent_guard MAX_DEPTH 0) 0 false (S c) (S (S c)) 0 0 0)) as [p roots].
  rewrite depth_bind, emit_depth, depth_ret. lia.
Qed.
