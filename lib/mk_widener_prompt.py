#!/usr/bin/env python3
"""usage: mk_widener_prompt.py <Cxx>  -> /tmp/widenprompt-<Cxx>.txt and build/cov/report-<Cxx>.txt"""
import json, os, subprocess, sys
ROOT = os.path.dirname(os.path.dirname(os.path.abspath(__file__)))
sys.path.insert(0, os.path.join(ROOT, "lib"))
import props
pid = sys.argv[1]
p = [json.loads(l) for l in open(os.path.join(ROOT, "properties.jsonl")) if json.loads(l)["id"] == pid][0]
bins = [r["bin"] for r in props.PROPS[pid]["runs"]]
rep = subprocess.run([sys.executable, os.path.join(ROOT, "lib", "cov_report.py"), pid], capture_output=True, text=True).stdout
open(os.path.join(ROOT, "build", "cov", "report-%s.txt" % pid), "w").write(rep)
t = open(os.path.join(ROOT, "lib", "prompts", "widener.txt")).read()
t = (t.replace("@ID@", pid).replace("@TITLE@", p["title"]).replace("@STATEMENT@", p["statement"])
      .replace("@BINS@", " ".join(bins)).replace("@BIN@", bins[0]))
if len(bins) > 1:
    t += "\nNB: this property has several harness binaries: %s (a line counts as uncovered only if none of them runs it); extend whichever fits.\n" % ", ".join(bins)
open("/tmp/widenprompt-%s.txt" % pid, "w").write(t)
print("/tmp/widenprompt-%s.txt" % pid, len(rep.splitlines()), "report lines")
