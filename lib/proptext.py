#!/usr/bin/env python3
"""print the text of one property (for briefing independent mutation agents)"""
import json, sys
for l in open('/verif/properties.jsonl'):
    p = json.loads(l)
    if p['id'] == sys.argv[1]:
        mech = p['anchors'].get('mechanism', [])
        mech = " ".join(m if isinstance(m, str) else json.dumps(m) for m in mech)
        print("%s — %s\n\nStatement: %s\n\nQuantifier: %s\n\nWhy tests cannot settle it: %s\n\nAnchored files: %s\nMechanism: %s" % (
            p['id'], p['title'], p['statement'], p['quantifier']['text'], p['why_tests_cant'], ", ".join(p['anchors']['files']), mech))
