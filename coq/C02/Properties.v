(* C02/Properties.v -- pinned statements of property C02. *)
From Sophia.C02 Require Import Model Proofs.
From Sophia.gen Require Consts.

(* the model's kind order is the one the source declares (re-generated from `enum TermKind`) *)
Check (eq_refl : (kind_rank KBnode, kind_rank KIri, kind_rank KLiteral, kind_rank KTriple, kind_rank KVariable)
               = (Consts.termkind_BlankNode, Consts.termkind_Iri, Consts.termkind_Literal, Consts.termkind_Triple, Consts.termkind_Variable)).
Theorem kind_ranks_from_source :
  (kind_rank KBnode, kind_rank KIri, kind_rank KLiteral, kind_rank KTriple, kind_rank KVariable)
  = (Consts.termkind_BlankNode, Consts.termkind_Iri, Consts.termkind_Literal, Consts.termkind_Triple, Consts.termkind_Variable).
Proof. reflexivity. Qed.
(* blank nodes < IRIs < literals < quoted triples < variables, for the generated numbers *)
Theorem kind_chain_from_source :
  (Consts.termkind_BlankNode < Consts.termkind_Iri /\ Consts.termkind_Iri < Consts.termkind_Literal
   /\ Consts.termkind_Literal < Consts.termkind_Triple /\ Consts.termkind_Triple < Consts.termkind_Variable)%N.
Proof. repeat split; reflexivity. Qed.

(* equality is an equivalence relation *)
Check (term_eqb_refl : forall a, term_eqb a a = true).
Check (term_eqb_sym : forall a b, term_eqb a b = term_eqb b a).
Check (term_eqb_trans : forall a b c, term_eqb a b = true -> term_eqb b c = true -> term_eqb a c = true).
(* equal terms hash identically *)
Check (eq_same_hash : forall a b, term_eqb a b = true -> hash_stream a = hash_stream b).
(* comparison is a total order, Equal exactly on equal terms *)
Check (term_cmp_antisym : forall a b, wf a -> wf b -> term_cmp b a = CompOpp (term_cmp a b)).
Check (term_cmp_trans : forall c x y z, wf x -> wf y -> wf z ->
  term_cmp x y = c -> term_cmp y z = c -> term_cmp x z = c).
Check (term_cmp_eq : forall a b, wf a -> wf b -> (term_cmp a b = Eq <-> term_eqb a b = true)).
Check (term_cmp_total : forall a b, wf a -> wf b ->
  term_cmp a b = Lt \/ term_eqb a b = true \/ term_cmp b a = Lt).
Check (kind_order : forall a b, (kind_rank (kind_of a) < kind_rank (kind_of b))%N -> term_cmp a b = Lt).
(* the one overridden eq (NsTerm) coincides with the default *)
Check (ns_term_eq_is_default : forall ns suffix other,
  ns_iri_eqb ns suffix other = term_eqb (Iri (ns ++ suffix)) (Iri other)).

Print Assumptions kind_ranks_from_source.
Print Assumptions kind_chain_from_source.
Print Assumptions term_eqb_refl.
Print Assumptions term_eqb_sym.
Print Assumptions term_eqb_trans.
Print Assumptions eq_same_hash.
Print Assumptions term_cmp_antisym.
Print Assumptions term_cmp_trans.
Print Assumptions term_cmp_eq.
Print Assumptions term_cmp_total.
Print Assumptions kind_order.
Print Assumptions ns_term_eq_is_default.
