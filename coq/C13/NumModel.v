(* C13/NumModel.v -- sparql/src/value/_number.rs: SparqlNumber's unary minus, abs, + - * /,
   comparison and the coercion between its five representations, AFTER fixes C13-a (checked
   negation falling back to BigInt) and C13-b (abs in the BigInt arm); the pre-fix arms are
   [neg0] / [abs0].  isize is Z with explicit range checks exactly where the code uses
   checked_* operations; a plain isize operator is an [outcome] that is [Panic] on overflow
   (dev profile: overflow-checks).  Decimals and floats are parameters.  Definitions only. *)
From Sophia.Common Require Import Prelude.
Local Open Scope Z_scope.

Definition isize_min : Z := - 2 ^ 63.
Definition isize_max : Z := 2 ^ 63 - 1.
Definition in_isize (z : Z) : bool := (isize_min <=? z) && (z <=? isize_max).

Inductive outcome (A : Type) := Val (a : A) | Panic.
Arguments Val {A}. Arguments Panic {A}.

(* isize::checked_add / checked_sub / checked_mul / checked_neg / checked_abs *)
Definition checked (z : Z) : option Z := if in_isize z then Some z else None.
(* plain `-x` and `x.abs()` on isize *)
Definition plain_neg (z : Z) : outcome Z := if in_isize (- z) then Val (- z) else Panic.
Definition plain_abs (z : Z) : outcome Z := if in_isize (Z.abs z) then Val (Z.abs z) else Panic.

Record floatlib := mkF {
  dec : Type; flt : Type; dbl : Type;
  dec_of_Z : Z -> dec;                       (* BigDecimal::from / from_isize *)
  dec_add : dec -> dec -> dec; dec_sub : dec -> dec -> dec; dec_mul : dec -> dec -> dec;
  dec_div : dec -> dec -> dec; dec_neg : dec -> dec; dec_abs : dec -> dec;
  dec_is_zero : dec -> bool; dec_cmp : dec -> dec -> comparison;
  flt_of_Z : Z -> flt; flt_of_dec : dec -> flt; flt_of_dbl : dbl -> flt;
  flt_add : flt -> flt -> flt; flt_sub : flt -> flt -> flt; flt_mul : flt -> flt -> flt;
  flt_div : flt -> flt -> flt; flt_neg : flt -> flt; flt_abs : flt -> flt;
  flt_cmp : flt -> flt -> option comparison;
  dbl_of_Z : Z -> dbl; dbl_of_dec : dec -> dbl; dbl_of_flt : flt -> dbl;
  dbl_add : dbl -> dbl -> dbl; dbl_sub : dbl -> dbl -> dbl; dbl_mul : dbl -> dbl -> dbl;
  dbl_div : dbl -> dbl -> dbl; dbl_neg : dbl -> dbl; dbl_abs : dbl -> dbl;
  dbl_cmp : dbl -> dbl -> option comparison
}.

Section Num.
Variable F : floatlib.

Inductive num :=
| NativeInt (z : Z)
| BigInt (z : Z)
| Decimal (d : dec F)
| Float (f : flt F)
| Double (d : dbl F).

(* impl Neg (after fix a) *)
Definition neg (n : num) : option num :=
  match n with
  | NativeInt z => Some (match checked (- z) with          (* inner.checked_neg() *)
                         | Some v => NativeInt v
                         | None => BigInt (- z)             (* -BigInt::from(inner) *)
                         end)
  | BigInt z => Some (BigInt (- z))
  | Decimal d => Some (Decimal (dec_neg F d))
  | Float f => Some (Float (flt_neg F f))
  | Double d => Some (Double (dbl_neg F d))
  end.
(* before: Some((-inner).into()) *)
Definition neg0 (n : num) : outcome (option num) :=
  match n with
  | NativeInt z => match plain_neg z with Val v => Val (Some (NativeInt v)) | Panic => Panic end
  | _ => Val (neg n)
  end.

(* SparqlNumber::abs (after fixes a and b) *)
Definition abs (n : num) : num :=
  match n with
  | NativeInt z => match checked (Z.abs z) with            (* inner.checked_abs() *)
                   | Some v => NativeInt v
                   | None => BigInt (- z)
                   end
  | BigInt z => BigInt (Z.abs z)
  | Decimal d => Decimal (dec_abs F d)
  | Float f => Float (flt_abs F f)
  | Double d => Double (dbl_abs F d)
  end.
(* before: NativeInt => inner.abs(), BigInt => inner.clone() *)
Definition abs0 (n : num) : outcome num :=
  match n with
  | NativeInt z => match plain_abs z with Val v => Val (NativeInt v) | Panic => Panic end
  | BigInt z => Val (BigInt z)
  | _ => Val (abs n)
  end.

(* coerce_to_decimal (integers only) / coerce_to_float / coerce_to_double *)
Definition to_dec (n : num) : option (dec F) :=
  match n with
  | NativeInt z | BigInt z => Some (dec_of_Z F z)
  | Decimal d => Some d
  | _ => None
  end.
Definition to_flt (n : num) : flt F :=
  match n with
  | NativeInt z | BigInt z => flt_of_Z F z
  | Decimal d => flt_of_dec F d
  | Float f => f
  | Double d => flt_of_dbl F d
  end.
Definition to_dbl (n : num) : dbl F :=
  match n with
  | NativeInt z | BigInt z => dbl_of_Z F z
  | Decimal d => dbl_of_dec F d
  | Float f => dbl_of_flt F f
  | Double d => d
  end.

(* coercing_operator: the first applicable row *)
Definition coercing {O : Type}
  (fint : Z -> Z -> option O) (fbig : Z -> Z -> option O)
  (fdec : dec F -> dec F -> option O) (fflt : flt F -> flt F -> option O)
  (fdbl : dbl F -> dbl F -> option O) (a b : num) : option O :=
  match a, b with
  | Double x, _ => fdbl x (to_dbl b)
  | _, Double y => fdbl (to_dbl a) y
  | Float x, _ => fflt x (to_flt b)
  | _, Float y => fflt (to_flt a) y
  | Decimal x, Decimal y => fdec x y
  | Decimal x, (NativeInt y | BigInt y) => fdec x (dec_of_Z F y)
  | (NativeInt x | BigInt x), Decimal y => fdec (dec_of_Z F x) y
  | BigInt x, BigInt y | NativeInt x, BigInt y | BigInt x, NativeInt y => fbig x y
  | NativeInt x, NativeInt y =>
      match fint x y with Some o => Some o | None => fbig x y end
  end.

Definition add (a b : num) : option num :=
  coercing (fun x y => option_map NativeInt (checked (x + y)))     (* isize::checked_add *)
           (fun x y => Some (BigInt (x + y)))
           (fun x y => Some (Decimal (dec_add F x y)))
           (fun x y => Some (Float (flt_add F x y)))
           (fun x y => Some (Double (dbl_add F x y))) a b.
Definition sub (a b : num) : option num :=
  coercing (fun x y => option_map NativeInt (checked (x - y)))
           (fun x y => Some (BigInt (x - y)))
           (fun x y => Some (Decimal (dec_sub F x y)))
           (fun x y => Some (Float (flt_sub F x y)))
           (fun x y => Some (Double (dbl_sub F x y))) a b.
Definition mul (a b : num) : option num :=
  coercing (fun x y => option_map NativeInt (checked (x * y)))
           (fun x y => Some (BigInt (x * y)))
           (fun x y => Some (Decimal (dec_mul F x y)))
           (fun x y => Some (Float (flt_mul F x y)))
           (fun x y => Some (Double (dbl_mul F x y))) a b.
(* integers divide as decimals; division by zero is an error except on floats *)
Definition div (a b : num) : option num :=
  coercing (fun _ _ => None)
           (fun x y => if y =? 0 then None
                       else Some (Decimal (dec_div F (dec_of_Z F x) (dec_of_Z F y))))
           (fun x y => if dec_is_zero F y then None else Some (Decimal (dec_div F x y)))
           (fun x y => Some (Float (flt_div F x y)))
           (fun x y => Some (Double (dbl_div F x y))) a b.
Definition num_cmp (a b : num) : option comparison :=
  coercing (fun x y => Some (x ?= y)) (fun x y => Some (x ?= y))
           (fun x y => Some (dec_cmp F x y)) (flt_cmp F) (dbl_cmp F) a b.
Definition num_eq (a b : num) : bool :=
  match num_cmp a b with Some Eq => true | _ => false end.

(* the mathematical value of an integer representation *)
Definition int_val (n : num) : option Z :=
  match n with NativeInt z | BigInt z => Some z | _ => None end.
(* a NativeInt always holds an isize *)
Definition num_wf (n : num) : Prop :=
  match n with NativeInt z => in_isize z = true | _ => True end.

(* Two REPRESENTATIONS of the same number.  The converse of [num_wf] does not hold: a BigInt may
   hold an isize -- the fbig closures of + - * wrap their result in BigInt whatever its size
   (100000000000000000030 - 100000000000000000000 is BigInt 30), and so do neg / abs on a BigInt.
   [num_sim] relates the representations of one number; NumProofs.v shows that no operator can
   tell them apart (comparisons coerce a NativeInt operand to BigInt, never the other way). *)
Definition num_sim (a b : num) : Prop :=
  match a, b with
  | (NativeInt x | BigInt x), (NativeInt y | BigInt y) => x = y
  | Decimal x, Decimal y => x = y
  | Float x, Float y => x = y
  | Double x, Double y => x = y
  | _, _ => False
  end.
Definition osim (a b : option num) : Prop :=
  match a, b with
  | Some x, Some y => num_sim x y
  | None, None => True
  | _, _ => False
  end.
(* the representation that parsing (try_parse_integer, From<iN>) chooses for the same number *)
Definition normalize (n : num) : num :=
  match n with
  | BigInt z => if in_isize z then NativeInt z else BigInt z
  | _ => n
  end.
End Num.
