(* C12/RoundTripDoc.v -- the emitted document as a whole: which nodes are rendered, and what the fresh-free reader
   ([doc_back], [doc_ghosts], [doc_vis] of Back.v) finds in it. *)
From Coq Require Import Permutation.
From Sophia.C12 Require Import Model Proofs Back BackProofs RoundTripFacts RoundTripValues.

(* ---------- lists ---------- *)
Lemma flat_map_flat_map {A B X} (f : B -> list X) (g : A -> list B) (l : list A) :
  flat_map f (flat_map g l) = flat_map (fun x => flat_map f (g x)) l.
Proof. induction l as [|a l IH]; simpl; [reflexivity|]. rewrite flat_map_app, IH. reflexivity. Qed.
Lemma flat_map_map {A B X} (f : B -> list X) (g : A -> B) (l : list A) :
  flat_map f (map g l) = flat_map (fun x => f (g x)) l.
Proof. induction l as [|a l IH]; simpl; [reflexivity|]. rewrite IH. reflexivity. Qed.
Lemma NoDup_flat_map_inj {A B} (f : A -> list B) (l : list A) :
  NoDup l -> (forall x, In x l -> NoDup (f x)) ->
  (forall x y b, In x l -> In y l -> In b (f x) -> In b (f y) -> x = y) ->
  NoDup (flat_map f l).
Proof.
  induction l as [|a l IH]; simpl; intros Hnd H1 H2; [constructor|]. inversion Hnd; subst.
  apply NoDup_app_intro.
  - apply H1. auto.
  - apply IH; auto. intros x y b Hx Hy. apply H2; auto.
  - intros b Hb1 Hb2. apply in_flat_map in Hb2 as [y [Hy Hb2]].
    assert (a = y) by (eapply H2; eauto). subst y. contradiction.
Qed.
Lemma NoDup_entries {K V} (l : list (K * V)) : NoDup (map fst l) -> NoDup l.
Proof.
  induction l as [|e l IH]; simpl; intros H; [constructor|]. inversion H; subst. constructor; [|auto].
  intros Hin. apply H2. apply in_map. exact Hin.
Qed.

(* ---------- the value vectors have no duplicates ---------- *)
Lemma pat_node_push ns k0 p0 x k p :
  pat (node_push ns k0 p0 x) k p =
  if nkey_eqb k0 k && pkey_eqb p0 p then vec_push_if_new (pat ns k p) x else pat ns k p.
Proof.
  unfold pat. rewrite aget_node_push. destruct (nkey_eqb_spec k0 k) as [->|Hn]; simpl; [|reflexivity].
  rewrite aget_props_push. destruct (pkey_eqb_spec p0 p) as [->|Hp].
  - destruct (aget nkey_eqb ns k) as [ps|]; simpl; [|reflexivity]. destruct (aget pkey_eqb ps p); reflexivity.
  - destruct (aget nkey_eqb ns k) as [ps|]; reflexivity.
Qed.
Lemma vec_push_nodup v x : NoDup v -> NoDup (vec_push_if_new v x).
Proof.
  intros H. unfold vec_push_if_new. destruct (existsb (robj_eqb x) v) eqn:E; [exact H|].
  apply NoDup_app_intro; [exact H|constructor; [tauto|constructor]|].
  intros y Hy [<-|[]]. apply existsb_robj in Hy. congruence.
Qed.

Section PatNoDup.
Variable info : N -> tinfo.
Variable o : opts.
Definition pat_nd (ns : list (nkey * props)) : Prop := forall k p, NoDup (pat ns k p).
Lemma pat_nd_index ns k0 : pat_nd ns -> pat_nd (index ns k0).
Proof. intros H k p. rewrite pat_index. apply H. Qed.
Lemma pat_nd_push ns k0 p0 x : pat_nd ns -> pat_nd (node_push ns k0 p0 x).
Proof.
  intros H k p. rewrite pat_node_push. destruct (nkey_eqb k0 k && pkey_eqb p0 p); [apply vec_push_nodup|]; apply H.
Qed.
Lemma pat_nd_step st q : pat_nd (nodes st) -> pat_nd (nodes (process_quad info o st q)).
Proof.
  intros H. unfold process_quad. destruct (negb (is_jsonld info q)); [exact H|]. simpl.
  apply pat_nd_push.
  assert (H2 : pat_nd match qg q with
                      | Some g => node_push (index (index (nodes st) (skey q)) (None, g)) (None, g) PGraph (ONode (skey q))
                      | None => index (nodes st) (skey q) end).
  { destruct (qg q); [apply pat_nd_push|]; repeat apply pat_nd_index; exact H. }
  destruct (is_lit info (qo q)); [|apply pat_nd_index]; exact H2.
Qed.
Lemma pat_nd_process d : pat_nd (nodes (process info o d)).
Proof.
  unfold process. assert (H : pat_nd (nodes st0)) by (intros k p; constructor).
  revert H. generalize st0. induction d as [|q d IH]; intros st H; simpl; [exact H|].
  apply IH. apply pat_nd_step. exact H.
Qed.
End PatNoDup.

(* ---------- one traversal for the three readings of a document ---------- *)
Section Flat.
Context {X : Type}.
Variable fn : option N -> jnode -> list X.          (* per node *)
Variable fp : N -> list X.                          (* per property *)
Variable fv : option N -> N -> N -> jval -> list X. (* per value *)
Definition node_flat (g : option N) (n : jnode) : list X :=
  fn g n ++ flat_map (fun e => fp (fst e) ++ flat_map (fv g (j_id n) (fst e)) (snd e)) (j_props n).
Definition top_flat (t : jtop) : list X :=
  node_flat None (j_node t)
  ++ match j_graph t with Some ns => flat_map (node_flat (Some (j_id (j_node t)))) ns | None => [] end.
Definition doc_flat (doc : list jtop) : list X := flat_map top_flat doc.
End Flat.

Definition back_fn (g : option N) (n : jnode) : list quad := map (fun t => mkQ (j_id n) c_type t g) (j_types n).
Definition back_fv (g : option N) (s p : N) (v : jval) : list quad := mkQ s p (fst (val_back g v)) g :: snd (val_back g v).
Lemma doc_back_flat doc : doc_back doc = doc_flat back_fn (fun _ => []) back_fv doc.
Proof. reflexivity. Qed.
Lemma doc_ghosts_flat doc : doc_ghosts doc = doc_flat (fun _ _ => []) (fun _ => []) (fun _ _ _ v => val_ghosts v) doc.
Proof. reflexivity. Qed.
Lemma doc_vis_flat doc :
  doc_vis doc = doc_flat (fun _ n => j_id n :: j_types n) (fun p => [p]) (fun _ _ _ v => val_vis v) doc.
Proof. reflexivity. Qed.

Section Doc.
Variable info : N -> tinfo.
Variable o : opts.
Variable d : list quad.
Hypothesis Hwf : wf_info info.
Notation s := (process info o d).
Notation D := (filter (is_jsonld info) d).
Notation L := (list_nodes info o (process info o d)).
Notation C := (compounds info o (process info o d)).
Notation cv := (convert info (process info o d) (list_nodes info o (process info o d)) (compounds info o (process info o d))).
Notation cnv := (conv info (process info o d) (list_nodes info o (process info o d)) (compounds info o (process info o d))).
Notation mknode := (make_node info (process info o d) (list_nodes info o (process info o d)) (compounds info o (process info o d))).
Notation jinner := (jsonify_inner info (process info o d) (list_nodes info o (process info o d)) (compounds info o (process info o d))).
Notation jroot := (jsonify_root info (process info o d) (list_nodes info o (process info o d)) (compounds info o (process info o d))).
Notation hh := (hgt info o d).
Notation BB := (Bnd info o d).
Notation HI' := (HI info o d).
Notation supp' := (supp info o d).
Notation ghostly' := (ghostly info o d).

Lemma serialise_document : serialise info o d = document info s L C.
Proof. reflexivity. Qed.

Lemma entry_get k ps : In (k, ps) (nodes s) -> get_node s k = ps.
Proof.
  intros H. destruct (inv_wf _ _ _ _ HI') as [Hnd _]. unfold get_node.
  rewrite (In_aget _ nkey_eqb_spec _ _ _ Hnd H). reflexivity.
Qed.
Lemma get_entry k : get_node s k <> [] -> In (k, get_node s k) (nodes s).
Proof.
  intros H. pose proof (key_in_of_nonempty _ _ H) as Hk. apply in_keys_entry in Hk as [ps Hps].
  rewrite (entry_get _ _ Hps). exact Hps.
Qed.

(* ---------- rendered nodes ---------- *)
Definition rendered (a : nkey) : Prop :=
  get_node s a <> [] /\ suppressed L C a = false
  /\ match fst a with
     | None => True
     | Some gn => In (ONode a) (pat (nodes s) (None, gn) PGraph) /\ suppressed L C (None, gn) = false
     end.

Definition graph_members (v : list robj) : list jnode :=
  flat_map (fun x => match x with ONode k2 => opt_list (jinner k2) | OLit _ => [] end) v.
Lemma jroot_some k ps t : jroot (k, ps) = Some t <->
  ps <> [] /\ fst k = None /\ suppressed L C k = false
  /\ t = mkTop (mknode k ps) (match get_prop ps PGraph with Some v => Some (graph_members v) | None => None end).
Proof.
  unfold jsonify_root. destruct ps as [|e ps].
  - split; [discriminate|]. intros [H _]. congruence.
  - destruct (fst k); [split; [discriminate|intros [_ [H _]]; discriminate]|].
    destruct (suppressed L C k); [split; [discriminate|intros [_ [_ [H _]]]; discriminate]|].
    split.
    + intros E. injection E as <-. repeat split; auto. discriminate.
    + intros [_ [_ [_ ->]]]. reflexivity.
Qed.
Lemma jinner_some k2 n : jinner k2 = Some n <->
  get_node s k2 <> [] /\ suppressed L C k2 = false /\ n = mknode k2 (get_node s k2).
Proof.
  unfold jsonify_inner. destruct (get_node s k2) as [|e ps] eqn:E.
  - split; [discriminate|]. intros [H _]. congruence.
  - destruct (suppressed L C k2); [split; [discriminate|intros [_ [H _]]; discriminate]|].
    split.
    + intros E'. injection E' as <-. repeat split; auto. discriminate.
    + intros [_ [_ ->]]. reflexivity.
Qed.

(* the members of the @graph entry of (None, g) are nodes of graph g *)
Lemma graph_member_key gn k2 : In (ONode k2) (pat (nodes s) (None, gn) PGraph) -> fst k2 = Some gn.
Proof.
  intros H. apply (inv_pat _ _ _ _ HI') in H as [q [Hq [[_ [E _]]|[g [Eg [Ek [_ Ex]]]]]]].
  - destruct (pkey_of_cases info o q) as [E'|E']; rewrite E' in E; discriminate.
  - injection Ek as ->. injection Ex as ->. exact Eg.
Qed.

Section Inversion.
Context {X : Type}.
Variable fn : option N -> jnode -> list X.
Variable fp : N -> list X.
Variable fv : option N -> N -> N -> jval -> list X.

Lemma in_doc_flat y : In y (doc_flat fn fp fv (document info s L C)) <->
  exists a, rendered a /\ In y (node_flat fn fp fv (fst a) (mknode a (get_node s a))).
Proof.
  unfold doc_flat, document. rewrite flat_map_flat_map, in_flat_map. split.
  - intros [[k ps] [He Hy]]. apply in_flat_map in Hy as [t [Ht Hy]].
    destruct (jroot (k, ps)) as [t'|] eqn:Er; [|destruct Ht]. destruct Ht as [<-|[]].
    apply jroot_some in Er as [Hne [Hg [Hs ->]]]. pose proof (entry_get _ _ He) as Eps.
    unfold top_flat in Hy. simpl in Hy. apply in_app_iff in Hy as [Hy|Hy].
    + exists k. split; [|rewrite Hg, Eps; exact Hy]. split; [rewrite Eps; exact Hne|]. split; [exact Hs|]. rewrite Hg. exact Logic.I.
    + destruct (get_prop ps PGraph) as [v|] eqn:Ev; [|destruct Hy].
      apply in_flat_map in Hy as [n [Hn Hy]]. unfold graph_members in Hn.
      apply in_flat_map in Hn as [x [Hx Hn]]. destruct x as [l|k2]; [destruct Hn|].
      destruct (jinner k2) as [n'|] eqn:Ei; [|destruct Hn]. destruct Hn as [<-|[]].
      apply jinner_some in Ei as [Hne2 [Hs2 ->]].
      assert (Ek : k = (None, snd k)) by (rewrite <- Hg; apply nkey_eta).
      assert (Hpat : In (ONode k2) (pat (nodes s) (None, snd k) PGraph)).
      { rewrite <- Ek. eapply get_prop_In; [rewrite Eps; exact Ev|exact Hx]. }
      pose proof (graph_member_key _ _ Hpat) as Eg2.
      exists k2. split; [|rewrite Eg2; exact Hy]. split; [exact Hne2|]. split; [exact Hs2|].
      rewrite Eg2. split; [exact Hpat|]. rewrite <- Ek. exact Hs.
  - intros [a [[Hne [Hs Hg]] Hy]]. destruct (fst a) as [gn|] eqn:Ea.
    + destruct Hg as [Hpat Hsg].
      apply In_pat_get in Hpat as [v [Ev Hx]].
      assert (Hneg : get_node s (None, gn) <> []) by (intros E; rewrite E in Ev; discriminate).
      exists ((None, gn), get_node s (None, gn)). split; [apply get_entry; exact Hneg|].
      destruct (jroot ((None, gn), get_node s (None, gn))) as [t|] eqn:Er.
      * apply jroot_some in Er as [_ [_ [_ ->]]]. simpl. rewrite app_nil_r. unfold top_flat. simpl.
        apply in_app_iff. right. rewrite Ev. apply in_flat_map.
        exists (mknode a (get_node s a)). split; [|exact Hy].
        unfold graph_members. apply in_flat_map. exists (ONode a). split; [exact Hx|].
        destruct (jinner a) as [n|] eqn:Ei.
        -- apply jinner_some in Ei as [_ [_ ->]]. simpl. auto.
        -- exfalso. assert (H : jinner a = Some (mknode a (get_node s a))) by (apply jinner_some; auto). congruence.
      * exfalso. assert (H : jroot ((None, gn), get_node s (None, gn)) = Some
                   (mkTop (mknode (None, gn) (get_node s (None, gn)))
                          (match get_prop (get_node s (None, gn)) PGraph with Some v => Some (graph_members v) | None => None end)))
          by (apply jroot_some; auto). congruence.
    + exists (a, get_node s a). split; [apply get_entry; exact Hne|].
      destruct (jroot (a, get_node s a)) as [t|] eqn:Er.
      * apply jroot_some in Er as [_ [_ [_ ->]]]. simpl. rewrite app_nil_r. unfold top_flat. simpl.
        apply in_app_iff. left. exact Hy.
      * exfalso. assert (H : jroot (a, get_node s a) = Some
                   (mkTop (mknode a (get_node s a))
                          (match get_prop (get_node s a) PGraph with Some v => Some (graph_members v) | None => None end)))
          by (apply jroot_some; auto). congruence.
Qed.

(* inside one rendered node *)
Lemma in_node_flat g a y : In y (node_flat fn fp fv g (mknode a (get_node s a))) <->
  In y (fn g (mknode a (get_node s a)))
  \/ exists p vs, get_prop (get_node s a) (PIri p) = Some vs
       /\ (In y (fp p) \/ exists x, In x vs /\ In y (fv g (snd a) p (cnv x))).
Proof.
  unfold node_flat. rewrite in_app_iff. apply or_iff_compat_l.
  destruct (get_node_wf _ _ _ _ HI' a) as [Hnd _].
  unfold make_node. simpl j_props. simpl j_id. unfold node_props.
  rewrite flat_map_flat_map, in_flat_map. split.
  - intros [[pk vs] [He Hy]]. simpl in Hy. destruct pk as [| |p]; try destruct Hy.
    simpl in Hy. rewrite app_nil_r in Hy. exists p, vs. split.
    + unfold get_prop. apply (In_aget _ pkey_eqb_spec _ _ _ Hnd He).
    + apply in_app_iff in Hy as [Hy|Hy]; [left; exact Hy|]. right. rewrite flat_map_map in Hy.
      apply in_flat_map in Hy as [x [Hx Hy]]. eauto.
  - intros [p [vs [Ev Hy]]]. exists (PIri p, vs). split; [apply (aget_In _ pkey_eqb_spec); exact Ev|].
    simpl. rewrite app_nil_r. apply in_app_iff. destruct Hy as [Hy|[x [Hx Hy]]]; [left; exact Hy|].
    right. rewrite flat_map_map. apply in_flat_map. eauto.
Qed.
End Inversion.

Notation vprops' := (vprops info o d).
Notation valq' := (valq info d).
Notation doc := (document info (process info o d) (list_nodes info o (process info o d)) (compounds info o (process info o d))).

(* ---------- the values of the rendered nodes ---------- *)
Lemma stored_valq a p x : In x (pat (nodes s) a (PIri p)) -> valq' x a p.
Proof.
  intros H. apply (sound_iri _ _ _ _ HI') in H as [q [Hq [Ea [Ep Ex]]]]. exists q. auto.
Qed.
Lemma conv_props a p x : valq' x a p -> vprops' (fst a) x (cnv x).
Proof.
  intros H. unfold conv. apply (value_props info o d Hwf x a p); [exact H|].
  intros k pk _ _. apply (NF_big info o d).
Qed.
Lemma quad_eta' q : mkQ (snd (skey q)) (qp q) (qo q) (fst (skey q)) = q.
Proof. destruct q; reflexivity. Qed.

Lemma pkey_of_blank q : is_blank info (qo q) = true -> pkey_of info o q = PIri (qp q).
Proof.
  intros H. unfold pkey_of.
  assert (E : is_iri info (qo q) = false) by (unfold is_iri, is_blank in *; destruct (kind info (qo q)); congruence).
  rewrite E, andb_false_r. reflexivity.
Qed.

(* ---------- (S1, first half) everything read back is a quad of the input ---------- *)
Lemma back_sound y : In y (doc_back doc) -> In y D.
Proof.
  rewrite doc_back_flat, in_doc_flat. intros [a [Hr Hy]].
  apply in_node_flat in Hy as [Hy|[p [vs [Ev [[]|[x [Hx Hy]]]]]]].
  - (* @type *)
    unfold back_fn, make_node in Hy. simpl in Hy. apply in_map_iff in Hy as [t [<- Ht]].
    unfold node_types in Ht. destruct (get_prop (get_node s a) PType) as [v|] eqn:Ev; [|destruct Ht].
    apply in_flat_map in Ht as [x [Hx Ht]]. destruct x as [l|k']; [destruct Ht|]. destruct Ht as [<-|[]].
    assert (Hp : In (ONode k') (pat (nodes s) a PType)) by (eapply get_prop_In; eauto).
    apply (inv_pat _ _ _ _ HI') in Hp as [q [Hq [[E1 [E2 E3]]|[g [_ [_ [E _]]]]]]]; [|discriminate].
    pose proof (type_shortcut_lossless info o q) as Hreg. rewrite <- E1, <- E2, <- E3 in Hreg. simpl in Hreg.
    injection Hreg as <-. exact Hq.
  - (* a value *)
    assert (Hv : valq' x a p) by (apply stored_valq; eapply get_prop_In; eauto).
    pose proof (conv_props a p x Hv) as VP. destruct Hv as [q [Hq [Ea [Ep Ex]]]].
    destruct Hy as [<-|Hy].
    + rewrite (vp_term _ _ _ _ _ _ VP), Ex, term_of_obj, <- Ea, <- Ep, quad_eta'. exact Hq.
    + exact (vp_aux _ _ _ _ _ _ VP y Hy).
Qed.

(* ---------- rendered nodes ---------- *)
Lemma nonempty_of_quad q : In q D -> get_node s (skey q) <> [].
Proof.
  intros Hq E. pose proof (complete_obj _ _ _ _ HI' q Hq) as H. rewrite pat_get, E in H. destruct H.
Qed.
Lemma rendered_of_subject q : In q D -> suppressed L C (skey q) = false -> rendered (skey q).
Proof.
  intros Hq Hs. split; [apply nonempty_of_quad; exact Hq|]. split; [exact Hs|].
  simpl. destruct (qg q) as [gn|] eqn:Eg; [|exact Logic.I].
  split; [apply (complete_graph _ _ _ _ HI' q gn Hq Eg)|].
  destruct (suppressed L C (None, gn)) eqn:E; [|reflexivity]. exfalso.
  apply (supp_suppressed info o d) in E. apply (supp_nograph info o d _ q E Hq). exact Eg.
Qed.
Lemma unsupp_of_blank_object q : In q D -> is_blank info (qo q) = true -> aget nkey_eqb L (skey q) = None ->
  suppressed L C (skey q) = false.
Proof.
  intros Hq Hb Hm. unfold suppressed, is_marked. rewrite Hm. simpl.
  destruct (is_comp C (skey q)) eqn:E; [|reflexivity]. exfalso. unfold is_comp in E. apply existsb_nkey in E.
  destruct (cf_subj _ _ _ _ (C_facts info o d (skey q) E) q Hq eq_refl) as [_ [Hl _]].
  apply (lit_not_blank info) in Hl. congruence.
Qed.

(* v is rendered (as a sub-value) somewhere in the document, in graph g *)
Definition anchored_in (g : gkey) (v : jval) : Prop :=
  exists a p x, rendered a /\ fst a = g /\ In x (pat (nodes s) a (PIri p))
    /\ (forall y, In y (snd (val_back g v)) -> In y (snd (val_back g (cnv x)))).
Lemma anchored_in_back g v y : anchored_in g v -> In y (snd (val_back g v)) -> In y (doc_back doc).
Proof.
  intros [a [p [x [Hr [Eg [Hx Hincl]]]]]] Hy. rewrite doc_back_flat, in_doc_flat. exists a. split; [exact Hr|].
  apply in_node_flat. right. apply In_pat_get in Hx as [vs [Ev Hx]]. exists p, vs. split; [exact Ev|]. right.
  exists x. split; [exact Hx|]. unfold back_fv. right. rewrite Eg. apply Hincl. exact Hy.
Qed.
Lemma anchored_in_sub g v v' : anchored_in g v ->
  (forall y, In y (snd (val_back g v')) -> In y (snd (val_back g v))) -> anchored_in g v'.
Proof.
  intros [a [p [x [Hr [Eg [Hx Hincl]]]]]] H. exists a, p, x. split; [exact Hr|]. split; [exact Eg|]. split; [exact Hx|].
  intros y Hy. apply Hincl, H. exact Hy.
Qed.

(* the item and the rest of a marked cell are sub-values of its rendering *)
Lemma marked_children pk ppk f1 : aget nkey_eqb L pk = Some ppk ->
  exists f0 r, In (mkQ (snd pk) c_first f0 (fst pk)) D /\ In (mkQ (snd pk) c_rest r (fst pk)) D
    /\ first_val (get_node s pk) = obj_of info (mkQ (snd pk) c_first f0 (fst pk))
    /\ (forall q, In q D -> qs q = snd pk -> (qp q = c_first /\ qo q = f0) \/ (qp q = c_rest /\ qo q = r))
    /\ (r = c_nil \/ aget nkey_eqb L (fst pk, r) = Some pk)
    /\ (forall y, In y (snd (val_back (fst pk) (cv f1 (first_val (get_node s pk))))) ->
                  In y (snd (val_back (fst pk) (cv (S f1) (ONode pk)))))
    /\ (r <> c_nil -> forall y, In y (snd (val_back (fst pk) (cv (S f1) (ONode (fst pk, r))))) ->
                  In y (snd (val_back (fst pk) (cv (S f1) (ONode pk)))))
    /\ fst (val_back (fst pk) (cv (S f1) (ONode pk))) = snd pk
    /\ (forall t1 t2, fst (val_back (fst pk) (cv f1 (first_val (get_node s pk)))) = t1 ->
           (r = c_nil -> t2 = c_nil) ->
           (r <> c_nil -> fst (val_back (fst pk) (cv (S f1) (ONode (fst pk, r)))) = t2) ->
           In (mkQ (snd pk) c_first t1 (fst pk)) (snd (val_back (fst pk) (cv (S f1) (ONode pk))))
           /\ In (mkQ (snd pk) c_rest t2 (fst pk)) (snd (val_back (fst pk) (cv (S f1) (ONode pk))))).
Proof.
  intros HL. destruct (lf_fr _ _ _ _ _ (L_facts info o d pk ppk HL)) as [f0 [r [Qf [Qr [_ [Er [Ef [Hall Hr]]]]]]]].
  exists f0, r. repeat (split; [assumption|]).
  destruct (convert_marked info o d Hwf pk ppk f1 HL) as [r' [Er' Hcase]]. rewrite Er in Er'. injection Er' as <-.
  destruct Hcase as [[Hnil Hcv]|[Hnn [Hr' [cs' [items' [Hcr Hcv]]]]]]; rewrite Hcv, back_cons; cbn [fst snd].
  - split; [intros y Hy; right; right; apply in_app_iff; auto|]. split; [intros Hn; contradiction|].
    split; [reflexivity|]. intros t1 t2 E1 E2 _. rewrite E1, (E2 Hnil). simpl. auto.
  - split; [intros y Hy; right; right; apply in_app_iff; auto|].
    split; [intros _ y Hy; rewrite Hcr in Hy; right; right; apply in_app_iff; auto|].
    split; [reflexivity|]. intros t1 t2 E1 _ E3. rewrite E1. rewrite <- Hcr, (E3 Hnn). simpl. auto.
Qed.

(* every marked node is rendered inside a rendered node *)
Lemma marked_anchor : forall n k pk, hh k = n -> aget nkey_eqb L k = Some pk ->
  exists f, (BB < f + hh k)%nat /\ anchored_in (fst k) (cv f (ONode k)).
Proof.
  induction n as [n IH] using lt_wf_ind. intros k pk Hn HL.
  pose proof (L_facts info o d k pk HL) as F.
  destruct (L_parent info o d k pk HL) as [pp [[q0 [Hq0 [Eo [Es Ep]]]] _]].
  destruct (h_step info o d k pk HL) as [Ehk Hbk].
  assert (Eg0 : qg q0 = fst k) by (rewrite <- (lf_graph _ _ _ _ _ F), <- Es; reflexivity).
  assert (Hb0 : is_blank info (qo q0) = true) by (rewrite Eo; exact (lf_blank _ _ _ _ _ F)).
  assert (Ex0 : obj_of info q0 = ONode k).
  { rewrite (obj_of_blank info q0 Hb0), Eg0, Eo. f_equal. symmetry. apply nkey_eta. }
  destruct (aget nkey_eqb L pk) as [ppk|] eqn:Hpk.
  - (* the parent is a marked cell: k is its item or its rest *)
    destruct (h_step info o d pk ppk Hpk) as [Ehpk _].
    destruct (IH (hh pk) ltac:(lia) pk ppk eq_refl Hpk) as [fpk [Hfpk Hanc]].
    destruct fpk as [|f1]; [lia|].
    destruct (marked_children pk ppk f1 Hpk) as [f0 [r [Qf [Qr [Ef [Hall [Hr [Hitem [Hrest _]]]]]]]]].
    assert (Es0 : qs q0 = snd pk) by (rewrite <- Es; reflexivity).
    rewrite (lf_graph _ _ _ _ _ F) in *.
    destruct (Hall q0 Hq0 Es0) as [[Ep0 Eo0]|[Ep0 Eo0]].
    + exists f1. split; [lia|]. apply (anchored_in_sub _ _ _ Hanc). intros y Hy. apply Hitem.
      rewrite Ef. unfold obj_of. simpl. rewrite <- Eo0.
      replace (is_lit info (qo q0)) with false by (symmetry; unfold is_lit, is_blank in *; destruct (kind info (qo q0)); congruence).
      rewrite Eo. rewrite <- nkey_eta. exact Hy.
    + exists (S f1). split; [lia|]. apply (anchored_in_sub _ _ _ Hanc). intros y Hy.
      assert (Hnn : r <> c_nil). { rewrite <- Eo0, Eo. apply (blank_not_nil info Hwf). exact (lf_blank _ _ _ _ _ F). }
      apply (Hrest Hnn). rewrite <- Eo0, Eo, <- nkey_eta. exact Hy.
  - (* the parent is rendered as a node *)
    exists (NF info o d). split; [apply (NF_big info o d)|].
    rewrite <- Es in Hpk. pose proof (unsupp_of_blank_object q0 Hq0 Hb0 Hpk) as Hs.
    exists (skey q0), (qp q0), (ONode k). split; [apply rendered_of_subject; assumption|].
    split; [exact Eg0|]. split; [|intros y Hy; exact Hy].
    rewrite <- Ex0, <- (pkey_of_blank q0 Hb0). apply (complete_obj _ _ _ _ HI'). exact Hq0.
Qed.

(* the two quads of a marked cell are in its rendering *)
Lemma marked_own_quads k pk f q : aget nkey_eqb L k = Some pk -> (BB < f + hh k)%nat ->
  In q D -> skey q = k -> In q (snd (val_back (fst k) (cv f (ONode k)))).
Proof.
  intros HL Hf Hq Ek. destruct (h_step info o d k pk HL) as [Ehk Hbk]. destruct f as [|f1]; [lia|].
  destruct (marked_children k pk f1 HL) as [f0 [r [Qf [Qr [Ef [Hall [Hr [_ [_ [_ Hown]]]]]]]]]].
  assert (E1 : fst (val_back (fst k) (cv f1 (first_val (get_node s k)))) = f0).
  { rewrite Ef.
    assert (VI : vprops' (fst (skey (mkQ (snd k) c_first f0 (fst k)))) (obj_of info (mkQ (snd k) c_first f0 (fst k)))
                         (cv f1 (obj_of info (mkQ (snd k) c_first f0 (fst k))))).
    { apply (value_props info o d Hwf _ _ c_first); [eexists; eauto|].
      intros k1 pk1 Ex H1. apply obj_of_node in Ex as [_ Ek1]. simpl in Ek1.
      destruct (L_of_quad info o d k1 pk1 _ H1 Qf) as [E _]; [rewrite Ek1; reflexivity|].
      simpl in E. unfold skey in E. simpl in E. rewrite <- nkey_eta in E. subst pk1.
      destruct (h_step info o d k1 k H1). lia. }
    simpl fst in VI. rewrite (vp_term _ _ _ _ _ _ VI), term_of_obj. reflexivity. }
  assert (E3 : r <> c_nil -> fst (val_back (fst k) (cv (S f1) (ONode (fst k, r)))) = r).
  { intros Hnn. destruct Hr as [Hr|Hr]; [contradiction|]. destruct (h_step info o d _ _ Hr).
    assert (VR : vprops' (fst (fst k, r)) (ONode (fst k, r)) (cv (S f1) (ONode (fst k, r)))).
    { apply (marked_props info o d Hwf _ _ Hr). lia. }
    exact (vp_term _ _ _ _ _ _ VR). }
  assert (E2 : exists t2, (r = c_nil -> t2 = c_nil) /\ (r <> c_nil -> fst (val_back (fst k) (cv (S f1) (ONode (fst k, r)))) = t2) /\ t2 = r).
  { destruct (N.eq_dec r c_nil) as [E|E]; [exists c_nil|exists r]; repeat split; auto; try contradiction. }
  destruct E2 as [t2 [E2a [E2b E2c]]]. destruct (Hown f0 t2 E1 E2a E2b) as [H1 H2]. subst t2.
  assert (Es : qs q = snd k) by (rewrite <- Ek; reflexivity).
  assert (Eg : qg q = fst k) by (rewrite <- Ek; reflexivity).
  rewrite (quad_eta q), Es, Eg. destruct (Hall q Hq Es) as [[Ep Eo]|[Ep Eo]]; rewrite Ep, Eo; assumption.
Qed.

(* the rendering of a compound literal *)
Lemma convert_comp kc : In kc C ->
  exists v dd l, (forall f, cv f (ONode kc) = JComp (snd kc) v dd l)
    /\ forall q, In q D -> skey q = kc -> In q (snd (val_back (fst kc) (JComp (snd kc) v dd l))).
Proof.
  intros Hc. pose proof (C_facts info o d kc Hc) as F.
  destruct (compounds_sound info o d kc Hc) as [_ [_ [_ [_ [Hfun _]]]]].
  destruct (cf_val _ _ _ _ F) as [v [dd [Ev [Ed [Qv [Qd Hl]]]]]].
  assert (Hcv : forall lo, (match get_prop (get_node s kc) (PIri c_language) with Some _ as ov => Some (lit_val ov) | None => None end) = lo ->
                forall f, cv f (ONode kc) = JComp (snd kc) v dd lo).
  { intros lo <- f. destruct f; simpl;
      rewrite (proj2 (N.eqb_neq _ _) (blank_not_nil info Hwf _ (cf_blank _ _ _ _ F))), (cf_blank _ _ _ _ F); simpl;
      unfold is_marked; rewrite (cf_unmarked _ _ _ _ F);
      replace (is_comp C kc) with true by (symmetry; unfold is_comp; apply existsb_nkey; exact Hc);
      rewrite Ev, Ed; reflexivity. }
  assert (Hq : forall q q', In q D -> skey q = kc -> In q' D -> qs q' = snd kc -> qg q' = fst kc -> qp q' = qp q -> q = q').
  { intros q q' Hq Ek Hq' Es' Eg' Ep'.
    assert (Es : qs q = snd kc) by (rewrite <- Ek; reflexivity). assert (Eg : qg q = fst kc) by (rewrite <- Ek; reflexivity).
    destruct (Hfun q Hq Es) as [_ [_ [_ Hf]]]. pose proof (Hf q' Hq' Es' Ep') as Eo.
    rewrite (quad_eta q), (quad_eta q'). congruence. }
  destruct Hl as [El|[l [El Ql]]].
  - exists v, dd, None. split; [apply Hcv; rewrite El; reflexivity|].
    intros q Hq0 Ek. simpl.
    destruct (cf_subj _ _ _ _ F q Hq0 ltac:(rewrite <- Ek; reflexivity)) as [_ [_ [Ep|[Ep|Ep]]]].
    + left. symmetry. apply (Hq q _ Hq0 Ek Qv); auto.
    + right. left. symmetry. apply (Hq q _ Hq0 Ek Qd); auto.
    + exfalso. assert (Hin : In (obj_of info q) (pat (nodes s) kc (PIri c_language))).
      { rewrite <- Ek, <- Ep. rewrite <- (pkey_of_not_type info o q) by (rewrite Ep; discriminate).
        apply (complete_obj _ _ _ _ HI'). exact Hq0. }
      rewrite pat_get, El in Hin. destruct Hin.
  - exists v, dd, (Some l). split; [apply Hcv; rewrite El; reflexivity|].
    intros q Hq0 Ek. simpl.
    destruct (cf_subj _ _ _ _ F q Hq0 ltac:(rewrite <- Ek; reflexivity)) as [_ [_ [Ep|[Ep|Ep]]]].
    + left. symmetry. apply (Hq q _ Hq0 Ek Qv); auto.
    + right. right. left. symmetry. apply (Hq q _ Hq0 Ek Qd); auto.
    + right. left. symmetry. apply (Hq q _ Hq0 Ek Ql); auto.
Qed.

Lemma comp_anchor kc f : In kc C -> anchored_in (fst kc) (cv f (ONode kc)).
Proof.
  intros Hc. pose proof (C_facts info o d kc Hc) as F.
  destruct (C_parent info o d kc Hc) as [pk [pp [_ [Eg [[q0 [Hq0 [Eo [Es Ep]]]] _]]]]].
  assert (Eg0 : qg q0 = fst kc) by (rewrite <- Eg, <- Es; reflexivity).
  assert (Hb0 : is_blank info (qo q0) = true) by (rewrite Eo; exact (cf_blank _ _ _ _ F)).
  assert (Ex0 : obj_of info q0 = ONode kc).
  { rewrite (obj_of_blank info q0 Hb0), Eg0, Eo. f_equal. symmetry. apply nkey_eta. }
  (* the rendering does not depend on the fuel *)
  assert (Hfuel : forall f', cv f' (ONode kc) = cv f (ONode kc)).
  { intros f'. destruct (convert_comp kc Hc) as [v [dd [l [E _]]]]. rewrite !E. reflexivity. }
  destruct (aget nkey_eqb L pk) as [ppk|] eqn:Hpk.
  - destruct (marked_anchor (hh pk) pk ppk eq_refl Hpk) as [fpk [Hfpk Hanc]].
    destruct (h_step info o d pk ppk Hpk) as [_ Hb]. destruct fpk as [|f1]; [lia|].
    destruct (marked_children pk ppk f1 Hpk) as [f0 [r [Qf [Qr [Ef [Hall [Hr [Hitem _]]]]]]]].
    assert (Es0 : qs q0 = snd pk) by (rewrite <- Es; reflexivity).
    rewrite Eg in *.
    destruct (Hall q0 Hq0 Es0) as [[Ep0 Eo0]|[Ep0 Eo0]].
    + apply (anchored_in_sub _ _ _ Hanc). intros y Hy. apply Hitem.
      rewrite Ef. unfold obj_of. simpl. rewrite <- Eo0.
      replace (is_lit info (qo q0)) with false by (symmetry; unfold is_lit, is_blank in *; destruct (kind info (qo q0)); congruence).
      rewrite Eo, <- nkey_eta, (Hfuel f1). exact Hy.
    + exfalso. destruct Hr as [Hr|Hr].
      * rewrite <- Eo0, Eo in Hr. apply (blank_not_nil info Hwf _ (cf_blank _ _ _ _ F)). exact Hr.
      * rewrite <- Eo0, Eo, <- nkey_eta in Hr. rewrite (cf_unmarked _ _ _ _ F) in Hr. discriminate.
  - rewrite <- Es in Hpk. pose proof (unsupp_of_blank_object q0 Hq0 Hb0 Hpk) as Hs.
    exists (skey q0), (qp q0), (ONode kc). split; [apply rendered_of_subject; assumption|].
    split; [exact Eg0|]. split.
    + rewrite <- Ex0, <- (pkey_of_blank q0 Hb0). apply (complete_obj _ _ _ _ HI'). exact Hq0.
    + intros y Hy. unfold conv. rewrite (Hfuel (S (length (nodes s)))). exact Hy.
Qed.

(* ---------- (S1, second half) every quad of the input is read back ---------- *)
Lemma back_complete q : In q D -> In q (doc_back doc).
Proof.
  intros Hq. destruct (suppressed L C (skey q)) eqn:Hs.
  - apply (supp_suppressed info o d) in Hs. destruct Hs as [Hm|Hc].
    + apply (is_marked_inv info o d) in Hm as [pk HL].
      destruct (marked_anchor (hh (skey q)) (skey q) pk eq_refl HL) as [f [Hf Hanc]].
      apply (anchored_in_back _ _ _ Hanc). apply (marked_own_quads _ pk); auto.
    + destruct (convert_comp (skey q) Hc) as [v [dd [l [E Hown]]]].
      apply (anchored_in_back _ _ _ (comp_anchor (skey q) O Hc)). rewrite E. apply Hown; auto.
  - rewrite doc_back_flat, in_doc_flat. exists (skey q). split; [apply rendered_of_subject; assumption|].
    apply in_node_flat. destruct (pkey_of_cases info o q) as [Et|Ei].
    + left. unfold back_fn, make_node. simpl. apply in_map_iff. exists (qo q).
      destruct (pkey_of_type info o q Et) as [Ep [Eo _]].
      split; [rewrite <- Ep; destruct q; reflexivity|].
      pose proof (complete_obj _ _ _ _ HI' q Hq) as Hin. rewrite Et, Eo in Hin.
      apply In_pat_get in Hin as [vv [Ev Hx]]. unfold node_types. rewrite Ev.
      apply in_flat_map. exists (ONode (qg q, qo q)). split; [exact Hx|]. simpl. auto.
    + right. pose proof (complete_obj _ _ _ _ HI' q Hq) as Hin. rewrite Ei in Hin.
      pose proof (stored_valq _ _ _ Hin) as Hv. pose proof (conv_props _ _ _ Hv) as VP.
      apply In_pat_get in Hin as [vs [Ev Hx]]. exists (qp q), vs. split; [exact Ev|]. right.
      exists (obj_of info q). split; [exact Hx|]. unfold back_fv. left.
      rewrite (vp_term _ _ _ _ _ _ VP), term_of_obj. apply quad_eta'.
Qed.

(* ---------- (S2) the ghosts: suppressed nodes, each hidden exactly once ---------- *)
Lemma node_ghosts_flat a :
  node_ghosts (mknode a (get_node s a))
  = node_flat (fun _ _ => []) (fun _ => []) (fun _ _ _ v => val_ghosts v) None (mknode a (get_node s a)).
Proof. reflexivity. Qed.
Lemma node_ghost_inv a b : In b (node_ghosts (mknode a (get_node s a))) ->
  exists p x, In x (pat (nodes s) a (PIri p)) /\ In b (val_ghosts (cnv x)).
Proof.
  rewrite node_ghosts_flat. intros H. apply in_node_flat in H as [[]|[p [vs [Ev [[]|[x [Hx Hb]]]]]]].
  exists p, x. split; [eapply get_prop_In; eauto|exact Hb].
Qed.
Lemma ghost_inv b : In b (doc_ghosts doc) ->
  exists a p x, rendered a /\ In x (pat (nodes s) a (PIri p)) /\ In b (val_ghosts (cnv x)).
Proof.
  rewrite doc_ghosts_flat, in_doc_flat. intros [a [Hr Hb]].
  apply in_node_flat in Hb as [[]|[p [vs [Ev [[]|[x [Hx Hb]]]]]]].
  exists a, p, x. split; [exact Hr|]. split; [eapply get_prop_In; eauto|exact Hb].
Qed.
Lemma gclass_supp x kb : gclass info o d x kb -> supp' kb.
Proof. intros [_ _ Hc|k pk _ _ _ Hs]; [right; exact Hc|exact Hs]. Qed.
Lemma value_ghost_supp a p x b : In x (pat (nodes s) a (PIri p)) -> In b (val_ghosts (cnv x)) -> supp' (fst a, b).
Proof.
  intros Hx Hb. pose proof (conv_props a p x (stored_valq _ _ _ Hx)) as VP.
  apply (gclass_supp x). exact (vp_ghosts _ _ _ _ _ _ VP b Hb).
Qed.
Lemma ghost_ghostly b : In b (doc_ghosts doc) -> ghostly' b.
Proof. intros H. destruct (ghost_inv b H) as [a [p [x [_ [Hx Hb]]]]]. exists (fst a). eapply value_ghost_supp; eauto. Qed.

Lemma supp_parent_unique k q1 q2 : supp' k -> In q1 D -> In q2 D -> qo q1 = snd k -> qo q2 = snd k ->
  skey q1 = skey q2 /\ qp q1 = qp q2.
Proof.
  intros [Hm|Hc] H1 H2 E1 E2.
  - apply (is_marked_inv info o d) in Hm as [pk HL]. destruct (L_parent info o d k pk HL) as [pp [_ [Hall _]]].
    destruct (Hall q1 H1 E1), (Hall q2 H2 E2). split; congruence.
  - destruct (C_parent info o d k Hc) as [pk [pp [_ [_ [_ Hall]]]]].
    destruct (Hall q1 H1 E1), (Hall q2 H2 E2). split; congruence.
Qed.

Lemma unsupp_unmarked a : suppressed L C a = false -> aget nkey_eqb L a = None.
Proof.
  unfold suppressed, is_marked. destruct (aget nkey_eqb L a); [discriminate|reflexivity].
Qed.

(* a ghost determines the value, the property and the node under which it is hidden *)
Lemma home_unique a1 p1 x1 a2 p2 x2 b :
  suppressed L C a1 = false -> suppressed L C a2 = false ->
  In x1 (pat (nodes s) a1 (PIri p1)) -> In x2 (pat (nodes s) a2 (PIri p2)) ->
  In b (val_ghosts (cnv x1)) -> In b (val_ghosts (cnv x2)) -> a1 = a2 /\ p1 = p2 /\ x1 = x2.
Proof.
  intros Hs1 Hs2 Hx1 Hx2 Hb1 Hb2.
  pose proof (stored_valq _ _ _ Hx1) as Hv1. pose proof (stored_valq _ _ _ Hx2) as Hv2.
  pose proof (vp_ghosts _ _ _ _ _ _ (conv_props _ _ _ Hv1) b Hb1) as G1.
  pose proof (vp_ghosts _ _ _ _ _ _ (conv_props _ _ _ Hv2) b Hb2) as G2.
  assert (Eg : fst a1 = fst a2) by (eapply (supp_graph_unique info o d); eapply gclass_supp; eauto).
  rewrite <- Eg in G2. set (kb := (fst a1, b)) in *.
  destruct Hv1 as [q1 [Hq1 [Ea1 [Ep1 Ex1]]]]. destruct Hv2 as [q2 [Hq2 [Ea2 [Ep2 Ex2]]]].
  pose proof (unsupp_unmarked _ Hs1) as Hu1. pose proof (unsupp_unmarked _ Hs2) as Hu2.
  (* a compound literal stored in an unmarked node cannot sit below a marked node *)
  assert (Hmix : forall a q x x' k pk, In q D -> skey q = a -> aget nkey_eqb L a = None -> x = obj_of info q ->
            x = ONode kb -> aget nkey_eqb L kb = None -> In kb C ->
            x' = ONode k -> aget nkey_eqb L k = Some pk -> desc info o d (cellof info o d kb) k -> False).
  { intros a q x x' k pk Hq Ea Hu Ex Exk Hukb Hc _ HLk Hd. subst x. apply obj_of_node in Exk as [_ Ekb].
    assert (Ec : cellof info o d kb = a).
    { unfold cellof, is_marked. rewrite Hukb. rewrite (up_of_quad info o d kb q (or_intror Hc) Hq); [exact Ea|].
      rewrite Ekb. reflexivity. }
    rewrite Ec in Hd. apply (desc_unmarked info o d) in Hd; [|exact Hu]. congruence. }
  assert (Ex : x1 = x2).
  { destruct G1 as [E1 U1 C1|k1 pk1 E1 L1 D1 S1]; destruct G2 as [E2 U2 C2|k2 pk2 E2 L2 D2 S2].
    - congruence.
    - exfalso. eapply (Hmix a1 q1 x1 x2); eauto.
    - exfalso. eapply (Hmix a2 q2 x2 x1); eauto.
    - assert (P1 : pk1 = a1).
      { rewrite E1 in Ex1. symmetry in Ex1. apply obj_of_node in Ex1 as [_ Ek1].
        destruct (L_of_quad info o d k1 pk1 q1 L1 Hq1) as [E _]; [rewrite Ek1; reflexivity|congruence]. }
      assert (P2 : pk2 = a2).
      { rewrite E2 in Ex2. symmetry in Ex2. apply obj_of_node in Ex2 as [_ Ek2].
        destruct (L_of_quad info o d k2 pk2 q2 L2 Hq2) as [E _]; [rewrite Ek2; reflexivity|congruence]. }
      subst pk1 pk2. destruct (h_step info o d _ _ L1) as [H1 _]. destruct (h_step info o d _ _ L2) as [H2 _].
      rewrite (h_unmarked info o d _ Hu1) in H1. rewrite (h_unmarked info o d _ Hu2) in H2.
      assert (k1 = k2) by (eapply (desc_same_height info o d); eauto; lia). congruence. }
  assert (Ex2' : x1 = obj_of info q2) by congruence.
  assert (Hk : exists k, x1 = ONode k /\ supp' k).
  { destruct G1 as [E1 U1 C1|k1 pk1 E1 L1 D1 S1]; [exists kb; split; [exact E1|right; exact C1]|].
    exists k1. split; [exact E1|]. left. eapply (is_marked_L info o d); eauto. }
  destruct Hk as [k [Exk Hsk]]. rewrite Exk in Ex1, Ex2'. symmetry in Ex1, Ex2'.
  apply obj_of_node in Ex1 as [_ Ek1]. apply obj_of_node in Ex2' as [_ Ek2].
  destruct (supp_parent_unique k q1 q2 Hsk Hq1 Hq2) as [E1 E2]; [rewrite Ek1; reflexivity|rewrite Ek2; reflexivity|].
  repeat split; congruence.
Qed.

Lemma node_ghosts_nodup a : suppressed L C a = false -> NoDup (node_ghosts (mknode a (get_node s a))).
Proof.
  intros Hs. unfold node_ghosts, make_node. simpl j_props. unfold node_props, props_ghosts.
  rewrite flat_map_flat_map. destruct (get_node_wf _ _ _ _ HI' a) as [Hnd _].
  assert (Hent : forall p vs, In (PIri p, vs) (get_node s a) -> vs = pat (nodes s) a (PIri p)).
  { intros p vs He. rewrite pat_get. unfold get_prop. rewrite (In_aget _ pkey_eqb_spec _ _ _ Hnd He). reflexivity. }
  apply NoDup_flat_map_inj.
  - apply NoDup_entries. exact Hnd.
  - intros [pk vs] He. destruct pk as [| |p]; simpl; try constructor. rewrite app_nil_r. unfold vals_ghosts. rewrite flat_map_map.
    pose proof (Hent p vs He) as Evs. apply NoDup_flat_map_inj.
    + rewrite Evs. apply pat_nd_process.
    + intros x Hx. rewrite Evs in Hx. exact (vp_nodup _ _ _ _ _ _ (conv_props _ _ _ (stored_valq _ _ _ Hx))).
    + intros x y b Hx Hy Hbx Hby. rewrite Evs in Hx, Hy.
      destruct (home_unique a p x a p y b Hs Hs Hx Hy Hbx Hby) as [_ [_ E]]. exact E.
  - intros [pk1 vs1] [pk2 vs2] b He1 He2 Hb1 Hb2.
    destruct pk1 as [| |p1]; simpl in Hb1; try destruct Hb1. destruct pk2 as [| |p2]; simpl in Hb2; try destruct Hb2.
    rewrite app_nil_r in Hb1, Hb2. unfold vals_ghosts in Hb1, Hb2. rewrite flat_map_map in Hb1, Hb2.
    apply in_flat_map in Hb1 as [x1 [Hx1 Hb1]]. apply in_flat_map in Hb2 as [x2 [Hx2 Hb2]].
    pose proof (Hent p1 vs1 He1) as E1. pose proof (Hent p2 vs2 He2) as E2. rewrite E1 in Hx1. rewrite E2 in Hx2.
    destruct (home_unique a p1 x1 a p2 x2 b Hs Hs Hx1 Hx2 Hb1 Hb2) as [_ [Ep _]]. subst p2. congruence.
Qed.

(* where the ghosts of one top-level entry live *)
Lemma top_ghost_home k ps t b : In (k, ps) (nodes s) -> jroot (k, ps) = Some t -> In b (top_ghosts t) ->
  fst k = None /\ exists a p x, suppressed L C a = false /\ In x (pat (nodes s) a (PIri p))
    /\ In b (val_ghosts (cnv x)) /\ (a = k \/ fst a = Some (snd k)).
Proof.
  intros He Er Hb. apply jroot_some in Er as [Hne [Hg [Hs ->]]]. pose proof (entry_get _ _ He) as Eps.
  split; [exact Hg|]. unfold top_ghosts in Hb. simpl in Hb. apply in_app_iff in Hb as [Hb|Hb].
  - rewrite <- Eps in Hb. destruct (node_ghost_inv k b Hb) as [p [x [Hx Hbx]]]. exists k, p, x. auto.
  - destruct (get_prop ps PGraph) as [v|] eqn:Ev; [|destruct Hb]. unfold nodes_ghosts, graph_members in Hb.
    rewrite flat_map_flat_map in Hb. apply in_flat_map in Hb as [y [Hy Hb]]. destruct y as [l|k2]; [destruct Hb|].
    destruct (jinner k2) as [n|] eqn:Ei; [|destruct Hb]. simpl in Hb. rewrite app_nil_r in Hb.
    apply jinner_some in Ei as [_ [Hs2 ->]]. destruct (node_ghost_inv k2 b Hb) as [p [x [Hx Hbx]]].
    exists k2, p, x. repeat (split; [assumption|]). right.
    assert (Ek : k = (None, snd k)) by (rewrite <- Hg; apply nkey_eta).
    apply graph_member_key. rewrite <- Ek. eapply get_prop_In; [rewrite Eps; exact Ev|exact Hy].
Qed.

Theorem ghosts_nodup : NoDup (doc_ghosts doc).
Proof.
  unfold doc_ghosts, document. rewrite flat_map_flat_map.
  destruct (inv_wf _ _ _ _ HI') as [Hnd _].
  apply NoDup_flat_map_inj.
  - apply NoDup_entries. exact Hnd.
  - intros [k ps] He. destruct (jroot (k, ps)) as [t|] eqn:Er; simpl; [|constructor]. rewrite app_nil_r.
    pose proof Er as Er'. apply jroot_some in Er' as [Hne [Hg [Hs ->]]]. pose proof (entry_get _ _ He) as Eps.
    unfold top_ghosts. simpl. apply NoDup_app_intro.
    + rewrite <- Eps. apply node_ghosts_nodup. exact Hs.
    + destruct (get_prop ps PGraph) as [v|] eqn:Ev; [|constructor].
      unfold nodes_ghosts, graph_members. rewrite flat_map_flat_map.
      assert (Ek : k = (None, snd k)) by (rewrite <- Hg; apply nkey_eta).
      assert (Evp : v = pat (nodes s) k PGraph) by (rewrite pat_get, Eps, Ev; reflexivity).
      apply NoDup_flat_map_inj.
      * rewrite Evp. apply pat_nd_process.
      * intros [l|k2] Hy; simpl; [constructor|]. destruct (jinner k2) as [n|] eqn:Ei; simpl; [|constructor].
        rewrite app_nil_r. apply jinner_some in Ei as [_ [Hs2 ->]]. apply node_ghosts_nodup. exact Hs2.
      * intros [l1|k1] [l2|k2] b Hy1 Hy2 Hb1 Hb2; simpl in Hb1, Hb2; try contradiction.
        destruct (jinner k1) as [n1|] eqn:Ei1; [|destruct Hb1]. destruct (jinner k2) as [n2|] eqn:Ei2; [|destruct Hb2].
        simpl in Hb1, Hb2. rewrite app_nil_r in Hb1, Hb2.
        apply jinner_some in Ei1 as [_ [Hs1 ->]]. apply jinner_some in Ei2 as [_ [Hs2 ->]].
        destruct (node_ghost_inv k1 b Hb1) as [p1 [x1 [Hx1 Hbx1]]]. destruct (node_ghost_inv k2 b Hb2) as [p2 [x2 [Hx2 Hbx2]]].
        destruct (home_unique k1 p1 x1 k2 p2 x2 b Hs1 Hs2 Hx1 Hx2 Hbx1 Hbx2) as [E _]. congruence.
    + intros b Hb1 Hb2. rewrite <- Eps in Hb1. destruct (node_ghost_inv k b Hb1) as [p1 [x1 [Hx1 Hbx1]]].
      destruct (get_prop ps PGraph) as [v|] eqn:Ev; [|destruct Hb2]. unfold nodes_ghosts, graph_members in Hb2.
      rewrite flat_map_flat_map in Hb2. apply in_flat_map in Hb2 as [y [Hy Hb2]]. destruct y as [l|k2]; [destruct Hb2|].
      destruct (jinner k2) as [n|] eqn:Ei; [|destruct Hb2]. simpl in Hb2. rewrite app_nil_r in Hb2.
      apply jinner_some in Ei as [_ [Hs2 ->]]. destruct (node_ghost_inv k2 b Hb2) as [p2 [x2 [Hx2 Hbx2]]].
      destruct (home_unique k p1 x1 k2 p2 x2 b Hs Hs2 Hx1 Hx2 Hbx1 Hbx2) as [E _].
      assert (Ek : k = (None, snd k)) by (rewrite <- Hg; apply nkey_eta).
      assert (Hm : In (ONode k2) (pat (nodes s) (None, snd k) PGraph)) by (rewrite <- Ek; eapply get_prop_In; [rewrite Eps; exact Ev|exact Hy]).
      apply graph_member_key in Hm. rewrite <- E, Hg in Hm. discriminate.
  - intros [k1 ps1] [k2 ps2] b He1 He2 Hb1 Hb2.
    destruct (jroot (k1, ps1)) as [t1|] eqn:Er1; [|destruct Hb1]. destruct (jroot (k2, ps2)) as [t2|] eqn:Er2; [|destruct Hb2].
    simpl in Hb1, Hb2. rewrite app_nil_r in Hb1, Hb2.
    destruct (top_ghost_home _ _ _ _ He1 Er1 Hb1) as [Hg1 [a1 [p1 [x1 [Hs1 [Hx1 [Hbx1 Ha1]]]]]]].
    destruct (top_ghost_home _ _ _ _ He2 Er2 Hb2) as [Hg2 [a2 [p2 [x2 [Hs2 [Hx2 [Hbx2 Ha2]]]]]]].
    destruct (home_unique a1 p1 x1 a2 p2 x2 b Hs1 Hs2 Hx1 Hx2 Hbx1 Hbx2) as [E _]. subst a2.
    assert (Ek : k1 = k2).
    { destruct Ha1 as [->|Ha1], Ha2 as [Ha2|Ha2].
      - exact Ha2.
      - rewrite Hg1 in Ha2. discriminate.
      - subst a1. rewrite Hg2 in Ha1. discriminate.
      - rewrite (nkey_eta k1), (nkey_eta k2), Hg1, Hg2. f_equal. congruence. }
    subst k2. rewrite <- (entry_get _ _ He1), <- (entry_get _ _ He2). reflexivity.
Qed.

(* ---------- (S3) what the document shows: identifiers of the input, none of them suppressed anywhere ---------- *)
Lemma quad_pred_id q : In q D -> In (qp q) (ids_of d).
Proof.
  intros Hq. apply (ids_D info d). unfold ids_of. apply in_flat_map. exists q. split; [exact Hq|]. simpl. auto.
Qed.
Lemma not_ghostly_of_not_blank x : is_blank info x = false -> ~ ghostly' x.
Proof. intros H Hg. apply (ghostly_blank info o d) in Hg. congruence. Qed.

Lemma rendered_id_ok a : rendered a -> In (snd a) (ids_of d) /\ ~ ghostly' (snd a).
Proof.
  intros [Hne [Hs _]].
  (* some value is stored under a, because of some quad *)
  assert (Hq : exists q, In q D /\ (a = skey q \/ (qg q = Some (snd a) /\ fst a = None))).
  { destruct (get_node s a) as [|[p0 v0] ps'] eqn:E; [congruence|].
    assert (Ev : get_prop (get_node s a) p0 = Some v0).
    { rewrite E. unfold get_prop. simpl. destruct (pkey_eqb_spec p0 p0); congruence. }
    destruct (get_node_wf _ _ _ _ HI' a) as [_ Hnonempty].
    destruct v0 as [|x0 v0]; [exfalso; apply (Hnonempty p0 []); [exact Ev|reflexivity]|].
    assert (Hin : In x0 (pat (nodes s) a p0)) by (eapply get_prop_In; [exact Ev|simpl; auto]).
    apply (inv_pat _ _ _ _ HI') in Hin as [q [Hq [[E1 _]|[g [Eg [Ek _]]]]]]; exists q; (split; [exact Hq|]).
    - left. exact E1.
    - right. rewrite Ek. simpl. auto. }
  destruct Hq as [q [Hq [Ea|[Eg Ea]]]].
  - subst a. simpl. destruct (quad_ids info d q Hq) as [H1 _]. split; [exact H1|].
    intros [g' Hsupp]. pose proof (supp_subject_graph info o d _ q Hsupp Hq eq_refl) as E. simpl in E.
    assert (Hsk : supp' (skey q)) by (unfold skey; rewrite E; exact Hsupp).
    apply (supp_suppressed info o d) in Hsk. congruence.
  - destruct (quad_ids info d q Hq) as [_ [_ H3]]. split; [apply H3; exact Eg|].
    intros [g' Hsupp]. apply (supp_nograph info o d _ q Hsupp Hq). exact Eg.
Qed.

Lemma vis_ok id : In id (doc_vis doc) -> In id (ids_of d) /\ ~ ghostly' id.
Proof.
  rewrite doc_vis_flat, in_doc_flat. intros [a [Hr Hid]].
  apply in_node_flat in Hid as [Hid|[p [vs [Ev [Hid|[x [Hx Hid]]]]]]].
  - unfold make_node in Hid. simpl in Hid. destruct Hid as [<-|Hid]; [apply rendered_id_ok; exact Hr|].
    (* a type *)
    unfold node_types in Hid. destruct (get_prop (get_node s a) PType) as [v|] eqn:Evt; [|destruct Hid].
    apply in_flat_map in Hid as [x [Hx Ht]]. destruct x as [l|k']; [destruct Ht|]. destruct Ht as [<-|[]].
    assert (Hp : In (ONode k') (pat (nodes s) a PType)) by (eapply get_prop_In; eauto).
    apply (inv_pat _ _ _ _ HI') in Hp as [q [Hq [[E1 [E2 E3]]|[g [_ [_ [E _]]]]]]]; [|discriminate].
    symmetry in E2. destruct (pkey_of_type info o q E2) as [_ [Eo [_ Hi]]]. rewrite Eo in E3. injection E3 as ->. simpl.
    destruct (quad_ids info d q Hq) as [_ [H2 _]]. split; [exact H2|].
    apply not_ghostly_of_not_blank. apply (iri_not_blank info). exact Hi.
  - (* a property *)
    destruct Hid as [<-|[]]. destruct (get_node_wf _ _ _ _ HI' a) as [_ Hnonempty].
    destruct vs as [|x0 vs]; [exfalso; apply (Hnonempty (PIri p) []); [exact Ev|reflexivity]|].
    assert (Hin : In x0 (pat (nodes s) a (PIri p))) by (eapply get_prop_In; [exact Ev|simpl; auto]).
    apply (sound_iri _ _ _ _ HI') in Hin as [q [Hq [_ [Ep _]]]]. subst p.
    split; [apply quad_pred_id; exact Hq|]. apply not_ghostly_of_not_blank. apply (iri_not_blank info).
    destruct (quad_kinds info o d q Hq) as [H _]. exact H.
  - (* a value *)
    assert (Hv : valq' x a p) by (apply stored_valq; eapply get_prop_In; eauto).
    exact (vp_vis _ _ _ _ _ _ (conv_props a p x Hv) id Hid).
Qed.

Lemma ghostly_id b : ghostly' b -> In b (ids_of d).
Proof.
  intros [g Hs]. destruct (supp_has_quad info o d _ Hs) as [q [Hq [Es _]]]. simpl in Es. rewrite <- Es.
  destruct (quad_ids info d q Hq) as [H _]. exact H.
Qed.
End Doc.

(* ================================================================== *)
(* THE ROUND TRIP                                                      *)
(* ================================================================== *)
Lemma nodupb_complete l : NoDup l -> nodupb l = true.
Proof.
  induction 1 as [|x l Hn Hnd IH]; simpl; [reflexivity|]. rewrite IH, andb_true_r. apply negb_true_iff.
  destruct (existsb (N.eqb x) l) eqn:E; [|reflexivity]. exfalso. apply existsb_exists in E as [y [Hy E]].
  apply N.eqb_eq in E. subst y. contradiction.
Qed.

(* For every dataset, every option setting and every base above the identifiers of the dataset: reading the
   emitted document back with the reference reader and renaming the blank nodes it created by [witness] gives
   exactly the quads of the input that JSON-LD can express.  The renaming is injective, defined on the fresh
   identifiers (>= base) only, and maps them to blank nodes of the input that the read-back dataset does not
   mention: the read-back dataset is isomorphic to the expressible part of the input. *)
Theorem roundtrip_general info o d base : wf_info info -> (forall x, In x (ids_of d) -> x < base) ->
  let docu := serialise info o d in
  let r := witness base docu in
  (forall q, In q (map (rename_q r) (to_rdf base docu)) <-> In q (filter (is_jsonld info) d))
  /\ NoDup (map snd r) /\ NoDup (map fst r)
  /\ (forall p, In p r -> base <= fst p /\ kind info (snd p) = KBlank
                           /\ In (snd p) (ids_of d) /\ ~ In (snd p) (ids_of (to_rdf base docu))).
Proof.
  intros Hwf Hbase docu r.
  assert (Hvis : forall x, In x (doc_vis docu) -> x < base).
  { intros x Hx. apply Hbase. exact (proj1 (vis_ok info o d Hwf x Hx)). }
  destruct (reader_lock base docu Hvis) as [Hback [Hgh [Hnd [Hkeys Hids]]]]. fold r in Hback, Hgh, Hnd, Hkeys.
  split; [|split; [|split; [exact Hnd|]]].
  - intros q. rewrite Hback. split; [apply (back_sound info o d Hwf)|apply (back_complete info o d Hwf)].
  - rewrite Hgh. apply (ghosts_nodup info o d Hwf).
  - intros p Hp. split; [apply Hkeys; exact Hp|].
    assert (Hg : ghostly info o d (snd p)).
    { assert (Hin : In (snd p) (doc_ghosts docu)) by (rewrite <- Hgh; apply in_map; exact Hp).
      apply (ghost_ghostly info o d Hwf). exact Hin. }
    pose proof (ghostly_blank info o d _ Hg) as Hb. pose proof (ghostly_id info o d _ Hg) as Hid.
    split; [unfold is_blank in Hb; destruct (kind info (snd p)); try discriminate; reflexivity|].
    split; [exact Hid|]. intros Hin. destruct (Hids _ Hin) as [H|[H|H]].
    + exact (proj2 (vis_ok info o d Hwf _ H) Hg).
    + assert (Hc : In (snd p) [c_first; c_rest; c_nil; c_type; c_List; c_value; c_direction; c_language]).
      { unfold reader_consts in H. simpl in H |- *. tauto. }
      destruct (const_iri info Hwf _ Hc) as [Hnb _]. congruence.
    + specialize (Hbase _ Hid). lia.
Qed.

(* the statement left open in Proofs.v: the boolean validator run on every correspondence case always succeeds *)
Theorem roundtrip_full : roundtrip_full_statement.
Proof.
  intros info o d base Hwf Hbase.
  destruct (roundtrip_general info o d base Hwf Hbase) as [H1 [H2 [H3 H4]]].
  unfold roundtrip_doc_ok. rewrite !andb_true_iff. repeat split.
  - apply subset_q_spec. intros q Hq. apply H1. exact Hq.
  - apply subset_q_spec. intros q Hq. apply H1. exact Hq.
  - apply nodupb_complete. exact H2.
  - apply nodupb_complete. exact H3.
  - apply forallb_forall. intros p Hp. destruct (H4 p Hp) as [Ha [Hb _]]. apply andb_true_iff. split; [apply N.leb_le; exact Ha|].
    unfold kind in Hb. rewrite Hb. reflexivity.
  - apply forallb_forall. intros x Hx. apply N.ltb_lt. apply Hbase. exact Hx.
  - apply forallb_forall. intros b Hb. apply in_map_iff in Hb as [p [<- Hp]]. destruct (H4 p Hp) as [_ [_ [_ Hn]]].
    apply negb_true_iff. destruct (existsb (N.eqb (snd p)) (ids_of (to_rdf base (serialise info o d)))) eqn:E; [|reflexivity].
    exfalso. apply Hn. apply existsb_exists in E as [y [Hy E]]. apply N.eqb_eq in E. subst y. exact Hy.
Qed.

(* the same, as an isomorphism: one function on identifiers, injective on the identifiers of the read-back dataset,
   the identity below base, sending the others to blank nodes of the input, and carrying the read-back dataset onto the
   expressible part of the input *)
Lemma nodup_snd_inj (r : list (N * N)) x y b : NoDup (map snd r) -> In (x, b) r -> In (y, b) r -> x = y.
Proof.
  induction r as [|[a c] r IH]; simpl; intros Hnd Hx Hy; [destruct Hx|]. inversion Hnd as [|? ? Hn Hnd']; subst.
  destruct Hx as [Ex|Hx], Hy as [Ey|Hy].
  - congruence.
  - injection Ex as -> ->. exfalso. apply Hn. apply (in_map snd) in Hy. exact Hy.
  - injection Ey as -> ->. exfalso. apply Hn. apply (in_map snd) in Hx. exact Hx.
  - auto.
Qed.
Theorem roundtrip_isomorphic info o d base : wf_info info -> (forall x, In x (ids_of d) -> x < base) ->
  let back := to_rdf base (serialise info o d) in
  exists f : N -> N,
    (forall x y, In x (ids_of back) -> In y (ids_of back) -> f x = f y -> x = y)
    /\ (forall x, x < base -> f x = x)
    /\ (forall x, f x <> x -> base <= x /\ kind info (f x) = KBlank /\ In (f x) (ids_of d))
    /\ (forall q, In q (map (fun q => mkQ (f (qs q)) (qp q) (f (qo q)) (option_map f (qg q))) back)
                   <-> In q (filter (is_jsonld info) d)).
Proof.
  intros Hwf Hbase back. destruct (roundtrip_general info o d base Hwf Hbase) as [H1 [H2 [H3 H4]]].
  set (r := witness base (serialise info o d)) in *. exists (rename r).
  assert (Hkey : forall x, rename r x <> x -> In (x, rename r x) r).
  { intros x Hx. unfold rename in *. destruct (aget N.eqb r x) as [b|] eqn:E; [|congruence].
    apply (aget_In _ Neqb_spec). exact E. }
  split; [|split; [|split]].
  - intros x y Hx Hy E. destruct (N.eq_dec (rename r x) x) as [Ex|Ex], (N.eq_dec (rename r y) y) as [Ey|Ey].
    + congruence.
    + exfalso. destruct (H4 _ (Hkey y Ey)) as [_ [_ [_ Hn]]]. apply Hn. simpl. rewrite <- E, Ex. exact Hx.
    + exfalso. destruct (H4 _ (Hkey x Ex)) as [_ [_ [_ Hn]]]. apply Hn. simpl. rewrite E, Ey. exact Hy.
    + apply (nodup_snd_inj r x y (rename r x) H2); [apply Hkey; exact Ex|]. rewrite E. apply Hkey. exact Ey.
  - intros x Hx. destruct (N.eq_dec (rename r x) x) as [E|E]; [exact E|]. exfalso.
    destruct (H4 _ (Hkey x E)) as [Hb _]. simpl in Hb. lia.
  - intros x Hx. destruct (H4 _ (Hkey x Hx)) as [Hb [Hk [Hid _]]]. auto.
  - exact H1.
Qed.
