(* C15/GenericProofs.v -- the prefix theorems for pipelines over ANY item type, ANY consumer
   (not only the recording one) and any consumer state; Model.v is the instance N. *)
From Sophia.C15 Require Import Model Proofs Generic.

(* ---------- Model.v is the instance A = ES = EK = N of Generic.v ---------- *)
Lemma gwrap_model St chain (f : sink St) x st :
  gwrap (map gad chain) f x st = wrap St chain f x st.
Proof.
  revert x st; induction chain as [|a c IH]; intros x st; simpl; auto.
  destruct a as [p|m|m]; simpl.
  - destruct (p x); auto.
  - apply IH.
  - destruct (m x); auto.
Qed.

Lemma gfeed_model St chain (f : sink St) items st :
  gfeed (gwrap (map gad chain) f) items st = feed St (wrap St chain f) items st.
Proof.
  revert st; induction items as [|x r IH]; intros st; simpl; auto.
  rewrite gwrap_model. destruct (wrap St chain f x st) as [st' [e|]]; auto.
Qed.

Theorem generic_is_model_each St src chain (f : sink St) st :
  gtry_for_each src (map gad chain) f st
  = (let '(rest, st', o) := try_for_each St src chain f st in (rest, st', gout o)).
Proof.
  revert st; induction src as [|[items oe] rest IH]; intros st; simpl; auto.
  rewrite gfeed_model. destruct (feed St (wrap St chain f) items st) as [st' [e|]]; auto.
  destruct oe; auto.
Qed.

Theorem generic_is_model_some St src chain (f : sink St) st :
  gtry_for_some src (map gad chain) f st
  = (let '(rest, st', o) := try_for_some St src chain f st in (rest, st', gout o)).
Proof.
  destruct src as [|[items oe] rest]; simpl; auto.
  rewrite gfeed_model. destruct (feed St (wrap St chain f) items st) as [st' [e|]]; auto.
  destruct oe; auto.
Qed.

Theorem generic_is_model_through chain x : gthrough (map gad chain) x = through chain x.
Proof.
  revert x; induction chain as [|a c IH]; intros x; simpl; auto.
  destruct a as [p|m|m]; simpl; auto.
  - destruct (p x); auto.
  - destruct (m x); auto.
Qed.

(* the recording consumer of Model.v is the failure predicate "the (j+1)-th item" *)
Theorem rec_sink_is_pred fault y st :
  rec_sink fault y st
  = pred_sink (fun st _ => match fault with
                           | Some (j, e) => if Nat.eqb (length st) j then Some e else None
                           | None => None
                           end) y st.
Proof. unfold rec_sink, pred_sink. destruct fault as [[j e]|]; auto. destruct (Nat.eqb (length st) j); auto. Qed.

Section G.
Context {A ES EK St : Type}.
Implicit Types (chain : list (gadapter A)) (f : gsink A EK St).

Lemma gwrap_through chain f x st :
  gwrap chain f x st = match gthrough chain x with Some y => f y st | None => (st, None) end.
Proof.
  revert x; induction chain as [|a c IH]; intros x; simpl; auto.
  destruct a as [p|m|m]; simpl.
  - destruct (p x); auto.
  - apply IH.
  - destruct (m x); auto.
Qed.

(* feeding a batch through the adapter stack = feeding its image to the bare consumer *)
Lemma gfeed_wrap chain f items st :
  gfeed (gwrap chain f) items st = gfeed f (gfm chain items) st.
Proof.
  revert st; induction items as [|x r IH]; intros st; simpl; auto.
  rewrite gwrap_through. unfold gfm in *. simpl. destruct (gthrough chain x) as [y|]; simpl.
  - destruct (f y st) as [st' [e|]]; auto.
  - apply IH.
Qed.

Lemma gfm_app chain (a b : list A) : gfm chain (a ++ b) = gfm chain a ++ gfm chain b.
Proof. unfold gfm. apply flat_map_app. Qed.

Lemma gfeed_app f (a b : list A) st :
  gfeed f (a ++ b) st
  = match gfeed f a st with (st', Some e) => (st', Some e) | (st', None) => gfeed f b st' end.
Proof.
  revert st; induction a as [|x a IH]; intros st; simpl; auto.
  destruct (f x st) as [st' [e|]]; auto.
Qed.

Lemma gfeed_app_ok f (a b : list A) st st' :
  gfeed f a st = (st', None) -> gfeed f (a ++ b) st = gfeed f b st'.
Proof. intros H. rewrite gfeed_app, H. reflexivity. Qed.

Lemma gfeed_app_inv f (a b : list A) st st2 :
  gfeed f (a ++ b) st = (st2, None) ->
  exists st1, gfeed f a st = (st1, None) /\ gfeed f b st1 = (st2, None).
Proof.
  rewrite gfeed_app. destruct (gfeed f a st) as [st1 [e|]]; [discriminate|].
  intros H. exists st1. auto.
Qed.

(* steps that deliver and do not fail, consumed by a consumer that survives their image *)
Lemma g_prefix chain f (steps : list (list A)) : forall st st' (tail : gsource A ES),
  gfeed f (gfm chain (concat steps)) st = (st', None) ->
  gtry_for_each (gclean steps ++ tail) chain f st = gtry_for_each tail chain f st'.
Proof.
  induction steps as [|b steps IH]; intros st st' tail H; simpl in *.
  - inversion H. reflexivity.
  - rewrite gfm_app in H. apply gfeed_app_inv in H as (st1 & H1 & H2).
    rewrite gfeed_wrap, H1. apply IH. exact H2.
Qed.

(* (a) the source fails in some step, after that step's own items *)
Theorem g_source_fault chain f steps last e (post : gsource A ES) st st' :
  gfeed f (gfm chain (concat steps ++ last)) st = (st', None) ->
  gtry_for_each (gclean steps ++ (last, Some e) :: post) chain f st = (post, st', GSourceError e).
Proof.
  intros H. rewrite gfm_app in H. apply gfeed_app_inv in H as (st1 & H1 & H2).
  rewrite (g_prefix chain f steps st st1) by exact H1.
  simpl. rewrite gfeed_wrap, H2. reflexivity.
Qed.

(* (b) the consumer fails on the image y of the item x *)
Theorem g_sink_fault chain f steps pre x y rest_of_batch oe (post : gsource A ES) e st st1 st2 :
  gfeed f (gfm chain (concat steps ++ pre)) st = (st1, None) ->
  gthrough chain x = Some y ->
  f y st1 = (st2, Some e) ->
  gtry_for_each (gclean steps ++ (pre ++ x :: rest_of_batch, oe) :: post) chain f st
  = (post, st2, GSinkError e).
Proof.
  intros H Hx Hf. rewrite gfm_app in H. apply gfeed_app_inv in H as (st0 & H1 & H2).
  rewrite (g_prefix chain f steps st st0) by exact H1.
  simpl. rewrite gfeed_wrap, gfm_app, gfeed_app, H2.
  unfold gfm. simpl. rewrite Hx. simpl. rewrite Hf. reflexivity.
Qed.

(* (c) nothing fails *)
Theorem g_no_fault chain f steps st st' :
  gfeed f (gfm chain (concat steps)) st = (st', None) ->
  gtry_for_each (ES := ES) (gclean steps) chain f st = ([], st', GDone).
Proof.
  intros H. rewrite <- (app_nil_r (gclean steps)). rewrite (g_prefix chain f steps st st') by exact H.
  reflexivity.
Qed.

(* step-wise driving = whole-stream driving *)
Theorem gstepwise_is_try_for_each (src : gsource A ES) chain f st fuel :
  (length src < fuel)%nat -> gstepwise fuel src chain f st = gtry_for_each src chain f st.
Proof.
  revert src st; induction fuel as [|n IH]; intros src st H; [inversion H|].
  destruct src as [|[items oe] rest]; simpl; auto.
  destruct (gfeed (gwrap chain f) items st) as [st' [e|]]; auto.
  destruct oe; auto. apply IH. simpl in H. lia.
Qed.
End G.

(* ---------- the recording consumer with an arbitrary failure predicate ---------- *)
Section Rec.
Context {A EK : Type}.
Variable fail : list A -> A -> option EK.

Theorem pred_sink_quiet ys : forall st,
  quiet fail st ys -> gfeed (pred_sink fail) ys st = (st ++ ys, None).
Proof.
  induction ys as [|y r IH]; intros st H; simpl.
  - rewrite app_nil_r. reflexivity.
  - destruct H as [H1 H2]. unfold pred_sink at 1. rewrite H1.
    rewrite IH by exact H2. rewrite <- app_assoc. reflexivity.
Qed.

Theorem pred_sink_fails st y e : fail st y = Some e -> pred_sink fail y st = (st ++ [y], Some e).
Proof. intros H. unfold pred_sink. rewrite H. reflexivity. Qed.
End Rec.

(* ---------- insert_all: the count is the number of NEW elements ---------- *)
Section Ins.
Context {A EK : Type}.
Variable eqb : A -> A -> bool.
Hypothesis eqb_eq : forall x y, eqb x y = true <-> x = y.

Lemma g_existsb_In x s : existsb (eqb x) s = true <-> In x s.
Proof.
  rewrite existsb_exists. split.
  - intros [y [H E]]. apply eqb_eq in E. subst; auto.
  - intros H. exists x. split; auto. apply eqb_eq. reflexivity.
Qed.

Lemma NoDup_snoc (l : list A) x : NoDup l -> ~ In x l -> NoDup (l ++ [x]).
Proof.
  induction l as [|y l IH]; simpl; intros Hn Hx.
  - constructor; [intros []|constructor].
  - inversion Hn; subst. constructor.
    + rewrite in_app_iff. simpl. intuition.
    + apply IH; auto.
Qed.

Theorem g_insert_count ys : forall s c,
  NoDup s ->
  exists s' c',
    gfeed (ginsert_sink (EK := EK) eqb) ys (s, c) = ((s', c'), None)
    /\ NoDup s' /\ (c' = c + (length s' - length s))%nat /\ (length s <= length s')%nat
    /\ (forall x, In x s' <-> In x s \/ In x ys).
Proof.
  induction ys as [|y ys IH]; intros s c Hn; simpl.
  - exists s, c. repeat split; auto; try lia. intros [H|[]]; auto.
  - destruct (existsb (eqb y) s) eqn:E.
    + destruct (IH s c Hn) as (s' & c' & H1 & H2 & H3 & H4 & H5).
      exists s', c'. repeat split; auto.
      * intros H. apply H5 in H. tauto.
      * intros [H|[H|H]]; apply H5; auto. subst. left. apply g_existsb_In. exact E.
    + assert (Hn' : NoDup (s ++ [y])).
      { apply NoDup_snoc; auto. rewrite <- g_existsb_In. congruence. }
      destruct (IH (s ++ [y]) (S c) Hn') as (s' & c' & H1 & H2 & H3 & H4 & H5).
      rewrite app_length in *. simpl in *.
      exists s', c'. repeat split; auto; try lia.
      * intros H0. apply H5 in H0. rewrite in_app_iff in H0. simpl in H0. tauto.
      * intros H0. apply H5. rewrite in_app_iff. simpl. tauto.
Qed.
End Ins.
