(* C02/Model.v -- harness-facing checkers for the term model of Common/Term.v. *)
From Sophia.Common Require Export Prelude Term.

Definition cmp_eqb (a b : comparison) : bool :=
  match a, b with Eq, Eq | Lt, Lt | Gt, Gt => true | _, _ => false end.

(* what the implementation answered for the ordered pair (a, b), in every pair of representations *)
Definition pair_ok (a b : term) (eq : bool) (cmp : comparison) : bool :=
  Bool.eqb (term_eqb a b) eq && cmp_eqb (term_cmp a b) cmp.

(* the bytes the implementation fed to the Hasher *)
Definition hash_ok (a : term) (bytes : list N) : bool := str_eqb (hash_stream a) bytes.

(* NsTerm::eq on (namespace, suffix) against an IRI *)
Fixpoint strip_prefix (p s : str) : option str :=
  match p, s with
  | [], _ => Some s
  | x :: p', y :: s' => if N.eqb x y then strip_prefix p' s' else None
  | _ :: _, [] => None
  end.
Definition ns_iri_eqb (ns suffix other : str) : bool :=
  match strip_prefix ns other with Some rest => str_eqb rest suffix | None => false end.
Definition ns_ok (ns suffix : str) (other : term) (eq : bool) : bool :=
  Bool.eqb (match other with Iri o => ns_iri_eqb ns suffix o | _ => false end) eq.

(* ===================== accessors, components, constructors (widened harness) ===================== *)

(* same spelling (language-tag case included): what a copy / conversion / accessor must return *)
Fixpoint term_same (a b : term) : bool :=
  match a, b with
  | Iri x, Iri y => str_eqb x y
  | Bnode x, Bnode y => str_eqb x y
  | Var x, Var y => str_eqb x y
  | LitDt l1 d1, LitDt l2 d2 => str_eqb l1 l2 && str_eqb d1 d2
  | LitLang l1 t1, LitLang l2 t2 => str_eqb l1 l2 && str_eqb t1 t2
  | Triple s1 p1 o1, Triple s2 p2 o2 => term_same s1 s2 && term_same p1 p2 && term_same o1 o2
  | _, _ => false
  end.

(* the accessor methods of the Term trait (None for the other kinds) *)
Definition t_is_atom (t : term) : bool := match t with Triple _ _ _ => false | _ => true end.
Definition acc_iri (t : term) : option str := match t with Iri s => Some s | _ => None end.
Definition acc_bnode (t : term) : option str := match t with Bnode s => Some s | _ => None end.
Definition acc_var (t : term) : option str := match t with Var s => Some s | _ => None end.
Definition acc_lex (t : term) : option str := match t with LitDt l _ | LitLang l _ => Some l | _ => None end.
Definition acc_dt (t : term) : option str :=
  match t with LitDt _ d => Some d | LitLang _ _ => Some rdf_langString | _ => None end.
Definition acc_tag (t : term) : option str := match t with LitLang _ g => Some g | _ => None end.
Definition t_to_triple (t : term) : option (term * term * term) :=
  match t with Triple s p o => Some (s, p, o) | _ => None end.

(* what every representation answered to kind / is_atom / iri / bnode_id / lexical_form / datatype /
   language_tag / variable *)
Definition tview_ok (t : term) (k : N) (atom : bool) (i b l d g v : option str) : bool :=
  N.eqb (kind_rank (kind_of t)) k && Bool.eqb (t_is_atom t) atom
  && opt_eqb str_eqb (acc_iri t) i && opt_eqb str_eqb (acc_bnode t) b
  && opt_eqb str_eqb (acc_lex t) l && opt_eqb str_eqb (acc_dt t) d
  && opt_eqb str_eqb (acc_tag t) g && opt_eqb str_eqb (acc_var t) v.

(* the default Term::eq of api/src/term.rs, for atoms, written over the accessors only *)
Definition eq_acc (a b : term) : bool :=
  N.eqb (kind_rank (kind_of a)) (kind_rank (kind_of b)) &&
  match kind_of a with
  | KIri => opt_eqb str_eqb (acc_iri a) (acc_iri b)
  | KBnode => opt_eqb str_eqb (acc_bnode a) (acc_bnode b)
  | KVariable => opt_eqb str_eqb (acc_var a) (acc_var b)
  | KLiteral =>
      opt_eqb str_eqb (acc_lex a) (acc_lex b) &&
      match acc_tag a, acc_tag b with
      | None, None => opt_eqb str_eqb (acc_dt a) (acc_dt b)
      | Some g1, Some g2 => str_eqb_ci g1 g2
      | _, _ => false
      end
  | KTriple => false
  end.

(* Term::constituents / Term::atoms (and their consuming variants) *)
Fixpoint t_constituents (t : term) : list term :=
  t :: match t with
       | Triple s p o => t_constituents s ++ t_constituents p ++ t_constituents o
       | _ => []
       end.
Fixpoint t_atoms (t : term) : list term :=
  match t with
  | Triple s p o => t_atoms s ++ t_atoms p ++ t_atoms o
  | _ => [t]
  end.
Definition terms_same (a b : list term) : bool := list_eqb term_same a b.
Definition atoms_ok (t : term) (obs : list term) : bool := terms_same (t_atoms t) obs.
Definition constituents_ok (t : term) (obs : list term) : bool := terms_same (t_constituents t) obs.
Definition to_triple_ok (t : term) (obs : option (term * term * term)) : bool :=
  match t_to_triple t, obs with
  | None, None => true
  | Some (s, p, o), Some (s', p', o') => term_same s s' && term_same p p' && term_same o o'
  | _, _ => false
  end.

(* every value built for the term t along another construction path (From impls, checked
   constructors, stash copies, vocabulary round trips, statement accessors) spells t *)
Definition built_ok (t : term) (obs : list term) : bool := forallb (term_same t) obs.

(* `lex * NsTerm` (typed literal) and `lex * LanguageTag` (language-tagged string) *)
Definition ns_lit (ns suffix lex : str) : term := LitDt lex (ns ++ suffix).
Definition ns_lit_ok (ns suffix lex : str) (obs : term) : bool := term_same (ns_lit ns suffix lex) obs.
Definition lang_lit_ok (lex tag : str) (obs : term) : bool := term_same (LitLang lex tag) obs.

(* graph_name_eq of api/src/term/_graph_name.rs: None is the default graph *)
Definition gname_eqb (a b : option term) : bool :=
  match a, b with
  | Some x, Some y => term_eqb x y
  | None, None => true
  | _, _ => false
  end.
Definition gname_ok (a b : option term) (eq : bool) : bool := Bool.eqb (gname_eqb a b) eq.
