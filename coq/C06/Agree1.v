(* C06/Agree1.v -- implementation model (C05/Model.v) = specification model (C06/Model.v), part 1:
   issuers, strictly sorted key lists, maps built by bt_push = sp_group, first-degree hashes,
   the keys of the blank-node-to-quads map.  Stdlib only, no assumptions. *)
From Sophia.C06 Require Import Model Limits.
From Sophia.C05 Require Import FirstDegree Bijection.
From Coq Require Import Permutation.

(* ====================================================================================== *)
(* 1. issuers                                                                               *)
(* ====================================================================================== *)
Definition R (pfx : str) (i : issuer) : sp_issuer := mkIss pfx (N.of_nat (length i)) i.

Lemma sp_lookup_eq m k : sp_lookup m k = iss_get m k.
Proof.
  unfold iss_get. induction m as [|[a b] m IH]; cbn [sp_lookup bt_get]; [reflexivity|].
  destruct (str_eqb a k); auto.
Qed.

Lemma sp_has_R pfx i k :
  sp_has (R pfx i) k = match iss_get i k with Some _ => true | None => false end.
Proof. unfold sp_has, R. cbn [si_issued]. rewrite sp_lookup_eq. reflexivity. Qed.

Lemma sp_issue_R pfx i b :
  sp_issue (R pfx i) b = (R pfx (issue_ pfx i b), snd (fst (issue pfx i b))).
Proof.
  unfold sp_issue, issue_, issue, R. cbn [si_issued si_prefix si_counter]. rewrite sp_lookup_eq.
  destruct (iss_get i b); cbn [fst snd]; [reflexivity|].
  f_equal. f_equal. rewrite app_length. cbn [length]. lia.
Qed.

Lemma sp_issue__R pfx i b : sp_issue_ (R pfx i) b = R pfx (issue_ pfx i b).
Proof. unfold sp_issue_. rewrite sp_issue_R. reflexivity. Qed.

Lemma R_nil_b : mkIss [98] 0 [] = R s_b [].
Proof. reflexivity. Qed.

Lemma R_nil_c : mkIss s_c14n 0 [] = R s_c14n [].
Proof. reflexivity. Qed.

(* ====================================================================================== *)
(* 2. strictly sorted lists of strings                                                      *)
(* ====================================================================================== *)
Fixpoint ssorted (l : list str) : Prop :=
  match l with
  | [] => True
  | k :: r => (forall k', In k' r -> str_cmp k k' = Lt) /\ ssorted r
  end.

Lemma keys_sorted_ssorted {V} (m : list (str * V)) : keys_sorted m <-> ssorted (map fst m).
Proof.
  induction m as [|[k v] m IH]; [cbn; tauto|].
  rewrite ks_cons_iff. cbn [map fst ssorted]. rewrite IH. split; intros [Ha Hs]; split; auto.
  - intros k' Hin. apply in_map_iff in Hin as [[k1 v1] [E Hin]]. cbn [fst] in E. subst k1.
    eapply Ha; eauto.
  - intros k' v' Hin. apply Ha. apply in_map_iff. exists (k', v'). split; auto.
Qed.

Lemma str_lt_irrefl a : str_cmp a a <> Lt.
Proof. rewrite str_cmp_refl. discriminate. Qed.

Lemma ssorted_unique l1 : forall l2,
  ssorted l1 -> ssorted l2 -> (forall k, In k l1 <-> In k l2) -> l1 = l2.
Proof.
  induction l1 as [|a l1 IH]; intros [|b l2] H1 H2 Hin.
  - reflexivity.
  - exfalso. apply (Hin b). left; reflexivity.
  - exfalso. apply (Hin a). left; reflexivity.
  - destruct H1 as [A1 S1]. destruct H2 as [A2 S2].
    assert (E : a = b).
    { destruct (proj1 (Hin a) (or_introl eq_refl)) as [E|Ha]; [auto|].
      destruct (proj2 (Hin b) (or_introl eq_refl)) as [E|Hb]; [auto|].
      exfalso. apply (str_lt_irrefl a). eapply str_cmp_lt_trans; [apply A1; exact Hb|apply A2; exact Ha]. }
    subst b. f_equal. apply IH; auto.
    intros k; split; intros Hk.
    + destruct (proj1 (Hin k) (or_intror Hk)) as [E|Hk']; [|exact Hk'].
      subst k. exfalso. apply (str_lt_irrefl a). apply A1; exact Hk.
    + destruct (proj2 (Hin k) (or_intror Hk)) as [E|Hk']; [|exact Hk'].
      subst k. exfalso. apply (str_lt_irrefl a). apply A2; exact Hk.
Qed.

Lemma insert_by_perm {A} (leb : A -> A -> bool) x l : Permutation (x :: l) (insert_by leb x l).
Proof.
  induction l as [|y l IH]; cbn [insert_by]; [apply Permutation_refl|].
  destruct (leb x y); [apply Permutation_refl|].
  eapply perm_trans; [apply perm_swap|]. apply perm_skip. exact IH.
Qed.

Lemma sort_by_perm {A} (leb : A -> A -> bool) l : Permutation l (sort_by leb l).
Proof.
  unfold sort_by. induction l as [|x l IH]; cbn [fold_right]; [constructor|].
  eapply perm_trans; [apply perm_skip; exact IH|]. apply insert_by_perm.
Qed.

Lemma sort_by_In_iff {A} (leb : A -> A -> bool) l x : In x (sort_by leb l) <-> In x l.
Proof.
  split; intros Hx.
  - eapply Permutation_in; [apply Permutation_sym, sort_by_perm|exact Hx].
  - eapply Permutation_in; [apply sort_by_perm|exact Hx].
Qed.

Lemma insert_ssorted x l : ssorted l -> ~ In x l -> ssorted (insert_by str_leb x l).
Proof.
  induction l as [|y l IH]; intros Hs Hn; cbn [insert_by].
  - split; [intros k' []|exact I].
  - destruct Hs as [Ha Hs]. unfold str_leb at 1. destruct (str_cmp x y) eqn:E.
    + apply str_cmp_eq in E. subst y. exfalso. apply Hn. left; reflexivity.
    + split; [|split; assumption].
      intros k' [<-|Hk]; [exact E|]. eapply str_cmp_lt_trans; [exact E|apply Ha; exact Hk].
    + assert (Eyx : str_cmp y x = Lt) by (rewrite str_cmp_antisym, E; reflexivity).
      split.
      * intros k' Hk. eapply Permutation_in in Hk; [|apply Permutation_sym, insert_by_perm].
        destruct Hk as [<-|Hk]; [exact Eyx|apply Ha; exact Hk].
      * apply IH; [exact Hs|]. intros Hx. apply Hn. right; exact Hx.
Qed.

Lemma sort_ssorted l : NoDup l -> ssorted (sort_by str_leb l).
Proof.
  unfold sort_by. induction 1 as [|x l Hx Hnd IH]; cbn [fold_right]; [exact I|].
  apply insert_ssorted; [exact IH|]. intros Hin. apply Hx.
  apply (sort_by_In_iff str_leb l x). exact Hin.
Qed.

(* ---------- sp_dedup ---------- *)
Lemma sp_dedup_In l x : In x (sp_dedup l) <-> In x l.
Proof.
  induction l as [|y l IH]; cbn [sp_dedup]; [tauto|].
  cbn [In]. rewrite filter_In, IH. split.
  - intros [E|[Hx _]]; auto.
  - intros [E|Hx]; [auto|]. destruct (str_eqb_spec y x) as [E|Hn]; [auto|].
    right. split; [exact Hx|reflexivity].
Qed.

Lemma sp_dedup_NoDup l : NoDup (sp_dedup l).
Proof.
  induction l as [|y l IH]; cbn [sp_dedup]; constructor.
  - rewrite filter_In. intros [_ E]. rewrite str_eqb_refl in E. discriminate.
  - apply NoDup_filter. exact IH.
Qed.

(* ====================================================================================== *)
(* 3. maps: pushing all entries = sp_group                                                  *)
(* ====================================================================================== *)
Lemma ks_ext {V} (m1 : list (str * V)) : forall m2,
  keys_sorted m1 -> keys_sorted m2 -> (forall k, bt_get m1 k = bt_get m2 k) -> m1 = m2.
Proof.
  induction m1 as [|[k1 v1] m1 IH]; intros [|[k2 v2] m2] H1 H2 Hg.
  - reflexivity.
  - specialize (Hg k2). cbn [bt_get] in Hg. rewrite str_eqb_refl in Hg. discriminate.
  - specialize (Hg k1). cbn [bt_get] in Hg. rewrite str_eqb_refl in Hg. discriminate.
  - apply ks_cons_iff in H1 as [A1 S1]. apply ks_cons_iff in H2 as [A2 S2].
    assert (E : k1 = k2).
    { destruct (str_cmp k1 k2) eqn:Ec.
      - apply str_cmp_eq; exact Ec.
      - exfalso. pose proof (Hg k1) as G. cbn [bt_get] in G. rewrite str_eqb_refl in G.
        destruct (str_eqb_spec k2 k1) as [E|_]; [subst; rewrite str_cmp_refl in Ec; discriminate|].
        rewrite (bt_get_lt m2 k1) in G; [discriminate|].
        intros k' v' Hin. eapply str_cmp_lt_trans; [exact Ec|eapply A2; exact Hin].
      - exfalso. assert (Ec' : str_cmp k2 k1 = Lt) by (rewrite str_cmp_antisym, Ec; reflexivity).
        pose proof (Hg k2) as G. cbn [bt_get] in G. rewrite str_eqb_refl in G.
        destruct (str_eqb_spec k1 k2) as [E|_]; [subst; rewrite str_cmp_refl in Ec; discriminate|].
        rewrite (bt_get_lt m1 k2) in G; [discriminate|].
        intros k' v' Hin. eapply str_cmp_lt_trans; [exact Ec'|eapply A1; exact Hin]. }
    subst k2.
    pose proof (Hg k1) as G. cbn [bt_get] in G. rewrite str_eqb_refl in G. injection G as ->.
    f_equal. apply IH; auto.
    intros k. destruct (str_eqb_spec k1 k) as [<-|Hn].
    + rewrite (bt_get_lt m1 k1 A1), (bt_get_lt m2 k1 A2). reflexivity.
    + specialize (Hg k). cbn [bt_get] in Hg.
      destruct (str_eqb_spec k1 k) as [E|_]; [contradiction|]. exact Hg.
Qed.

Definition push_all {V} (es : list (str * V)) (m : list (str * list V)) : list (str * list V) :=
  fold_left (fun m e => bt_push (fst e) (snd e) m) es m.

Definition vals_of {V} (es : list (str * V)) (k : str) : list V :=
  map snd (filter (fun e => str_eqb (fst e) k) es).

Lemma push_all_spec {V} (es : list (str * V)) : forall m,
  keys_sorted m ->
  keys_sorted (push_all es m)
  /\ forall k, bt_get (push_all es m) k = opt_app (bt_get m k) (vals_of es k).
Proof.
  unfold push_all, vals_of.
  induction es as [|[k0 v0] es IH]; intros m Hs; cbn [fold_left].
  - split; [exact Hs|]. intros k. reflexivity.
  - cbn [fst snd]. destruct (IH (bt_push k0 v0 m) (bt_push_sorted k0 v0 m Hs)) as [Hk Hg].
    split; [exact Hk|]. intros k. rewrite Hg. cbn [filter fst].
    destruct (str_eqb_spec k0 k) as [->|Hn].
    + rewrite bt_get_push_same by exact Hs. cbn [map snd]. apply opt_app_push.
    + rewrite bt_get_push_other by auto. reflexivity.
Qed.

Lemma push_all_app {V} (a b : list (str * V)) m : push_all (a ++ b) m = push_all b (push_all a m).
Proof. unfold push_all. apply fold_left_app. Qed.

Lemma bt_get_keys {V} (f : str -> V) (l : list str) (k : str) :
  (In k l -> bt_get (map (fun x => (x, f x)) l) k = Some (f k))
  /\ (~ In k l -> bt_get (map (fun x => (x, f x)) l) k = None).
Proof.
  induction l as [|x l [IH1 IH2]]; cbn [map bt_get]; split.
  - intros [].
  - reflexivity.
  - intros Hin. destruct (str_eqb_spec x k) as [->|Hn]; [reflexivity|].
    apply IH1. destruct Hin as [E|Hin]; [contradiction|exact Hin].
  - intros Hin. destruct (str_eqb_spec x k) as [->|Hn].
    + exfalso. apply Hin. left; reflexivity.
    + apply IH2. intros Hx. apply Hin. right; exact Hx.
Qed.

Lemma vals_of_nil {V} (es : list (str * V)) k : ~ In k (map fst es) -> vals_of es k = [].
Proof.
  unfold vals_of. induction es as [|[k0 v0] es IH]; cbn [map fst filter]; [reflexivity|].
  intros Hn. destruct (str_eqb_spec k0 k) as [->|_].
  - exfalso. apply Hn. left; reflexivity.
  - apply IH. intros Hx. apply Hn. right; exact Hx.
Qed.

Lemma vals_of_cons {V} (es : list (str * V)) k : In k (map fst es) -> vals_of es k <> [].
Proof.
  unfold vals_of. induction es as [|[k0 v0] es IH]; cbn [map fst filter]; [intros []|].
  intros Hin. destruct (str_eqb_spec k0 k) as [->|Hn]; [discriminate|].
  apply IH. destruct Hin as [E|Hin]; [contradiction|exact Hin].
Qed.

Lemma sp_group_spec (es : list (str * str)) :
  keys_sorted (sp_group es)
  /\ forall k, bt_get (sp_group es) k = opt_app None (vals_of es k).
Proof.
  unfold sp_group. fold (vals_of es).
  set (keys := sort_by str_leb (sp_dedup (map fst es))).
  assert (Hin : forall k, In k keys <-> In k (map fst es)).
  { intros k. unfold keys. rewrite sort_by_In_iff. apply sp_dedup_In. }
  split.
  - apply keys_sorted_ssorted. rewrite map_map. cbn [fst]. rewrite map_id.
    apply sort_ssorted. apply sp_dedup_NoDup.
  - intros k.
    change (fun k0 : str => (k0, map snd (filter (fun e : str * str => str_eqb (fst e) k0) es)))
      with (fun k0 : str => (k0, vals_of es k0)).
    destruct (bt_get_keys (vals_of es) keys k) as [G1 G2].
    destruct (in_dec (list_eq_dec N.eq_dec) k (map fst es)) as [Hk|Hk].
    + rewrite G1 by (apply Hin; exact Hk). pose proof (vals_of_cons es k Hk) as Hne.
      destruct (vals_of es k); [contradiction|reflexivity].
    + rewrite G2 by (rewrite Hin; exact Hk). rewrite vals_of_nil by exact Hk. reflexivity.
Qed.

Theorem push_all_is_group (es : list (str * str)) : push_all es [] = sp_group es.
Proof.
  destruct (push_all_spec es [] I) as [K1 G1]. destruct (sp_group_spec es) as [K2 G2].
  apply ks_ext; auto. intros k. rewrite G1, G2. reflexivity.
Qed.

(* every list in a map built by bt_push is non-empty *)
Definition ne_lists {V} (m : list (str * list V)) : Prop := Forall (fun e => snd e <> []) m.

Lemma bt_push_ne {V} k (v : V) m : ne_lists m -> ne_lists (bt_push k v m).
Proof.
  unfold ne_lists. induction m as [|[k1 vs] m IH]; intros Hm; cbn [bt_push].
  - constructor; [cbn; discriminate|constructor].
  - inversion Hm as [|x l Hx Hl]; subst. destruct (str_cmp k k1).
    + constructor; [|exact Hl]. cbn [snd] in *. destruct vs; discriminate.
    + constructor; [cbn; discriminate|exact Hm].
    + constructor; [exact Hx|apply IH; exact Hl].
Qed.

Lemma push_all_ne {V} (es : list (str * V)) : forall m, ne_lists m -> ne_lists (push_all es m).
Proof.
  unfold push_all. induction es as [|e es IH]; intros m Hm; cbn [fold_left]; [exact Hm|].
  apply IH. apply bt_push_ne. exact Hm.
Qed.

Lemma fold_left_map {A B C} (f : A -> C -> A) (g : B -> C) l : forall a,
  fold_left f (map g l) a = fold_left (fun a x => f a (g x)) l a.
Proof. induction l as [|x l IH]; intros a; cbn [map fold_left]; auto. Qed.

(* ====================================================================================== *)
(* 4. first degree                                                                          *)
(* ====================================================================================== *)
Lemma sp_supported_pred q : sp_supported q = true -> exists p, q_pred q = Iri p.
Proof.
  destruct q as [[[s p] o] g]. unfold sp_supported. rewrite !andb_true_iff.
  intros [[[Hp _] _] _]. destruct p; try discriminate. eexists; reflexivity.
Qed.

Lemma is_bad_rdf t : is_bad t = negb (is_rdf_term t).
Proof. destruct t; reflexivity. Qed.

Lemma sp_supported_supported_q q : sp_supported q = true -> supported_q q = true.
Proof.
  destruct q as [[[s p] o] g]. intros Hq. pose proof (sp_supported_inv _ _ _ _ Hq) as (Hs & Hp & Ho & Hg).
  destruct (sp_supported_pred _ Hq) as [p0 E]. cbn [q_pred] in E. subst p.
  unfold supported_q. cbn [q_pred bnode_id andb comps].
  destruct g as [gn|]; cbn [app forallb snd]; rewrite !is_bad_rdf, Hs, Ho, ?Hg; reflexivity.
Qed.

Lemma sp_supported_supported d : forallb sp_supported d = true -> supported d = true.
Proof.
  unfold supported. induction d as [|q d IH]; cbn [forallb]; [auto|].
  rewrite !andb_true_iff. intros [Hq Hd]. split; [apply sp_supported_supported_q; exact Hq|auto].
Qed.

Lemma comp_label_sp c : comp_label c = sp_label (snd c).
Proof. unfold comp_label. destruct (snd c); reflexivity. Qed.

Lemma bnodes_q_sp q : sp_supported q = true ->
  bnodes_q q = flat_map (fun pt => sp_label (snd pt)) (sp_positions q).
Proof.
  intros Hq. destruct (sp_supported_pred _ Hq) as [p0 E].
  destruct q as [[[s p] o] g]. cbn [q_pred] in E. subst p.
  unfold bnodes_q, comps, sp_positions.
  destruct g; cbn [flat_map app]; rewrite !comp_label_sp; reflexivity.
Qed.

Lemma existsb_flat_map {A B} (f : B -> bool) (g : A -> list B) l :
  existsb f (flat_map g l) = existsb (fun x => existsb f (g x)) l.
Proof.
  induction l as [|x l IH]; cbn [flat_map existsb]; [reflexivity|].
  rewrite existsb_app, IH. reflexivity.
Qed.

Lemma mentions_sp b q : sp_supported q = true -> mentions b q = sp_mentions b q.
Proof.
  intros Hq. unfold mentions, sp_mentions, mem. rewrite (bnodes_q_sp q Hq).
  apply existsb_flat_map.
Qed.

Lemma filter_ext_in' {A} (f g : A -> bool) l :
  (forall a, In a l -> f a = g a) -> filter f l = filter g l.
Proof.
  induction l as [|a l IH]; intros Hfg; cbn [filter]; [reflexivity|].
  rewrite (Hfg a (or_introl eq_refl)), IH; [reflexivity|]. intros; apply Hfg; right; auto.
Qed.

Lemma quads_of_sp d b : forallb sp_supported d = true -> filter (mentions b) d = sp_quads_of d b.
Proof.
  intros Hd. unfold sp_quads_of. apply filter_ext_in'. intros q Hq.
  apply mentions_sp. rewrite forallb_forall in Hd. apply Hd; exact Hq.
Qed.

Lemma h1d_sp_h1 H d b : forallb sp_supported d = true ->
  h1d H b (filter (mentions b) d) = sp_h1 H d b.
Proof.
  intros Hd. unfold h1d, sp_h1. rewrite (quads_of_sp d b Hd). f_equal. f_equal. f_equal.
  apply map_ext_in. intros q Hq. apply h1d_line_is_canonical.
  unfold sp_quads_of in Hq. apply filter_In in Hq as [Hq _].
  rewrite forallb_forall in Hd. apply Hd; exact Hq.
Qed.

Lemma bnodes_In_mentions d b : In b (bnodes d) <-> existsb (mentions b) d = true.
Proof.
  unfold bnodes. rewrite in_flat_map, existsb_exists. split; intros [q [Hq Hb]]; exists q; split; auto.
  - apply mem_In; exact Hb.
  - apply mem_In; exact Hb.
Qed.

Theorem first_degree_agrees : forall H d b,
  forallb sp_supported d = true -> In b (bnodes d) ->
  first_degree H true d b = Some (sp_h1 H d b).
Proof.
  intros H d b Hd Hb. unfold first_degree.
  destruct (step2_supported true d [] (sp_supported_supported d Hd)) as [m Hm]. rewrite Hm.
  destruct (b2q_spec d m b Hm) as [_ G]. rewrite G.
  apply bnodes_In_mentions in Hb. rewrite Hb. cbn [option_map]. f_equal.
  apply h1d_sp_h1; exact Hd.
Qed.

(* ---------- the keys and the values of the blank-node-to-quads map ---------- *)
Lemma sp_nodes_bnodes d : forallb sp_supported d = true -> sp_nodes d = sp_dedup (bnodes d).
Proof.
  intros Hd. unfold sp_nodes, bnodes. f_equal.
  induction d as [|q d IH]; cbn [flat_map]; [reflexivity|].
  cbn [forallb] in Hd. apply andb_true_iff in Hd as [Hq Hd].
  rewrite (bnodes_q_sp q Hq), IH by exact Hd. reflexivity.
Qed.

Lemma bt_get_in_keys {V} (m : list (str * V)) k : In k (map fst m) <-> bt_get m k <> None.
Proof.
  split.
  - intros Hin E. apply bt_get_None_notin in E. contradiction.
  - intros Hn. destruct (bt_get m k) as [v|] eqn:E; [|contradiction].
    apply bt_get_Some_In in E. apply (in_map fst) in E. exact E.
Qed.

Lemma ks_In_get {V} (m : list (str * V)) k v : keys_sorted m -> In (k, v) m -> bt_get m k = Some v.
Proof.
  induction m as [|[k1 v1] m IH]; intros Hs Hin; [destruct Hin|].
  apply ks_cons_iff in Hs as [Ha Hs]. cbn [bt_get]. destruct Hin as [E|Hin].
  - injection E as -> ->. rewrite str_eqb_refl. reflexivity.
  - destruct (str_eqb_spec k1 k) as [->|Hn].
    + exfalso. apply (str_lt_irrefl k). eapply Ha; exact Hin.
    + apply IH; assumption.
Qed.

Theorem b2q_keys : forall d m, forallb sp_supported d = true -> step2 true d [] = Ok m ->
  map fst m = label_order (sp_nodes d).
Proof.
  intros d m Hd Hm. unfold label_order.
  destruct (b2q_spec d m [] Hm) as [Hk _].
  apply ssorted_unique.
  - apply keys_sorted_ssorted; exact Hk.
  - apply sort_ssorted. rewrite (sp_nodes_bnodes d Hd). apply sp_dedup_NoDup.
  - intros k. rewrite sort_by_In_iff, (sp_nodes_bnodes d Hd), sp_dedup_In, bnodes_In_mentions.
    rewrite bt_get_in_keys. destruct (b2q_spec d m k Hm) as [_ G]. rewrite G.
    destruct (existsb (mentions k) d); split; congruence.
Qed.

Theorem b2q_values : forall d m k qs, step2 true d [] = Ok m -> In (k, qs) m ->
  qs = filter (mentions k) d.
Proof.
  intros d m k qs Hm Hin. destruct (b2q_spec d m k Hm) as [Hk G].
  rewrite (ks_In_get m k qs Hk Hin) in G.
  destruct (existsb (mentions k) d); congruence.
Qed.

Theorem b2h_is_spec : forall H d m, forallb sp_supported d = true -> step2 true d [] = Ok m ->
  step3_b2h H m = map (fun n => (n, sp_h1 H d n)) (label_order (sp_nodes d)).
Proof.
  intros H d m Hd Hm. rewrite <- (b2q_keys d m Hd Hm). unfold step3_b2h. rewrite map_map.
  apply map_ext_in. intros [k qs] Hin. cbn [fst snd]. f_equal.
  rewrite (b2q_values d m k qs Hm Hin). apply h1d_sp_h1; exact Hd.
Qed.

(* step 3 of the canonicalization algorithm: the hash to blank nodes map *)
Theorem h2b_is_spec : forall H d m, forallb sp_supported d = true -> step2 true d [] = Ok m ->
  step3_h2b (step3_b2h H m)
  = sp_group (map (fun n => (sp_h1 H d n, n)) (label_order (sp_nodes d))).
Proof.
  intros H d m Hd Hm. rewrite (b2h_is_spec H d m Hd Hm). unfold step3_h2b.
  rewrite <- push_all_is_group. unfold push_all.
  rewrite !fold_left_map. reflexivity.
Qed.
