(* C07/EntryModel.v -- the two public entry points with their error channel.
     isomorphic_datasets (isomorphism/src/dataset.rs):
         let mut d1 = prepare_dataset(d1).map_err(SourceError)?;
         let mut d2 = prepare_dataset(d2).map_err(SinkError)?;   ... the pure algorithm ...
     prepare_dataset: d.quads().map(..).collect::<Result<Vec<_>, _>>()  -- stops at the first Err
     isomorphic_graphs (isomorphism/src/graph.rs):
         isomorphic_datasets(&g1.as_dataset(), &g2.as_dataset())          -- no pre-check of its own
     GraphAsDataset::quads (api/src/dataset/adapter.rs): triples().map(|r| r.map(Triple::into_quad)),
     into_quad = (spo, None).
   A fallible dataset is the list of the results its iterator yields.  Definitions only. *)
From Sophia.C07 Require Import Model.

Inductive res (A E : Type) : Type := ROk (a : A) | RErr (e : E).
Arguments ROk {A E} a.
Arguments RErr {A E} e.
(* sophia_api::source::StreamError *)
Inductive serr (E1 E2 : Type) : Type := SourceError (e : E1) | SinkError (e : E2).
Arguments SourceError {E1 E2} e.
Arguments SinkError {E1 E2} e.

Definition res_map {A B E} (f : A -> B) (r : res A E) : res B E :=
  match r with ROk a => ROk (f a) | RErr e => RErr e end.

(* collect::<Result<Vec<_>, E>>(): the items before the first error, or that error *)
Fixpoint prepare {A E} (d : list (res A E)) : res (list A) E :=
  match d with
  | [] => ROk []
  | RErr e :: _ => RErr e
  | ROk q :: r => match prepare r with ROk l => ROk (q :: l) | RErr e => RErr e end
  end.
(* how many items the iterator was asked to produce (it is not polled after an error) *)
Fixpoint pulls {A E} (d : list (res A E)) : nat :=
  match d with
  | [] => O
  | RErr _ :: _ => 1%nat
  | ROk _ :: r => S (pulls r)
  end.

Section Entry.
Variable Hv : vquad -> N.
Variable teq : term -> term -> bool.
Variable tcmp : term -> term -> comparison.
Variable fuel : nat.
Context {E1 E2 : Type}.

(* the answer: Ok(bool) / Err(SourceError e) / Err(SinkError e); the [option] is the fuel of
   the pure model (None = the loop did not stop within the fuel) *)
Definition iso_datasets_res (d1 : list (res quad E1)) (d2 : list (res quad E2))
  : res (option bool) (serr E1 E2) :=
  match prepare d1 with
  | RErr e => RErr (SourceError e)
  | ROk q1 =>
      match prepare d2 with
      | RErr e => RErr (SinkError e)
      | ROk q2 => ROk (isomorphic Hv teq tcmp fuel q1 q2)
      end
  end.
(* items pulled from each argument: d2 is not touched when d1 fails *)
Definition iso_datasets_pulls (d1 : list (res quad E1)) (d2 : list (res quad E2)) : nat * nat :=
  (pulls d1, match prepare d1 with RErr _ => O | ROk _ => pulls d2 end).

(* graphs: lists of results of triples *)
Definition trip := (term * term * term)%type.
Definition into_quad (t : trip) : quad := let '(s, p, o) := t in mkQ s p o None.
Definition as_dataset {E} (g : list (res trip E)) : list (res quad E) := map (res_map into_quad) g.
Definition iso_graphs_res (g1 : list (res trip E1)) (g2 : list (res trip E2))
  : res (option bool) (serr E1 E2) :=
  iso_datasets_res (as_dataset g1) (as_dataset g2).
Definition iso_graphs_pulls (g1 : list (res trip E1)) (g2 : list (res trip E2)) : nat * nat :=
  iso_datasets_pulls (as_dataset g1) (as_dataset g2).
End Entry.

Definition triple_of (q : quad) : trip := (qs q, qp q, qo q).
(* dataset.graph(name): the triples of the statements whose graph name is Term::eq to [name] *)
Definition graph_view (name : option term) (d : list quad) : list trip :=
  map triple_of (filter (fun q => opt_eqb term_eqb (qg q) name) d).

(* ---------- harness-facing checkers (errors are numbered) ---------- *)
Definition obs := res bool (serr N N).
Definition obs_eqb (m : res (option bool) (serr N N)) (o : obs) : bool :=
  match m, o with
  | ROk (Some b), ROk b' => Bool.eqb b b'
  | RErr (SourceError e), RErr (SourceError e') => N.eqb e e'
  | RErr (SinkError e), RErr (SinkError e') => N.eqb e e'
  | _, _ => false
  end.
Definition ds_ok (d1 d2 : list (res quad N)) (o : obs) (p1 p2 : nat) : bool :=
  obs_eqb (iso_datasets_res Hfnv iso_eqb iso_cmp 64 d1 d2) o
  && (let '(m1, m2) := iso_datasets_pulls d1 d2 in Nat.eqb m1 p1 && Nat.eqb m2 p2).
Definition gr_ok (g1 g2 : list (res trip N)) (o : obs) (p1 p2 : nat) : bool :=
  obs_eqb (iso_graphs_res Hfnv iso_eqb iso_cmp 64 g1 g2) o
  && (let '(m1, m2) := iso_graphs_pulls g1 g2 in Nat.eqb m1 p1 && Nat.eqb m2 p2).
(* one graph of a dataset seen through Dataset::graph against a stand-alone list of triples *)
Definition view_ok (name : option term) (d1 : list quad) (g2 : list trip) (answer : bool) : bool :=
  obs_eqb (iso_graphs_res Hfnv iso_eqb iso_cmp 64
             (map (@ROk trip N) (graph_view name d1)) (map (@ROk trip N) g2)) (ROk answer).
