(* C15/Properties.v -- pinned statements of property C15. *)
From Sophia.C15 Require Import Model Proofs.
From Sophia.Common Require Import Term.
From Sophia.C03 Require Import Model.
From Sophia.C15 Require Import Generic GenericProofs ParserSource ParserProofs
  SerializerSink SerializerProofs EndToEnd EndToEndProofs.

(* refinement of the adapter stack (any depth) to "filter_map, stop at the first fault" *)
Check (try_for_each_spec : forall St src chain (f : sink St) st,
  try_for_each St src chain f st = spec St src chain f st).
Check (wrap_through : forall St chain (f : sink St) x st,
  wrap St chain f x st = match through chain x with Some y => f y st | None => (st, None) end).
(* step-wise driving = whole-stream driving *)
Check (stepwise_is_try_for_each : forall St src chain (f : sink St) st fuel,
  (length src < fuel)%nat -> stepwise St fuel src chain f st = try_for_each St src chain f st).
Check (try_for_some_pulls_one : forall St src chain (f : sink St) st,
  let '(rest, _, o) := try_for_some St src chain f st in
  match src with [] => rest = [] /\ o = Done | _ :: tl => rest = tl end).
(* source fault in any step (after that step's own items), any chain, any consumer state *)
Check (source_fault_prefix : forall chain fault steps last e post st,
  not_reached fault (length (st ++ fm chain (items_of steps ++ last))) ->
  try_for_each _ (clean steps ++ (last, Some e) :: post) chain (rec_sink fault) st
  = (post, st ++ fm chain (items_of steps ++ last), SourceError e)).
(* sink fault at any position inside any step *)
Check (sink_fault_prefix : forall chain steps pre x y rest_of_batch oe post j e st,
  through chain x = Some y ->
  length (st ++ fm chain (items_of steps ++ pre)) = j ->
  try_for_each _ (clean steps ++ (pre ++ x :: rest_of_batch, oe) :: post) chain (rec_sink (Some (j, e))) st
  = (post, st ++ fm chain (items_of steps ++ pre) ++ [y], SinkError e)).
(* no fault *)
Check (no_fault_all : forall chain fault steps st,
  not_reached fault (length (st ++ fm chain (items_of steps))) ->
  try_for_each _ (clean steps) chain (rec_sink fault) st = ([], st ++ fm chain (items_of steps), Done)).
(* the iterator-backed source (one item per step) *)
Check (iterator_source_fault : forall chain fault pre e post st,
  not_reached fault (length (st ++ fm chain pre)) ->
  try_for_each _ (of_results (map inl pre ++ inr e :: post)) chain (rec_sink fault) st
  = (of_results post, st ++ fm chain pre, SourceError e)).
(* what the chain computes *)
Check (fm_nil : forall l, fm [] l = l).
Check (fm_filter : forall p c l, fm (AFilter p :: c) l = fm c (filter p l)).
Check (fm_map : forall m c l, fm (AMap m :: c) l = fm c (map m l)).
(* MapSource / FilterMapSource turned back into iterators lose, duplicate and reorder nothing *)
Check (drain_all : forall chain fuel src buf,
  (length (buf ++ all_out chain src) < fuel)%nat ->
  drain fuel chain (src, buf) = buf ++ all_out chain src).
(* insert_all returns the number of effective changes *)
Check (insert_all_count : forall chain steps s c, NoDup s ->
  let '(rest, (s', c'), o) := try_for_each _ (clean steps) chain (insert_sink None 0) (s, c) in
  o = Done /\ rest = [] /\ NoDup s'
  /\ (c' - c = length s' - length s)%nat /\ (c <= c')%nat
  /\ (forall x, In x s' <-> In x s \/ In x (fm chain (items_of steps)))).

(* non-vacuity: a depth-3 chain, a source fault in the middle, a sink fault on the second item,
   a parser-like step delivering two items and then failing, drained through an iterator *)
Example ex_source_fault :
  run_rec (of_results [inl 1; inl 2; inl 4; inr 7; inl 6]) [DFilterEven; DMapSucc; DFilterMapLtSucc 5] None
  = ([4], KSource 7, 4).
Proof. vm_compute. reflexivity. Qed.
Example ex_sink_fault :
  run_rec (of_results [inl 2; inl 3; inl 4; inl 6; inr 9]) [DFilterEven; DMapSucc] (Some (1%nat, 5))
  = ([3; 5], KSink 5, 3).
Proof. vm_compute. reflexivity. Qed.
Example ex_batch_iter :
  drain 10 (map adapter_of [DMapSucc]) ([([1], None); ([2; 3], Some 9); ([4], None)], [])
  = [inl 2; inl 3; inl 4; inr 9; inl 5].
Proof. vm_compute. reflexivity. Qed.

Print Assumptions try_for_each_spec.
Print Assumptions wrap_through.
Print Assumptions stepwise_is_try_for_each.
Print Assumptions try_for_some_pulls_one.
Print Assumptions source_fault_prefix.
Print Assumptions sink_fault_prefix.
Print Assumptions no_fault_all.
Print Assumptions iterator_source_fault.
Print Assumptions fm_nil.
Print Assumptions fm_filter.
Print Assumptions fm_map.
Print Assumptions drain_all.
Print Assumptions insert_all_count.

(* ================================================================================================ *)
(*  The concrete ends: Rio N-Triples / N-Quads line parser as source, Nt/Nq serializer as consumer   *)
(* ================================================================================================ *)

(* ---- the pipeline for any item / error types; Model.v is its instance N ---- *)
Check (generic_is_model_each : forall St src chain (f : sink St) st,
  gtry_for_each src (map gad chain) f st
  = (let '(rest, st', o) := try_for_each St src chain f st in (rest, st', gout o))).
Check (generic_is_model_some : forall St src chain (f : sink St) st,
  gtry_for_some src (map gad chain) f st
  = (let '(rest, st', o) := try_for_some St src chain f st in (rest, st', gout o))).
Check (generic_is_model_through : forall chain x, gthrough (map gad chain) x = through chain x).
Check (rec_sink_is_pred : forall fault y st,
  rec_sink fault y st
  = pred_sink (fun st _ => match fault with
                           | Some (j, e) => if Nat.eqb (length st) j then Some e else None
                           | None => None
                           end) y st).
(* every consumer f, every consumer state: "f survives the image of the prefix" is the only hypothesis *)
Check (@g_source_fault : forall A ES EK St chain (f : gsink A EK St) steps last (e : ES) post st st',
  gfeed f (gfm chain (concat steps ++ last)) st = (st', None) ->
  gtry_for_each (gclean steps ++ (last, Some e) :: post) chain f st = (post, st', GSourceError e)).
Check (@g_sink_fault : forall A ES EK St chain (f : gsink A EK St) steps pre x y rest_of_batch
    (oe : option ES) post e st st1 st2,
  gfeed f (gfm chain (concat steps ++ pre)) st = (st1, None) ->
  gthrough chain x = Some y ->
  f y st1 = (st2, Some e) ->
  gtry_for_each (gclean steps ++ (pre ++ x :: rest_of_batch, oe) :: post) chain f st
  = (post, st2, GSinkError e)).
Check (@g_no_fault : forall A ES EK St chain (f : gsink A EK St) steps st st',
  gfeed f (gfm chain (concat steps)) st = (st', None) ->
  gtry_for_each (ES := ES) (gclean steps) chain f st = ([], st', GDone)).
Check (@gstepwise_is_try_for_each : forall A ES EK St (src : gsource A ES) chain (f : gsink A EK St) st fuel,
  (length src < fuel)%nat -> gstepwise fuel src chain f st = gtry_for_each src chain f st).
(* the recording consumer with an ARBITRARY failure predicate *)
Check (@pred_sink_quiet : forall A EK (fail : list A -> A -> option EK) ys st,
  quiet fail st ys -> gfeed (pred_sink fail) ys st = (st ++ ys, None)).
(* insert_all counts the NEW elements (any item type with decidable equality) *)
Check (@g_insert_count : forall A EK (eqb : A -> A -> bool),
  (forall x y, eqb x y = true <-> x = y) ->
  forall ys s c, NoDup s ->
  exists s' c',
    gfeed (ginsert_sink (EK := EK) eqb) ys (s, c) = ((s', c'), None)
    /\ NoDup s' /\ (c' = c + (length s' - length s))%nat /\ (length s <= length s')%nat
    /\ (forall x, In x s' <-> In x s \/ In x ys)).

(* ---- the line parser: for EVERY line reader parse_line ---- *)
(* every text is LF-terminated LF-free lines plus an LF-free rest; either all lines are readable
   or there is a first unreadable one: the case split of (a)/(c) below is exhaustive *)
Check (split_doc_spec : forall t,
  let '(ls, tl) := split_doc t in
  t = unlines ls ++ tl /\ forallb no_lf ls = true /\ no_lf tl = true).
Check (@lines_first_bad : forall A (parse_line : list N -> option (option A)) ls,
  lines_ok parse_line ls = true \/
  exists pre bad post, ls = pre ++ bad :: post /\ lines_ok parse_line pre = true /\ parse_line bad = None).
(* the unbounded Rust loop: the model's fuel is never exhausted *)
Check (@rio_never_out_of_fuel : forall A (parse_line : list N -> option (option A)) EK St chain
    (f : gsink A EK St) fuel (s : pstate) k,
  (length (fst s) < fuel)%nat -> snd (rio_try_for_each parse_line fuel s chain f k) <> GMore).
(* refinement, no hypothesis about faults: the parser driven through try_for_each_item behaves as
   the abstract source with one step per line; it has read exactly as many lines as steps were made *)
Check (@rio_refines : forall A (parse_line : list N -> option (option A)) EK St chain
    (f : gsink A EK St) ls tail fuel n k,
  forallb no_lf ls = true -> no_lf tail = true ->
  (S (length (all_lines ls tail)) < fuel)%nat ->
  let '(rest, k', o) := gtry_for_each (abs_lines parse_line n (all_lines ls tail)) chain f k in
  let m := (length (all_lines ls tail) - length rest)%nat in
  rio_try_for_each parse_line fuel (unlines ls ++ tail, n) chain f k
  = ((drop_lines m ls tail, n + N.of_nat m), k', o)).
(* (a) first unreadable line *)
Check (@parser_source_fault : forall A (parse_line : list N -> option (option A)) EK St chain
    (f : gsink A EK St) pre t bad post fuel n k k',
  forallb no_lf pre = true -> lines_ok parse_line pre = true ->
  t <> [] -> cut_line t = (bad, post) -> parse_line bad = None ->
  gfeed f (gfm chain (stmts parse_line pre)) k = (k', None) ->
  (length pre < fuel)%nat ->
  rio_try_for_each parse_line fuel (unlines pre ++ t, n) chain f k
  = ((post, n + N.of_nat (length pre) + 1), k', GSourceError (n + N.of_nat (length pre)))).
(* (b) the consumer fails on the image of the statement of line l; `post` is not parsed *)
Check (@parser_sink_fault : forall A (parse_line : list N -> option (option A)) EK St chain
    (f : gsink A EK St) pre t l post x y e fuel n k k1 k2,
  forallb no_lf pre = true -> lines_ok parse_line pre = true ->
  t <> [] -> cut_line t = (l, post) -> parse_line l = Some (Some x) ->
  gthrough chain x = Some y ->
  gfeed f (gfm chain (stmts parse_line pre)) k = (k1, None) ->
  f y k1 = (k2, Some e) ->
  (length pre < fuel)%nat ->
  rio_try_for_each parse_line fuel (unlines pre ++ t, n) chain f k
  = ((post, n + N.of_nat (length pre) + 1), k2, GSinkError e)).
(* (c) no fault *)
Check (@parser_no_fault : forall A (parse_line : list N -> option (option A)) EK St chain
    (f : gsink A EK St) ls tail fuel n k k',
  forallb no_lf ls = true -> no_lf tail = true -> lines_ok parse_line (all_lines ls tail) = true ->
  gfeed f (gfm chain (stmts parse_line (all_lines ls tail))) k = (k', None) ->
  (length (all_lines ls tail) < fuel)%nat ->
  rio_try_for_each parse_line fuel (unlines ls ++ tail, n) chain f k
  = (([], n + N.of_nat (length (all_lines ls tail))), k', GDone)).

(* ---- whole documents (the reader starts on a synthetic empty line 0), recording consumer with an
   arbitrary failure predicate; line numbers are those of the TurtleError position ---- *)
Check (@doc_rec_source_fault : forall A (parse_line : list N -> option (option A)),
  parse_line [] = Some None ->
  forall EK (fail : list A -> A -> option EK) chain pre t bad post doc st,
  doc = unlines pre ++ t ->
  forallb no_lf pre = true -> lines_ok parse_line pre = true ->
  t <> [] -> cut_line t = (bad, post) -> parse_line bad = None ->
  quiet fail st (gfm chain (stmts parse_line pre)) ->
  rio_run parse_line doc chain (pred_sink fail) st
  = ((post, N.of_nat (length pre) + 2), st ++ gfm chain (stmts parse_line pre),
     GSourceError (N.of_nat (length pre) + 1))).
Check (@doc_rec_sink_fault : forall A (parse_line : list N -> option (option A)),
  parse_line [] = Some None ->
  forall EK (fail : list A -> A -> option EK) chain pre t l post x y e doc st,
  doc = unlines pre ++ t ->
  forallb no_lf pre = true -> lines_ok parse_line pre = true ->
  t <> [] -> cut_line t = (l, post) -> parse_line l = Some (Some x) ->
  gthrough chain x = Some y ->
  quiet fail st (gfm chain (stmts parse_line pre)) ->
  fail (st ++ gfm chain (stmts parse_line pre)) y = Some e ->
  rio_run parse_line doc chain (pred_sink fail) st
  = ((post, N.of_nat (length pre) + 2), st ++ gfm chain (stmts parse_line pre) ++ [y], GSinkError e)).
Check (@doc_rec_no_fault : forall A (parse_line : list N -> option (option A)),
  parse_line [] = Some None ->
  forall EK (fail : list A -> A -> option EK) chain ls tail doc st,
  doc = unlines ls ++ tail ->
  forallb no_lf ls = true -> no_lf tail = true -> lines_ok parse_line (all_lines ls tail) = true ->
  quiet fail st (gfm chain (stmts parse_line (all_lines ls tail))) ->
  rio_run parse_line doc chain (pred_sink fail) st
  = (([], N.of_nat (length (all_lines ls tail)) + 1),
     st ++ gfm chain (stmts parse_line (all_lines ls tail)), GDone)).
Check (@doc_insert_count : forall A (parse_line : list N -> option (option A)),
  parse_line [] = Some None ->
  forall (eqb : A -> A -> bool) EK chain ls tail doc s c,
  (forall x y, eqb x y = true <-> x = y) ->
  doc = unlines ls ++ tail ->
  forallb no_lf ls = true -> no_lf tail = true -> lines_ok parse_line (all_lines ls tail) = true ->
  NoDup s ->
  exists s' c',
    rio_run parse_line doc chain (ginsert_sink (EK := EK) eqb) (s, c)
    = (([], N.of_nat (length (all_lines ls tail)) + 1), (s', c'), GDone)
    /\ NoDup s' /\ (c' = c + (length s' - length s))%nat
    /\ (forall x, In x s' <-> In x s \/ In x (gfm chain (stmts parse_line (all_lines ls tail))))).
Check (quad_eqx_eq : forall a b : quad, quad_eqx a b = true <-> a = b).

(* ---- the serializers as consumers over a failing io::Write ---- *)
(* the buffers handed to write_all, concatenated, are the bytes of C03's writer *)
Check (term_chunks_concat : forall t, concat (term_chunks t) = write_term t).
Check (stmt_chunks_concat : forall q, concat (stmt_chunks q) = nq_write_quad q).
(* ANY writer (any policy: short writes, Ok(0), errors at any call) *)
Check (ser_statement : forall pol q w,
  let '(w', oe) := ser_sink pol q w in op_ok w w' (nq_write_quad q) oe).
Check (ser_prefix : forall pol qs w,
  let '(w', oe) := gfeed (ser_sink pol) qs w in
  match oe with
  | None => w_acc w' = w_acc w ++ nq_write qs
  | Some _ =>
      exists done q rest k,
        qs = done ++ q :: rest /\ (k < length (nq_write_quad q))%nat
        /\ w_acc w' = w_acc w ++ nq_write done ++ firstn k (nq_write_quad q)
  end
  /\ (w_failed w = false -> w_after w' = w_after w /\ (oe = None -> w_failed w' = false))).
(* the byte-budget writer: exactly the first b bytes, failure iff the serialisation is longer *)
Check (ser_budget : forall b cap code, (1 <= cap)%nat -> forall qs w,
  (length (w_acc w) <= b)%nat ->
  let '(w', oe) := gfeed (ser_sink (budget_pol b cap code)) qs w in
  w_acc w' = firstn b (w_acc w ++ nq_write qs)
  /\ oe = over b code (length (w_acc w) + length (nq_write qs))).

(* ---- parser -> adapters -> serializer ---- *)
Check (e2e_writer_fault : forall parse_line, parse_line [] = Some None ->
  forall pol chain pre t l post x y e doc w1 w2,
  doc = unlines pre ++ t ->
  forallb no_lf pre = true -> lines_ok parse_line pre = true ->
  t <> [] -> cut_line t = (l, post) -> parse_line l = Some (Some x) ->
  gthrough chain x = Some y ->
  gfeed (ser_sink pol) (gfm chain (stmts parse_line pre)) w0 = (w1, None) ->
  ser_sink pol y w1 = (w2, Some e) ->
  rio_run parse_line doc chain (ser_sink pol) w0
  = ((post, N.of_nat (length pre) + 2), w2, GSinkError e)
  /\ (exists k, (k < length (nq_write_quad y))%nat
        /\ w_acc w2 = nq_write (gfm chain (stmts parse_line pre)) ++ firstn k (nq_write_quad y))
  /\ w_after w2 = O).
Check (e2e_writer_no_fault : forall parse_line, parse_line [] = Some None ->
  forall pol chain ls tail doc w',
  doc = unlines ls ++ tail ->
  forallb no_lf ls = true -> no_lf tail = true -> lines_ok parse_line (all_lines ls tail) = true ->
  gfeed (ser_sink pol) (gfm chain (stmts parse_line (all_lines ls tail))) w0 = (w', None) ->
  rio_run parse_line doc chain (ser_sink pol) w0
  = (([], N.of_nat (length (all_lines ls tail)) + 1), w', GDone)
  /\ w_acc w' = nq_write (gfm chain (stmts parse_line (all_lines ls tail))) /\ w_after w' = O).
Check (e2e_budget_sink_fault : forall parse_line, parse_line [] = Some None ->
  forall b cap code, (1 <= cap)%nat ->
  forall chain pre t l post x y doc,
  doc = unlines pre ++ t ->
  forallb no_lf pre = true -> lines_ok parse_line pre = true ->
  t <> [] -> cut_line t = (l, post) -> parse_line l = Some (Some x) ->
  gthrough chain x = Some y ->
  (length (nq_write (gfm chain (stmts parse_line pre))) <= b)%nat ->
  (b < length (nq_write (gfm chain (stmts parse_line pre))) + length (nq_write_quad y))%nat ->
  exists w2,
    rio_run parse_line doc chain (ser_sink (budget_pol b cap code)) w0
    = ((post, N.of_nat (length pre) + 2), w2, GSinkError (EDev code))
    /\ w_acc w2 = firstn b (nq_write (gfm chain (stmts parse_line pre) ++ [y]))
    /\ w_after w2 = O).
Check (e2e_budget_source_fault : forall parse_line, parse_line [] = Some None ->
  forall b cap code, (1 <= cap)%nat ->
  forall chain pre t bad post doc,
  doc = unlines pre ++ t ->
  forallb no_lf pre = true -> lines_ok parse_line pre = true ->
  t <> [] -> cut_line t = (bad, post) -> parse_line bad = None ->
  (length (nq_write (gfm chain (stmts parse_line pre))) <= b)%nat ->
  exists w1,
    rio_run parse_line doc chain (ser_sink (budget_pol b cap code)) w0
    = ((post, N.of_nat (length pre) + 2), w1, GSourceError (N.of_nat (length pre) + 1))
    /\ w_acc w1 = nq_write (gfm chain (stmts parse_line pre)) /\ w_after w1 = O).
Check (e2e_budget_no_fault : forall parse_line, parse_line [] = Some None ->
  forall b cap code, (1 <= cap)%nat ->
  forall chain ls tail doc,
  doc = unlines ls ++ tail ->
  forallb no_lf ls = true -> no_lf tail = true -> lines_ok parse_line (all_lines ls tail) = true ->
  (length (nq_write (gfm chain (stmts parse_line (all_lines ls tail)))) <= b)%nat ->
  exists w1,
    rio_run parse_line doc chain (ser_sink (budget_pol b cap code)) w0
    = (([], N.of_nat (length (all_lines ls tail)) + 1), w1, GDone)
    /\ w_acc w1 = nq_write (gfm chain (stmts parse_line (all_lines ls tail))) /\ w_after w1 = O).

(* ---- non-vacuity ---- *)
(* <a:s> <a:p> "x" .      oops      <a:s> <a:p> <a:o> <a:g> . *)
Definition ex_l1 : str := [60;97;58;115;62;32;60;97;58;112;62;32;34;120;34;32;46].
Definition ex_l2 : str := [111;111;112;115].
Definition ex_l3 : str := [60;97;58;115;62;32;60;97;58;112;62;32;60;97;58;111;62;32;60;97;58;103;62;32;46].
Definition ex_q1 : quad := (Iri [97;58;115], Iri [97;58;112], LitDt [120] xsd_string, None).
Definition ex_q3 : quad := (Iri [97;58;115], Iri [97;58;112], Iri [97;58;111], Some (Iri [97;58;103])).
Example ex_readers :
  nq_parse_line [] = Some None /\ nt_parse_line [] = Some None
  /\ nq_parse_line ex_l1 = Some (Some ex_q1) /\ nq_parse_line ex_l2 = None
  /\ nq_parse_line ex_l3 = Some (Some ex_q3) /\ nt_parse_line ex_l3 = None
  /\ nq_parse_line [32; 35; 120] = Some None.
Proof. vm_compute. repeat split; reflexivity. Qed.
(* a 3-line document with an error on line 2: hypotheses of (a) hold, line 3 is left unread *)
Definition ex_doc3 : str := unlines [ex_l1; ex_l2; ex_l3].
Example ex_line2_error :
  rio_run nq_parse_line ex_doc3 [] (pred_sink (fun _ _ => @None N)) []
  = ((ex_l3 ++ [10], 3), [ex_q1], GSourceError 2).
Proof.
  apply (doc_rec_source_fault nq_parse_line nq_blank (fun _ _ => @None N) [] [ex_l1] (unlines [ex_l2; ex_l3]) ex_l2
           (ex_l3 ++ [10]) ex_doc3 []); try reflexivity.
  - discriminate.
  - simpl. auto.
Qed.
Example ex_line2_error_computed :
  run_parse_rec true ex_doc3 [QMapId] None = ([ex_q1], PSource 2, [inl ex_q3]).
Proof. vm_compute. reflexivity. Qed.
(* a consumer failing on its 2nd item, through a chain that drops the graph name *)
Example ex_sink_fault_item2 :
  run_parse_rec true (unlines [ex_l1; ex_l3; ex_l1]) [QMapDropGraph] (Some (1%nat, 5))
  = ([ex_q1; (Iri [97;58;115], Iri [97;58;112], Iri [97;58;111], None)], PSink 5, [inl ex_q1]).
Proof. vm_compute. reflexivity. Qed.
(* a budget that ends inside statement 2 (statement 1 is 17 bytes long) *)
Example ex_budget_inside_statement_2 :
  exists w2,
    rio_run nq_parse_line (unlines [ex_l1; ex_l3]) [] (ser_sink (budget_pol 25 4 77)) w0
    = (([], 3), w2, GSinkError (EDev 77))
    /\ w_acc w2 = firstn 25 (nq_write [ex_q1; ex_q3]) /\ w_after w2 = O.
Proof.
  apply (e2e_budget_sink_fault nq_parse_line nq_blank 25 4 77 ltac:(repeat constructor) [] [ex_l1] (ex_l3 ++ [10]) ex_l3 []
           ex_q3 ex_q3 (unlines [ex_l1; ex_l3])); try reflexivity.
  - discriminate.
  - vm_compute. repeat constructor.
  - vm_compute. repeat constructor.
Qed.
Example ex_budget_computed :
  run_parse_ser true (unlines [ex_l1; ex_l3]) [] false (WBudget 25 4 77)
  = (firstn 25 (nq_write [ex_q1; ex_q3]), 19%nat, 0%nat, SSinkDev 77, []).
Proof. vm_compute. reflexivity. Qed.

Print Assumptions generic_is_model_each.
Print Assumptions generic_is_model_some.
Print Assumptions generic_is_model_through.
Print Assumptions rec_sink_is_pred.
Print Assumptions g_source_fault.
Print Assumptions g_sink_fault.
Print Assumptions g_no_fault.
Print Assumptions gstepwise_is_try_for_each.
Print Assumptions pred_sink_quiet.
Print Assumptions g_insert_count.
Print Assumptions split_doc_spec.
Print Assumptions lines_first_bad.
Print Assumptions rio_never_out_of_fuel.
Print Assumptions rio_refines.
Print Assumptions parser_source_fault.
Print Assumptions parser_sink_fault.
Print Assumptions parser_no_fault.
Print Assumptions doc_rec_source_fault.
Print Assumptions doc_rec_sink_fault.
Print Assumptions doc_rec_no_fault.
Print Assumptions doc_insert_count.
Print Assumptions quad_eqx_eq.
Print Assumptions term_chunks_concat.
Print Assumptions stmt_chunks_concat.
Print Assumptions ser_statement.
Print Assumptions ser_prefix.
Print Assumptions ser_budget.
Print Assumptions e2e_writer_fault.
Print Assumptions e2e_writer_no_fault.
Print Assumptions e2e_budget_sink_fault.
Print Assumptions e2e_budget_source_fault.
Print Assumptions e2e_budget_no_fault.
Print Assumptions ex_line2_error.
Print Assumptions ex_budget_inside_statement_2.

(* ================= bulk methods call by call, consumers behind adapters, flush ================= *)
From Sophia.C15 Require Import Bulk BulkProofs.

(* a store that journals its calls receives exactly what the recording consumer receives: the same
   items, each once, in source order, none after the failure; same rest of the source, same outcome *)
Check (insert_all_journal : forall pol src chain c0,
  let '(rest, st, o) := try_for_each jst src chain (j_insert pol) (mkjst c0 [] O) in
  let '(rest', tr, o') := try_for_each (list item) src chain (rec_sink (p_fail_ins pol)) [] in
  journal st = map CInsert tr /\ rest = rest' /\ o = o').
Check (remove_all_journal : forall pol src chain c0,
  let '(rest, st, o) := try_for_each jst src chain (j_remove pol) (mkjst c0 [] O) in
  let '(rest', tr, o') := try_for_each (list item) src chain (rec_sink (p_fail_rem pol)) [] in
  journal st = map CRemove tr /\ rest = rest' /\ o = o').
Check (insert_all_source_fault : forall pol chain steps last e post c0,
  not_reached (p_fail_ins pol) (length (fm chain (items_of steps ++ last))) ->
  let '(rest, st, o) := bulk_stream true pol [] (clean steps ++ (last, Some e) :: post) chain (mkjst c0 [] O) in
  journal st = map CInsert (fm chain (items_of steps ++ last)) /\ rest = post /\ o = SourceError e).
Check (insert_all_store_fault : forall pol chain steps pre x y rest_of_batch oe post j e c0,
  p_fail_ins pol = Some (j, e) -> through chain x = Some y ->
  length (fm chain (items_of steps ++ pre)) = j ->
  let '(rest, st, o) := bulk_stream true pol [] (clean steps ++ (pre ++ x :: rest_of_batch, oe) :: post) chain (mkjst c0 [] O) in
  journal st = map CInsert (fm chain (items_of steps ++ pre) ++ [y]) /\ rest = post /\ o = SinkError e).
(* remove_matching / retain_matching: one removal per listed matching item (per occurrence), in store order *)
Check (remove_matching_journal : forall pol m c0, p_bad pol = None ->
  let '(st, k) := matching false pol [] m (mkjst c0 [] O) in
  let '(_, tr, o) := try_for_each (list item) (of_results (map inl (filter m c0))) [] (rec_sink (p_fail_rem pol)) [] in
  journal st = map CRemove tr /\ k = kind_of_outcome o).
Check (remove_matching_all_calls : forall pol m c0, p_bad pol = None -> p_fail_rem pol = None ->
  let '(st, k) := matching false pol [] m (mkjst c0 [] O) in
  journal st = map CRemove (filter m c0) /\ k = KDone).
Check (remove_matching_stops_at_the_failing_call : forall pol m c0 j e, p_bad pol = None -> p_fail_rem pol = Some (j, e) ->
  (j < length (filter m c0))%nat ->
  let '(st, k) := matching false pol [] m (mkjst c0 [] O) in
  journal st = map CRemove (firstn (S j) (filter m c0)) /\ k = KSink e).
Check (remove_matching_listing_error : forall pol retain m c0 k e, p_bad pol = Some (k, e) -> (k <= length c0)%nat ->
  matching retain pol [] m (mkjst c0 [] O) = (mkjst c0 [] O, KSource e)).
Check (retain_is_remove_of_the_complement : forall pol ws m st,
  matching true pol ws m st = matching false pol ws (fun x => negb (m x)) st).
Check (bag_remove_matching_leaves_no_match : forall pol m c0,
  p_rm_all pol = false -> p_fail_rem pol = None -> p_bad pol = None ->
  let '(st, k) := matching false pol [] m (mkjst c0 [] O) in
  content st = filter (fun x => negb (m x)) c0 /\ k = KDone).
(* consumers behind adapters *)
Check (mut_ref_forwards : forall St ws (base : sink St),
  w_insert St (WRef :: ws) base = w_insert St ws base /\ w_remove St (WRef :: ws) base = w_remove St ws base).
Check (dataset_graph_writes_into_its_graph : forall St g (base : sink St) x st,
  w_insert St [WGraphMut g] base x st = base (1000 * g + tpart x) st
  /\ gname (1000 * g + tpart x) = g /\ tpart (1000 * g + tpart x) = tpart x).
Check (graph_as_dataset_default : forall St ws (base : sink St) x st, is_named x = false ->
  w_insert St (WAsDataset :: ws) base x st = w_insert St ws base (tpart x) st).
Check (graph_as_dataset_refuses_named : forall St ws (base : sink St) x st, is_named x = true ->
  w_insert St (WAsDataset :: ws) base x st = (st, Some E_ONLY_DEFAULT)).
Check (named_graph_of_graph_as_dataset : forall St g ws (base : sink St) x st, g <> 0 ->
  w_insert St (WGraphMut g :: WAsDataset :: ws) base x st = (st, Some E_ONLY_DEFAULT)).
Check (graph_as_dataset_remove_named : forall St ws (base : sink St) x st, is_named x = true ->
  w_remove St (WAsDataset :: ws) base x st = (st, None)).
Check (graph_as_dataset_stops_at_named : forall St ws (base : sink St) pre x post st,
  (forall y s, snd (w_insert St ws base y s) = None) ->
  forallb (fun y => negb (is_named y)) pre = true -> is_named x = true ->
  try_for_each St (of_results (map inl pre ++ inl x :: post)) [] (w_insert St (WAsDataset :: ws) base) st
  = (of_results post, fold_left (fun s y => fst (w_insert St ws base (tpart y) s)) pre st, SinkError E_ONLY_DEFAULT)).
Check (graph_as_dataset_journal : forall pol pre x post c0, p_fail_ins pol = None ->
  forallb (fun y => negb (is_named y)) pre = true -> is_named x = true ->
  let '(rest, st, o) := bulk_stream true pol [WAsDataset] (of_results (map inl pre ++ inl x :: post)) [] (mkjst c0 [] O) in
  journal st = map CInsert (map tpart pre) /\ rest = of_results post /\ o = SinkError E_ONLY_DEFAULT).
(* the error is that of the FIRST failure: a flush (even a failing one) never masks a source error *)
Check (flush_never_masks_a_source_error : forall mode e ffail, mode <> FlushAlways ->
  after_stream mode (SourceError e) ffail = (KSource e, O)).
Check (write_error_comes_first : forall mode e ffail, after_stream mode (SinkError e) ffail = (KSink e, O)).
Check (flush_error_is_a_sink_error : forall e, after_stream FlushAtEnd Done (Some e) = (KSink e, 1%nat)).
Check (no_flush_no_flush_error : forall ffail, after_stream NoFlush Done ffail = (KDone, O)).
Check (serialize_source_fault : forall mode chain wfault ffail steps last e post, mode <> FlushAlways ->
  not_reached wfault (length (fm chain (items_of steps ++ last))) ->
  serialize mode (clean steps ++ (last, Some e) :: post) chain wfault ffail
  = (fm chain (items_of steps ++ last), KSource e, O)).
Check (serialize_done : forall mode chain wfault ffail steps,
  not_reached wfault (length (fm chain (items_of steps))) ->
  serialize mode (clean steps) chain wfault ffail
  = (fm chain (items_of steps), fst (after_stream mode Done ffail), snd (after_stream mode Done ffail))).
Check (ser_outcome_first_failure : forall mode src_err wfail ffail, mode <> FlushAlways ->
  fst (ser_outcome mode src_err wfail ffail) =
  match wfail, src_err with
  | Some e, _ => KSink e
  | None, Some e => KSource e
  | None, None => match mode, ffail with NoFlush, _ => KDone | _, Some e => KSink e | _, None => KDone end
  end).
(* the alternative design (flush also after a source failure, `?` on its result) blames the sink *)
Check (flush_after_a_source_error_blames_the_sink :
  exists src e e', serialize FlushAlways src [] None (Some e') = ([1; 2], KSink e', 1%nat)
                   /\ serialize FlushAtEnd src [] None (Some e') = ([1; 2], KSource e, O)
                   /\ e <> e').

(* non-vacuity: a multiset with repeated triples, remove_matching / retain_matching call by call;
   a store failing on its 2nd removal; a named quad offered to a graph seen as a dataset, before a
   later source error; a source error in front of a failing flush *)
Example ex_bag_remove_matching :
  matching false (mkpol false false None None None) [] (fun _ => true) (mkjst [1; 2; 2; 3; 2] [] O)
  = (mkjst [] [CRemove 1; CRemove 2; CRemove 2; CRemove 3; CRemove 2] 5, KDone).
Proof. vm_compute. reflexivity. Qed.
Example ex_retain_matching_fault :
  matching true (mkpol true true None (Some (1%nat, 283)) None) [WRef] (matcher_of (MD (SEq 1) (OEq 2) GAny)) (mkjst [5; 4; 1; 0] [] O)
  = (mkjst [4; 1; 0] [CRemove 5; CRemove 4] 1, KSink 283).
Proof. vm_compute. reflexivity. Qed.
Example ex_named_quad_before_source_error :
  bulk_stream true (mkpol false false None None None) [WAsDataset] (of_results [inl 1; inl 2; inl 1003; inl 4; inr 7]) [] (mkjst [] [] O)
  = (of_results [inl 4; inr 7], mkjst [1; 2] [CInsert 1; CInsert 2] 2, SinkError 9000).
Proof. vm_compute. reflexivity. Qed.
Example ex_source_error_before_failing_flush :
  serialize FlushAtEnd (of_results [inl 1; inl 2; inr 42; inl 3]) [] None (Some 77) = ([1; 2], KSource 42, O)
  /\ serialize NoFlush (of_results [inl 1; inl 2; inr 42; inl 3]) [] None (Some 77) = ([1; 2], KSource 42, O)
  /\ serialize FlushAtEnd (of_results [inl 1; inl 2]) [] None (Some 77) = ([1; 2], KSink 77, 1%nat).
Proof. vm_compute. repeat split; reflexivity. Qed.

Print Assumptions insert_all_journal.
Print Assumptions remove_all_journal.
Print Assumptions insert_all_source_fault.
Print Assumptions insert_all_store_fault.
Print Assumptions remove_matching_journal.
Print Assumptions remove_matching_all_calls.
Print Assumptions remove_matching_stops_at_the_failing_call.
Print Assumptions remove_matching_listing_error.
Print Assumptions retain_is_remove_of_the_complement.
Print Assumptions bag_remove_matching_leaves_no_match.
Print Assumptions mut_ref_forwards.
Print Assumptions dataset_graph_writes_into_its_graph.
Print Assumptions graph_as_dataset_default.
Print Assumptions graph_as_dataset_refuses_named.
Print Assumptions named_graph_of_graph_as_dataset.
Print Assumptions graph_as_dataset_remove_named.
Print Assumptions graph_as_dataset_stops_at_named.
Print Assumptions graph_as_dataset_journal.
Print Assumptions flush_never_masks_a_source_error.
Print Assumptions write_error_comes_first.
Print Assumptions flush_error_is_a_sink_error.
Print Assumptions no_flush_no_flush_error.
Print Assumptions serialize_source_fault.
Print Assumptions serialize_done.
Print Assumptions ser_outcome_first_failure.
Print Assumptions flush_after_a_source_error_blames_the_sink.

(* ================= iterators as sources, the methods of the Iterator trait, reused serializers
   (round 6) ================= *)
From Sophia.C15 Require Import IterSource IterProofs Reuse ReuseProofs.

(* chains compose *)
Check (through_app : forall c1 c2 x,
  through (c1 ++ c2) x = match through c1 x with Some y => through c2 y | None => None end).
Check (fm_app_chain : forall c1 c2 l, fm (c1 ++ c2) l = fm c2 (fm c1 l)).
(* the iterator of map_*(..).into_iter() / filter_map_*(..).into_iter(), unfolded with next(), is
   the list of all the results of the source under the chain: nothing but next() ends it (no size
   hint occurs) *)
Check (iter_source_all_out : forall chain src, iter_source chain src = of_results (all_out chain src)).
(* the blanket impl on the iterator state is the source of its results *)
Check (iter_lazy_is_eager : forall St chain (g : sink St) fuel src buf st,
  (length (buf ++ all_out chain src) < fuel)%nat ->
  ires3 (iter_try_for_each St fuel chain (src, buf) g st)
  = res3 (try_for_each St (of_results (buf ++ all_out chain src)) [] g st)).
(* source -> adapters -> into_iter() -> Source API again: the consumer sees what it would see
   behind the flat chain, and the same outcome, for any source (several items per step, failing
   steps), any consumer, any fault *)
Check (iter_source_flat : forall St c1 c2 (f : sink St) src st,
  res3 (try_for_each St (iter_source c1 src) c2 f st) = res3 (try_for_each St src (c1 ++ c2) f st)).
(* ... nested any number of times *)
Check (nest_flat : forall St last (f : sink St) segs src st,
  res3 (try_for_each St (nest segs src) last f st) = res3 (try_for_each St src (concat segs ++ last) f st)).
Check (nested_all_out : forall c1 c2 src, all_out c2 (iter_source c1 src) = all_out (c1 ++ c2) src).
Check (nest_all_out : forall last segs src,
  all_out last (nest segs src) = all_out (concat segs ++ last) src).
(* when nothing fails, everything arrives *)
Check (iterator_source_delivers_all : forall chain fault src,
  (forall stp, In stp src -> snd stp = None) ->
  not_reached fault (length (fm chain (flat_map fst src))) ->
  res3 (try_for_each _ (iter_source chain src) [] (rec_sink fault) [])
  = (fm chain (flat_map fst src), Done)).
(* one next(): the head of (pending buffer ++ what the source still produces) *)
Check (iter_next_spec : forall chain src buf,
  let r := iter_next chain (src, buf) in
  fst r = hd_error (buf ++ all_out chain src)
  /\ snd (snd r) ++ all_out chain (fst (snd r)) = tl (buf ++ all_out chain src)).
(* k manual next() calls, stopping anywhere inside a multi-item step: the rest (pending items
   included) is still there for whatever drains the iterator afterwards *)
Check (nexts_then_drain : forall chain k src buf,
  let L := buf ++ all_out chain src in
  let '(f, (src', buf')) := nexts k chain (src, buf) in
  f = firstn k L /\ buf' ++ all_out chain src' = skipn k L).
Check (drain_after_nexts : forall chain k src fuel,
  let '(f, it') := nexts k chain (src, []) in
  (length (all_out chain src) < fuel)%nat ->
  f = firstn k (all_out chain src) /\ drain fuel chain it' = skipn k (all_out chain src)).
(* every method (all / count / last / nth / sum) after k next() calls shows what it shows of the
   tail of the flat stream *)
Check (iter_meth_spec : forall src segs chain k m,
  iter_meth src segs chain k m
  = let full := all_out (concat (map (map adapter_of) segs) ++ map adapter_of chain) src in
    (firstn k full, meth_obs m (skipn k full))).
(* a reused serializer: every call is the call of a fresh serializer on a fresh writer *)
Check (ser_rounds_fresh : forall rounds w,
  ser_rounds w rounds = map (fun r => run_ser (fst r) (snd r)) rounds).
Check (ser_rounds_no_stale_bytes : forall rounds w,
  Forall2 (fun r (o : round_obs) =>
             let '(bytes, _, after, oe) := o in
             match oe with
             | None => bytes = nq_write (fst r)
             | Some _ =>
                 exists done q rest k,
                   fst r = done ++ q :: rest /\ (k < length (nq_write_quad q))%nat
                   /\ bytes = nq_write done ++ firstn k (nq_write_quad q)
             end /\ after = O)
          rounds (ser_rounds w rounds)).

(* non-vacuity: 4 items delivered 2 by 2, turned into an iterator and consumed through the Source
   API again; one next() in the middle of a 3-item step, then count / last / everything; a
   serializer whose first call fails inside the second statement and whose second call succeeds *)
Example ex_nested_two_by_two :
  run_nested [([1; 2], None); ([3; 4], None)] [[DMapSucc]; [DFilterAll]] [DMapDouble] None
  = ([4; 6; 8; 10], KDone).
Proof. vm_compute. reflexivity. Qed.
Example ex_nested_fault :
  run_nested [([1; 2], None); ([3; 4], Some 9); ([5], None)] [[DMapSucc]] [] (Some (4%nat, 77))
  = ([2; 3; 4; 5], KSource 9).
Proof. vm_compute. reflexivity. Qed.
Example ex_next_then_count :
  iter_meth [([1; 2; 3], None); ([4], None); ([5; 6], Some 8)] [] [DMapSucc] 1 ICount
  = ([inl 2], [inl 6]).
Proof. vm_compute. reflexivity. Qed.
Example ex_next_then_last :
  iter_meth [([1; 2; 3], None); ([4], None); ([5; 6], None)] [] [DFilterAll] 1 ILast
  = ([inl 1], [inl 6]).
Proof. vm_compute. reflexivity. Qed.
Example ex_next_then_all :
  iter_meth [([1; 2; 3], None); ([4], None)] [[DFilterAll]] [DFilterAll] 2 IAll
  = ([inl 1; inl 2], [inl 3; inl 4]).
Proof. vm_compute. reflexivity. Qed.
Example ex_reuse :
  let t s := (Iri s, Iri [112], Iri [111], @None term) in
  ser_rounds w0 [([t [97]; t [98]; t [99]], WAtomic 14 5); ([t [100]], WAtomic 100 6)]
  = [(nq_write [t [97]] ++ firstn 1 (nq_write [t [98]]), 14%nat, O, Some (EDev 5));
     (nq_write [t [100]], 12%nat, O, None)].
Proof. vm_compute. reflexivity. Qed.

(* ---------- closures with a state, chains built by direct calls on concrete adapters (Direct.v) ---------- *)
From Sophia.C15 Require Import Direct DirectProofs.
(* the stack of wrapped closures offers each item to the stages one after the other, then to the consumer *)
Check (hwrap_hthrough : forall St chain (f : sink St) x logs st,
  hwrap chain f x (logs, st) =
  let '(logs', o) := hthrough chain logs x in
  match o with
  | Some y => let '(st', oe) := f y st in ((logs', st'), oe)
  | None => ((logs', st), None)
  end).
(* the second part of a chain is offered what the first part lets out and nothing else (no fusion),
   for one item and for a stream, whatever the closures remember *)
Check (hthrough_app : forall c1 c2 l1 l2 x,
  length l1 = length c1 ->
  hthrough (c1 ++ c2) (l1 ++ l2) x =
  let '(l1', o) := hthrough c1 l1 x in
  match o with
  | None => (l1' ++ l2, None)
  | Some y => let '(l2', z) := hthrough c2 l2 y in (l1' ++ l2', z)
  end).
Check (hrun_app : forall c1 c2 xs l1 l2,
  length l1 = length c1 ->
  hrun (c1 ++ c2) (l1 ++ l2) xs =
  let '(l1', ys) := hrun c1 l1 xs in
  let '(l2', zs) := hrun c2 l2 ys in
  (l1' ++ l2', zs)).
(* stage k is called exactly on the items that passed the stages before it, in order *)
Check (stage_sees_what_passed_before : forall c1 a c2 xs,
  nth (length c1) (fst (hrun (c1 ++ a :: c2) (empties (c1 ++ a :: c2)) xs)) []
  = snd (hrun c1 (empties c1) xs)).
Check (chain_output_composes : forall c1 c2 xs,
  snd (hrun (c1 ++ c2) (empties (c1 ++ c2)) xs)
  = snd (hrun c2 (empties c2) (snd (hrun c1 (empties c1) xs)))).
(* closures that ignore their state: the pure model of Model.v *)
Check (stateless_is_model : forall chain logs x,
  snd (hthrough (map lift chain) logs x) = through chain x).
Check (stateless_run_is_fm : forall chain xs logs,
  snd (hrun (map lift chain) logs xs) = fm chain xs).
(* conversions: behind .to_triples().to_quads() every quad is in the default graph; .to_quads().to_triples() is the identity *)
Check (to_triples_to_quads_default : forall c xs,
  Forall (fun y => gname y = 0)
         (snd (hrun (c ++ [h_to_triples; h_to_quads]) (empties (c ++ [h_to_triples; h_to_quads])) xs))).
Check (to_quads_to_triples_identity : forall xs logs,
  Forall (fun x => x < 1000) xs ->
  snd (hrun [h_to_quads; h_to_triples] logs xs) = xs).
(* prefix before the fault, blame, and the calls every closure has received at that point *)
Check (direct_source_fault : forall chain fault steps last e post,
  let r := hrun chain (empties chain) (items_of steps ++ last) in
  not_reached fault (length (snd r)) ->
  try_for_each _ (clean steps ++ (last, Some e) :: post) [] (hsink chain fault) (empties chain, [])
  = (post, (fst r, snd r), SourceError e)).
Check (direct_sink_fault : forall chain steps pre x y rest_of_batch oe post j e,
  let before := hrun chain (empties chain) (items_of steps ++ pre) in
  snd (hthrough chain (fst before) x) = Some y ->
  length (snd before) = j ->
  let r := hrun chain (empties chain) (items_of steps ++ pre ++ [x]) in
  try_for_each _ (clean steps ++ (pre ++ x :: rest_of_batch, oe) :: post) [] (hsink chain (Some (j, e)))
    (empties chain, [])
  = (post, (fst r, snd r), SinkError e) /\ snd r = snd before ++ [y]).
Check (direct_no_fault : forall chain fault steps,
  let r := hrun chain (empties chain) (items_of steps) in
  not_reached fault (length (snd r)) ->
  try_for_each _ (clean steps) [] (hsink chain fault) (empties chain, []) = ([], (fst r, snd r), Done)).
Check (hdrain_logs : forall chain src logs,
  fst (hdrain src chain logs) = fst (hrun chain logs (concat (map fst src)))).

(* non-vacuity: two chained filters, the second one counting (take the first two of what the first
   one lets through): it is called on 2, 4, 6 only; a partial predicate behind the filter that
   establishes its domain is never called outside it; named graphs are gone behind
   to_triples().to_quads(); a sink fault on the second item stops the closures too *)
Example ex_direct_counting_filter :
  run_direct (of_results [inl 1; inl 2; inl 3; inl 4; inl 5; inl 6]) [SFilter PEven; SFilter (PFirstN 2)] None
  = ([2; 4], KDone, 6, [[1; 2; 3; 4; 5; 6]; [2; 4; 6]]).
Proof. vm_compute. reflexivity. Qed.
Example ex_direct_partial :
  run_direct (of_results [inl 3; inl 1002; inl 2005; inr 9; inl 1]) [SFilter PNamed; SFilter (PPartialGLt 2)] None
  = ([1002], KSource 9, 4, [[3; 1002; 2005]; [1002; 2005]]).
Proof. vm_compute. reflexivity. Qed.
Example ex_direct_flatten :
  run_direct [([1001; 2; 2003], None)] [SToTriples; SToQuads] None
  = ([1; 2; 3], KDone, 1, [[1001; 2; 2003]; [1; 2; 3]]).
Proof. vm_compute. reflexivity. Qed.
Example ex_direct_sink_fault :
  run_direct [([1; 2; 3; 4], None); ([5], None)] [SMap MAddCalls FlQ; SFilterMap XDedupSucc FlQ] (Some (1%nat, 77))
  = ([2; 4], KSink 77, 1, [[1; 2]; [1; 3]]).
Proof. vm_compute. reflexivity. Qed.

Print Assumptions through_app.
Print Assumptions fm_app_chain.
Print Assumptions iter_source_all_out.
Print Assumptions iter_lazy_is_eager.
Print Assumptions iter_source_flat.
Print Assumptions nest_flat.
Print Assumptions nested_all_out.
Print Assumptions nest_all_out.
Print Assumptions iterator_source_delivers_all.
Print Assumptions iter_next_spec.
Print Assumptions nexts_then_drain.
Print Assumptions drain_after_nexts.
Print Assumptions iter_meth_spec.
Print Assumptions ser_rounds_fresh.
Print Assumptions ser_rounds_no_stale_bytes.
Print Assumptions hwrap_hthrough.
Print Assumptions hthrough_app.
Print Assumptions hrun_app.
Print Assumptions stage_sees_what_passed_before.
Print Assumptions chain_output_composes.
Print Assumptions stateless_is_model.
Print Assumptions stateless_run_is_fm.
Print Assumptions to_triples_to_quads_default.
Print Assumptions to_quads_to_triples_identity.
Print Assumptions direct_source_fault.
Print Assumptions direct_sink_fault.
Print Assumptions direct_no_fault.
Print Assumptions hdrain_logs.
