//! C13 probe (temporary)
use sophia_api::prelude::*;
use sophia_api::sparql::{SparqlDataset, SparqlResult, Query};
use sophia_inmem::dataset::LightDataset;
use sophia_sparql::*;
use verif_harness::*;

fn run(d: &LightDataset, q: &str) {
    let r = std::panic::catch_unwind(|| {
        let w = SparqlWrapper(d);
        match SparqlQuery::<LightDataset>::parse(q) {
            Err(e) => format!("PARSE ERROR {e}"),
            Ok(pq) => {
                let dbg = format!("{pq:?}");
                match w.query(&pq) {
                    Err(e) => format!("ERR {e}  || {dbg}"),
                    Ok(SparqlResult::Boolean(b)) => format!("ASK {b} || {dbg}"),
                    Ok(SparqlResult::Bindings(b)) => {
                        let vars: Vec<String> = b.variables().iter().map(|s| s.to_string()).collect();
                        let mut rows = vec![];
                        for row in b {
                            match row {
                                Ok(r) => rows.push(format!("[{}]", r.iter().map(|t| t.as_ref().map(|t| t.to_string()).unwrap_or("-".into())).collect::<Vec<_>>().join(" "))),
                                Err(e) => rows.push(format!("ROWERR {e}")),
                            }
                        }
                        format!("vars={vars:?} rows={} {} || {dbg}", rows.len(), rows.join(" "))
                    }
                    Ok(_) => "other".into(),
                }
            }
        }
    });
    match r {
        Ok(s) => println!("Q: {q}\n   => {s}\n"),
        Err(_) => println!("Q: {q}\n   => PANIC\n"),
    }
}

fn main() {
    let mut d = LightDataset::new();
    let g1 = iri("tag:g1"); let g2 = iri("tag:g2");
    let dflt: Option<&ST> = None;
    d.insert(&iri("tag:a"), &iri("tag:p"), &iri("tag:b"), dflt).unwrap();
    d.insert(&iri("tag:b"), &iri("tag:p"), &iri("tag:c"), dflt).unwrap();
    d.insert(&iri("tag:a"), &iri("tag:p"), &iri("tag:b"), Some(&g1)).unwrap();
    d.insert(&iri("tag:a"), &iri("tag:p"), &iri("tag:b"), Some(&g2)).unwrap();
    d.insert(&iri("tag:a"), &iri("tag:q"), &lit_dt("-9223372036854775808", &format!("{XSD}integer")), dflt).unwrap();
    d.insert(&iri("tag:a"), &iri("tag:q"), &iri("tag:g1"), Some(&g2)).unwrap();
    let mut e = LightDataset::new();
    e.insert(&iri("tag:a"), &iri("tag:p"), &iri("tag:b"), dflt).unwrap();
    e.insert(&iri("tag:b"), &iri("tag:p"), &iri("tag:c"), dflt).unwrap();
    println!("=== dataset e (no named graphs)");
    for q in ["ASK { GRAPH ?g {} }", "ASK { GRAPH <tag:absent> {} }", "SELECT * { GRAPH ?g {} }",
              "SELECT ?s { { SELECT ?s { ?s <tag:p> ?o } } FILTER(BOUND(?o)) }",
              "SELECT ?s { { SELECT ?s { ?s <tag:p> ?o } } } ORDER BY ?o",
    ] { run(&e, q); }
    println!("=== dataset d");
    for q in [
        "SELECT (-?x AS ?y) { <tag:a> <tag:q> ?x }",
        "SELECT (ABS(?x) AS ?y) { <tag:a> <tag:q> ?x }",
        "SELECT (ABS(\"-99999999999999999999\"^^<http://www.w3.org/2001/XMLSchema#integer>) AS ?y) {}",
        "ASK { GRAPH <tag:absent> {} }",
        "SELECT * { GRAPH ?g {} }",
        "SELECT * { GRAPH ?g { ?s <tag:p> ?o FILTER(BOUND(?g)) } }",
        "SELECT * { GRAPH ?g { ?s <tag:p> ?o BIND(?g AS ?h) } }",
        "SELECT * { GRAPH ?g { SELECT ?s { ?s <tag:p> ?o } } }",
        "SELECT * { GRAPH ?g { SELECT ?s { ?s <tag:q> ?g } } }",
        "SELECT * { GRAPH ?g { ?s <tag:q> ?g } }",
        "SELECT * { GRAPH ?g { GRAPH ?g { ?s <tag:q> ?o } } }",
        "SELECT * { GRAPH ?g { GRAPH ?h { ?s <tag:q> ?o } } }",
        "SELECT * FROM <tag:g1> { ?s ?p ?o }",
        "SELECT * FROM <tag:g1> FROM <tag:g2> { ?s <tag:p> ?o }",
        "SELECT * FROM <tag:g1> { GRAPH ?g { ?s ?p ?o } }",
        "SELECT * FROM NAMED <tag:g1> { GRAPH ?g { ?s ?p ?o } }",
        "SELECT * { ?s <tag:p> ?o . ?o <tag:p> ?z }",
        "SELECT * { ?s <tag:p> _:x . _:x <tag:p> ?z }",
        "SELECT * { ?s <tag:p> ?o OPTIONAL { ?o <tag:p> ?z } }",
        "SELECT * { ?s <tag:p> ?o BIND(1 AS ?s) }",
        "SELECT * { { ?s <tag:p> ?o } UNION { ?s <tag:q> ?o } FILTER(?o > 1) }",
        "SELECT ?s (1 AS ?s) { ?s <tag:p> ?o }",
        "SELECT DISTINCT ?s { { ?s <tag:p> ?o } UNION { ?s <tag:q> ?o } } OFFSET 1 LIMIT 1",
        "SELECT * { ?s <tag:p> ?o FILTER EXISTS { ?o <tag:p> ?z } }",
        "SELECT * { << ?a ?b ?c >> ?p ?o }",
        "SELECT * { ?s <tag:p>/<tag:p> ?o }",
        "SELECT * { ?s <tag:p> ?o VALUES ?s { <tag:a> } }",
        "SELECT (COUNT(*) AS ?c) { ?s <tag:p> ?o }",
        "SELECT * { ?s <tag:p> ?o MINUS { ?s <tag:q> ?o } }",
        "SELECT REDUCED * { ?s <tag:p> ?o }",
        "SELECT * { SERVICE <tag:x> { ?s <tag:p> ?o } }",
        "SELECT * { ?s <tag:p> ?o { ?o <tag:p> ?z } }",
        "CONSTRUCT { ?s ?p ?o } WHERE { ?s ?p ?o }",
        "DESCRIBE <tag:a>",
        "ASK { ?s <tag:p> ?o } LIMIT 0",
        "SELECT * { ?s <tag:p> ?o FILTER EXISTS { ?o <tag:p> ?z OPTIONAL { ?z <tag:p> ?w } } }",
        "SELECT * { ?s <tag:p> ?o FILTER NOT EXISTS { ?o <tag:p> ?z OPTIONAL { ?z <tag:p> ?w } } }",
        "SELECT * { GRAPH ?g { ?s <tag:p> ?o BIND(1 AS ?g) } }",
        "SELECT * { GRAPH <tag:g1> { ?s <tag:p> ?o } }",
        "SELECT * { GRAPH ?g { { SELECT ?s { ?s <tag:p> ?o } LIMIT 1 } } }",
        "SELECT ?s ?g { ?s <tag:p> ?o  GRAPH ?g {} }",
        "SELECT * { { ?s <tag:p> ?o } UNION { GRAPH ?g { ?s <tag:q> ?o } } }",
    ] { run(&d, q); }
}
