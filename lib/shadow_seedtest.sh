#!/bin/bash
# usage: shadow_seedtest.sh <patch.diff> <Cxx> [tier]
# Same as seedtest.sh, but inside a private mount namespace in which /repo and /verif are COPIES
# (/tmp/shadow/repo = clone of /repo, /tmp/shadow/verif = rsync of /verif): the real /repo and /verif are never
# touched, so seeded changes can be tried while other checks run on the real tree.  Refresh the copies first:
#   rsync -a --delete /verif/ /tmp/shadow/verif/ ; git -C /tmp/shadow/repo pull (or re-clone)
patch=$(readlink -f "$1"); pid=$2; tier=${3:-quick}
unshare -m bash -c "
  mount --bind ${SHADOW:-/tmp/shadow}/repo /repo && mount --bind ${SHADOW:-/tmp/shadow}/verif /verif || exit 2
  cd /repo || exit 2
  git checkout -q -- . ; git apply '$patch' || { echo 'patch does not apply'; exit 2; }
  cd /verif && ./check $pid --tier $tier; rc=\$?
  git -C /repo checkout -q -- .
  echo \"seedtest(shadow): check exit=\$rc\"
"
