(* C12/BackProofs.v -- the reference reader and the witness walk the document in lockstep: for EVERY document,
   renaming the reader's output by the witness gives [doc_back], the witness lists the ghosts in order, its
   keys are the fresh identifiers (pairwise different, >= base). *)
From Coq Require Import Permutation.
From Sophia.C12 Require Import Model Proofs Back.

(* ---------- induction on values ---------- *)
Lemma jval_ind2 (P : jval -> Prop) :
  (forall id, P (JRef id)) -> (forall l, P (JLit l)) ->
  (forall cs items, Forall P items -> P (JList cs items)) ->
  (forall b v d l, P (JComp b v d l)) -> forall v, P v.
Proof.
  intros H1 H2 H3 H4. fix IH 1. intros [id|l|cs items|b v d l]; [apply H1|apply H2| |apply H4].
  apply H3. induction items as [|x r IHr]; constructor; [apply IH|exact IHr].
Qed.

(* ---------- the local fixpoints, named ---------- *)
Definition list_to_rdf (g : option N) :=
  fix go (fr : N) (l : list jval) : N * list quad * N :=
    match l with
    | [] => (c_nil, [], fr)
    | x :: r =>
        let '(t, q1, fr1) := val_to_rdf g fr x in
        let '(tl, q2, fr2) := go fr1 r in
        (fr2, mkQ fr2 c_first t g :: mkQ fr2 c_rest tl g :: q1 ++ q2, fr2 + 1)
    end.
Definition list_wit :=
  fix go (fr : N) (cs : list N) (l : list jval) : list (N * N) * N :=
    match l with
    | [] => ([], fr)
    | x :: r =>
        let '(w1, fr1) := val_wit fr x in
        let '(w2, fr2) := go fr1 (tl cs) r in
        ((fr2, hd 0 cs) :: w1 ++ w2, fr2 + 1)
    end.
Definition list_back (g : option N) :=
  fix go (cs : list N) (l : list jval) : N * list quad :=
    match l with
    | [] => (c_nil, [])
    | x :: r =>
        let '(t, q1) := val_back g x in
        let '(tl', q2) := go (tl cs) r in
        (hd 0 cs, mkQ (hd 0 cs) c_first t g :: mkQ (hd 0 cs) c_rest tl' g :: q1 ++ q2)
    end.
Definition list_ghosts :=
  fix go (cs : list N) (l : list jval) : list N :=
    match l with
    | [] => []
    | x :: r => hd 0 cs :: val_ghosts x ++ go (tl cs) r
    end.
Definition list_vis :=
  fix go (l : list jval) : list N := match l with [] => [] | x :: r => val_vis x ++ go r end.

Lemma val_to_rdf_list g fr cs items : val_to_rdf g fr (JList cs items) = list_to_rdf g fr items.
Proof. reflexivity. Qed.
Lemma val_wit_list fr cs items : val_wit fr (JList cs items) = list_wit fr cs items.
Proof. reflexivity. Qed.
Lemma val_back_list g cs items : val_back g (JList cs items) = list_back g cs items.
Proof. reflexivity. Qed.
Lemma val_ghosts_list cs items : val_ghosts (JList cs items) = list_ghosts cs items.
Proof. reflexivity. Qed.
Lemma val_vis_list cs items : val_vis (JList cs items) = c_nil :: list_vis items.
Proof. reflexivity. Qed.

Lemma list_back_cons g c cs x r :
  list_back g (c :: cs) (x :: r) =
  (c, mkQ c c_first (fst (val_back g x)) g :: mkQ c c_rest (fst (list_back g cs r)) g
      :: snd (val_back g x) ++ snd (list_back g cs r)).
Proof. simpl. destruct (val_back g x), (list_back g cs r). reflexivity. Qed.
Lemma list_ghosts_cons c cs x r : list_ghosts (c :: cs) (x :: r) = c :: val_ghosts x ++ list_ghosts cs r.
Proof. reflexivity. Qed.
Lemma list_vis_cons x r : list_vis (x :: r) = val_vis x ++ list_vis r.
Proof. reflexivity. Qed.

(* ---------- small facts ---------- *)
Lemma NoDup_app_intro {A} (l1 l2 : list A) :
  NoDup l1 -> NoDup l2 -> (forall x, In x l1 -> In x l2 -> False) -> NoDup (l1 ++ l2).
Proof.
  induction l1 as [|a l1 IH]; simpl; intros H1 H2 Hd; [exact H2|].
  inversion H1; subst. constructor.
  - rewrite in_app_iff. intros [H|H]; [contradiction|]. eapply Hd; eauto.
  - apply IH; auto. intros x Hx. apply Hd. auto.
Qed.

Lemma ids_of_app a b : ids_of (a ++ b) = ids_of a ++ ids_of b.
Proof. unfold ids_of. apply flat_map_app. Qed.
Lemma ids_of_cons q d : ids_of (q :: d) = (qs q :: qp q :: qo q :: match qg q with Some g => [g] | None => [] end) ++ ids_of d.
Proof. reflexivity. Qed.

Lemma in_ids_cons y q d :
  In y (ids_of (q :: d)) <-> y = qs q \/ y = qp q \/ y = qo q \/ qg q = Some y \/ In y (ids_of d).
Proof.
  rewrite ids_of_cons, in_app_iff. simpl. destruct (qg q) as [x|]; simpl; split; intros H;
    repeat match type of H with _ \/ _ => destruct H as [H|H] end; subst; auto; try contradiction; try discriminate.
  injection H as ->. left. auto 6.
Qed.

Lemma rename_nil x : rename [] x = x.
Proof. reflexivity. Qed.

Lemma nodes_vis_cons n r : nodes_vis (n :: r) = node_vis n ++ nodes_vis r.
Proof. reflexivity. Qed.
Lemma doc_vis_cons t r : doc_vis (t :: r) = top_vis t ++ doc_vis r.
Proof. reflexivity. Qed.

Section Lock.
Variable base : N.
Variable R : list (N * N).
Hypothesis R_old : forall x, x < base -> rename R x = x.

Definition agree (w : list (N * N)) : Prop := forall p, In p w -> rename R (fst p) = snd p.
Lemma agree_app w1 w2 : agree (w1 ++ w2) <-> agree w1 /\ agree w2.
Proof.
  unfold agree. split.
  - intros H. split; intros p Hp; apply H; apply in_app_iff; auto.
  - intros [H1 H2] p Hp. apply in_app_iff in Hp as [Hp|Hp]; auto.
Qed.

(* what one stretch of the two walks produces: the reader goes from counter fr to fr1 emitting qs, the
   witness emits w *)
Record lock (fr : N) (qs : list quad) (fr1 : N) (w : list (N * N)) (back : list quad) (gh vis : list N) : Prop := mkLock {
  lk_le : fr <= fr1;
  lk_nodup : NoDup (map fst w);
  lk_range : forall p, In p w -> fr <= fst p /\ fst p < fr1;
  lk_ghosts : map snd w = gh;
  lk_ids : forall x, In x (ids_of qs) -> In x vis \/ In x reader_consts \/ fr <= x;
  lk_back : agree w -> map (rename_q R) qs = back
}.

Lemma lock_nil fr v : lock fr [] fr [] [] [] v.
Proof. constructor; simpl; try tauto; try lia; constructor. Qed.

Lemma lock_app fr q1 fr1 w1 b1 g1 v1 q2 fr2 w2 b2 g2 v2 :
  lock fr q1 fr1 w1 b1 g1 v1 -> lock fr1 q2 fr2 w2 b2 g2 v2 ->
  lock fr (q1 ++ q2) fr2 (w1 ++ w2) (b1 ++ b2) (g1 ++ g2) (v1 ++ v2).
Proof.
  intros [A1 A2 A3 A4 A5 A6] [B1 B2 B3 B4 B5 B6]. constructor.
  - lia.
  - rewrite map_app. apply NoDup_app_intro; auto.
    intros x H1 H2. apply in_map_iff in H1 as [p1 [<- H1]]. apply in_map_iff in H2 as [p2 [E H2]].
    destruct (A3 _ H1), (B3 _ H2). lia.
  - intros p Hp. apply in_app_iff in Hp as [Hp|Hp]; [destruct (A3 _ Hp)|destruct (B3 _ Hp)]; lia.
  - rewrite map_app. congruence.
  - intros x. rewrite ids_of_app, !in_app_iff. intros [H|H].
    + destruct (A5 _ H) as [?|[?|?]]; auto.
    + destruct (B5 _ H) as [?|[?|?]]; auto. right. right. lia.
  - intros Ha. apply agree_app in Ha as [Ha1 Ha2]. rewrite map_app. f_equal; auto.
Qed.

Lemma lock_vis fr qs fr1 w b gh v v' :
  (forall x, In x v -> In x v') -> lock fr qs fr1 w b gh v -> lock fr qs fr1 w b gh v'.
Proof.
  intros Hv [A1 A2 A3 A4 A5 A6]. constructor; auto.
  intros x Hx. destruct (A5 _ Hx) as [?|[?|?]]; auto.
Qed.

Definition old_g (g : option N) : Prop := match g with Some x => x < base | None => True end.
Definition gl (g : option N) : list N := match g with Some x => [x] | None => [] end.

Lemma rename_g g : old_g g -> option_map (rename R) g = g.
Proof. destruct g as [x|]; simpl; [|reflexivity]. intros H. rewrite R_old by exact H. reflexivity. Qed.

(* ---------- values ---------- *)
Definition val_lock_stmt (g : option N) (v : jval) : Prop :=
  forall fr t qs fr1, base <= fr -> (forall x, In x (val_vis v) -> x < base) ->
  val_to_rdf g fr v = (t, qs, fr1) ->
  exists w, val_wit fr v = (w, fr1)
    /\ lock fr qs fr1 w (snd (val_back g v)) (val_ghosts v) (val_vis v ++ gl g)
    /\ (In t (val_vis v) \/ (fr <= t /\ t < fr1))
    /\ (agree w -> rename R t = fst (val_back g v)).

Lemma val_lock g : old_g g -> forall v, val_lock_stmt g v.
Proof.
  intros Hg. induction v as [id|l|cs items IH|b v d l] using jval_ind2; intros fr t qs fr1 Hfr Hold E.
  - (* JRef *) simpl in E. injection E as <- <- <-. exists []. split; [reflexivity|]. split; [apply lock_nil|].
    split; [left; simpl; auto|]. intros _. apply R_old. apply Hold. simpl. auto.
  - simpl in E. injection E as <- <- <-. exists []. split; [reflexivity|]. split; [apply lock_nil|].
    split; [left; simpl; auto|]. intros _. apply R_old. apply Hold. simpl. auto.
  - (* JList *)
    rewrite val_to_rdf_list in E. rewrite val_wit_list, val_back_list, val_ghosts_list.
    rewrite val_vis_list in Hold |- *.
    assert (Hnil : c_nil < base) by (apply Hold; simpl; auto).
    assert (Hold' : forall x, In x (list_vis items) -> x < base) by (intros x Hx; apply Hold; simpl; auto).
    clear Hold.
    revert cs fr t qs fr1 Hfr E Hold'. induction IH as [|x r Hx Hr IHr]; intros cs fr t qs fr1 Hfr E Hold.
    + simpl in E. injection E as <- <- <-. exists []. split; [reflexivity|]. split; [apply lock_nil|].
      split; [left; simpl; auto|]. intros _. simpl. apply R_old. exact Hnil.
    + simpl in E.
      destruct (val_to_rdf g fr x) as [[t1 q1] f1] eqn:E1.
      destruct (list_to_rdf g f1 r) as [[t2 q2] f2] eqn:E2.
      injection E as <- <- <-.
      rewrite list_vis_cons in Hold.
      destruct (Hx fr t1 q1 f1 Hfr) as [w1 [W1 [L1 [T1 B1]]]]; [intros y Hy; apply Hold; apply in_app_iff; auto|exact E1|].
      assert (Hf1 : base <= f1) by (destruct L1; lia).
      destruct (IHr (tl cs) f1 t2 q2 f2 Hf1 E2) as [w2 [W2 [L2 [T2 B2]]]]; [intros y Hy; apply Hold; apply in_app_iff; auto|].
      exists ((f2, hd 0 cs) :: w1 ++ w2). split.
      { simpl. rewrite W1. fold list_wit. rewrite W2. reflexivity. }
      pose proof (lock_app _ _ _ _ _ _ _ _ _ _ _ _ _ L1 L2) as L12.
      destruct L1 as [A1 A2 A3 A4 A5 A6]. destruct L2 as [C1 C2 C3 C4 C5 C6].
      destruct L12 as [D1 D2 D3 D4 D5 D6].
      split; [|split].
      * constructor.
        -- lia.
        -- simpl. constructor; [|exact D2]. intros Hin. apply in_map_iff in Hin as [p [Ep Hp]].
           destruct (D3 _ Hp). simpl in Ep. lia.
        -- intros p [<-|Hp]; simpl; [lia|]. destruct (D3 _ Hp). lia.
        -- simpl. destruct cs as [|c cs]; simpl; rewrite D4; reflexivity.
        -- intros y. rewrite !in_ids_cons, ids_of_app, in_app_iff. simpl.
           assert (Hvis : forall z, In z (val_vis x ++ gl g) \/ In z (c_nil :: list_vis r ++ gl g) ->
                                    In z (c_nil :: list_vis (x :: r) ++ gl g)).
           { intros z. rewrite list_vis_cons. simpl. rewrite !in_app_iff. tauto. }
           intros H.
           destruct H as [->|[->|[->|[H|[->|[->|[->|[H|[H|H]]]]]]]]].
           ++ right. right. lia.
           ++ right. left. simpl. auto.
           ++ destruct T1 as [H|H]; [|right; right; lia]. left. apply Hvis. left. apply in_app_iff. auto.
           ++ left. apply Hvis. left. apply in_app_iff. right. subst g. simpl. auto.
           ++ right. right. lia.
           ++ right. left. simpl. auto.
           ++ destruct T2 as [H|H]; [|right; right; lia]. left. apply Hvis. right.
              destruct H as [H|H]; [left; exact H|right; apply in_app_iff; auto].
           ++ left. apply Hvis. left. apply in_app_iff. right. subst g. simpl. auto.
           ++ destruct (A5 _ H) as [H'|[H'|H']]; [left; apply Hvis; left; exact H'|right; left; exact H'|right; right; exact H'].
           ++ destruct (C5 _ H) as [H'|[H'|H']]; [left; apply Hvis; right; exact H'|right; left; exact H'|right; right; lia].
        -- intros Ha.
           assert (Ha0 : rename R f2 = hd 0 cs) by (apply (Ha (f2, hd 0 cs)); simpl; auto).
           assert (Ha12 : agree (w1 ++ w2)) by (intros p Hp; apply Ha; simpl; auto).
           pose proof Ha12 as Ha12'. apply agree_app in Ha12' as [Ha1 Ha2].
           simpl. unfold rename_q at 1 2. simpl. rewrite Ha0, (B1 Ha1), (B2 Ha2), (rename_g g Hg).
           rewrite (D6 Ha12).
           destruct cs as [|c cs]; simpl; destruct (val_back g x), (list_back g _ r); reflexivity.
      * right. lia.
      * intros Ha. simpl. destruct (val_back g x), (list_back g (tl cs) r). simpl. apply (Ha (f2, hd 0 cs)). simpl. auto.
  - (* JComp *)
    simpl in E. injection E as <- <- <-. exists [(fr, b)]. split; [reflexivity|]. split; [|split].
    + constructor.
      * lia.
      * simpl. constructor; [tauto|constructor].
      * intros p [<-|[]]. simpl. lia.
      * reflexivity.
      * intros y. assert (Hgl : g = Some y -> In y (val_vis (JComp b v d l) ++ gl g)).
        { intros ->. apply in_app_iff. right. simpl. auto. }
        assert (Hv : In v (val_vis (JComp b v d l) ++ gl g)) by (simpl; auto).
        assert (Hd : In d (val_vis (JComp b v d l) ++ gl g)) by (simpl; auto).
        assert (Hl : forall l', l = Some l' -> In l' (val_vis (JComp b v d l) ++ gl g)) by (intros l' ->; simpl; auto).
        destruct l as [l'|]; simpl app; rewrite !in_ids_cons; cbn [qs qp qo qg ids_of flat_map In];
          intros Hy; repeat (destruct Hy as [Hy|Hy]; [|]); try contradiction; subst.
          all: solve [ left; apply Hgl; reflexivity | left; apply Hgl; assumption | left; exact Hv | left; exact Hd | left; apply Hl; reflexivity
                | right; left; simpl; tauto | right; right; lia ].
      * intros Ha. assert (Hb : rename R fr = b) by (apply (Ha (fr, b)); simpl; auto).
        assert (Hv : rename R v = v) by (apply R_old, Hold; simpl; auto).
        assert (Hd : rename R d = d) by (apply R_old, Hold; simpl; auto).
        destruct l as [l'|]; simpl; unfold rename_q; simpl; rewrite ?Hb, ?Hv, ?Hd, (rename_g g Hg).
        -- rewrite (R_old l') by (apply Hold; simpl; auto). reflexivity.
        -- reflexivity.
    + right. lia.
    + intros Ha. simpl. apply (Ha (fr, b)). simpl. auto.
Qed.

(* ---------- quads that mention no fresh identifier ---------- *)
Definition old_quad (q : quad) : Prop := qs q < base /\ qo q < base /\ old_g (qg q).
Lemma rename_old_quad q : old_quad q -> rename_q R q = q.
Proof.
  intros [H1 [H2 H3]]. unfold rename_q. rewrite (R_old _ H1), (R_old _ H2), (rename_g _ H3). destruct q; reflexivity.
Qed.
Lemma lock_static fr qs0 vis :
  (forall x, In x (ids_of qs0) -> In x vis \/ In x reader_consts) -> (forall q, In q qs0 -> old_quad q) ->
  lock fr qs0 fr [] qs0 [] vis.
Proof.
  intros Hi Ho. constructor; simpl; try tauto; try lia.
  - constructor.
  - intros x Hx. destruct (Hi x Hx); auto.
  - intros _. induction qs0 as [|q qs0 IH]; simpl; [reflexivity|].
    rewrite rename_old_quad by (apply Ho; simpl; auto). f_equal. apply IH.
    + intros x Hx. apply Hi. rewrite ids_of_cons, in_app_iff. auto.
    + intros q' Hq'. apply Ho. simpl. auto.
Qed.
(* one more quad in front, whose identifiers are shown or fresh *)
Lemma lock_cons fr q q' qs fr1 w b gh vis :
  lock fr qs fr1 w b gh vis ->
  (forall x, In x (ids_of [q]) -> In x vis \/ In x reader_consts \/ fr <= x) ->
  (agree w -> rename_q R q = q') ->
  lock fr (q :: qs) fr1 w (q' :: b) gh vis.
Proof.
  intros [A1 A2 A3 A4 A5 A6] Hi Hq. constructor; auto.
  - intros x. rewrite ids_of_cons, in_app_iff. intros [H|H]; [|auto].
    apply Hi. rewrite ids_of_cons, in_app_iff. auto.
  - intros Ha. simpl. rewrite (Hq Ha), (A6 Ha). reflexivity.
Qed.

(* ---------- the values of one property ---------- *)
Lemma vals_lock g s p : old_g g -> s < base -> forall vs fr qs fr1,
  base <= fr -> (forall x, In x (vals_vis vs) -> x < base) ->
  vals_to_rdf g fr s p vs = (qs, fr1) ->
  exists w, vals_wit fr vs = (w, fr1)
    /\ lock fr qs fr1 w (vals_back g s p vs) (vals_ghosts vs) (s :: p :: vals_vis vs ++ gl g).
Proof.
  intros Hg Hs. induction vs as [|v r IH]; intros fr qs fr1 Hfr Hold E.
  - simpl in E. injection E as <- <-. exists []. split; [reflexivity|]. apply lock_nil.
  - simpl in E. destruct (val_to_rdf g fr v) as [[t q1] f1] eqn:E1.
    destruct (vals_to_rdf g f1 s p r) as [q2 f2] eqn:E2. injection E as <- <-.
    unfold vals_vis in Hold. simpl in Hold.
    destruct (val_lock g Hg v fr t q1 f1 Hfr) as [w1 [W1 [L1 [T1 B1]]]]; [intros x Hx; apply Hold; apply in_app_iff; auto|exact E1|].
    assert (Hf1 : base <= f1) by (destruct L1; lia).
    destruct (IH f1 q2 f2 Hf1) as [w2 [W2 L2]]; [intros x Hx; apply Hold; apply in_app_iff; auto|exact E2|].
    exists (w1 ++ w2). split; [simpl; rewrite W1, W2; reflexivity|].
    pose proof (lock_app _ _ _ _ _ _ _ _ _ _ _ _ _ L1 L2) as L12.
    assert (Hvis : forall x, In x ((val_vis v ++ gl g) ++ s :: p :: vals_vis r ++ gl g) ->
                             In x (s :: p :: vals_vis (v :: r) ++ gl g)).
    { intros x. unfold vals_vis. simpl. rewrite !in_app_iff. simpl. rewrite !in_app_iff. tauto. }
    apply (lock_vis _ _ _ _ _ _ _ _ Hvis) in L12.
    unfold vals_back, vals_ghosts. simpl. fold (vals_back g s p r). fold (vals_ghosts r).
    apply lock_cons; [exact L12| |].
    + intros x. rewrite in_ids_cons. simpl. intros [->|[->|[->|[H|[]]]]].
      * left. simpl. auto.
      * left. simpl. auto.
      * destruct T1 as [H|H]; [|right; right; lia]. left. right. right. unfold vals_vis. simpl. rewrite !in_app_iff. auto.
      * left. right. right. rewrite in_app_iff. right. subst g. simpl. auto.
    + intros Ha. apply agree_app in Ha as [Ha1 _]. unfold rename_q. simpl.
      rewrite (R_old _ Hs), (B1 Ha1), (rename_g _ Hg). reflexivity.
Qed.

(* ---------- the properties of one node ---------- *)
Lemma props_lock g s : old_g g -> s < base -> forall ps fr qs fr1,
  base <= fr -> (forall x, In x (props_vis ps) -> x < base) ->
  props_to_rdf g fr s ps = (qs, fr1) ->
  exists w, props_wit fr ps = (w, fr1)
    /\ lock fr qs fr1 w (props_back g s ps) (props_ghosts ps) (s :: props_vis ps ++ gl g).
Proof.
  intros Hg Hs. induction ps as [|[p vs] r IH]; intros fr qs fr1 Hfr Hold E.
  - simpl in E. injection E as <- <-. exists []. split; [reflexivity|]. apply lock_nil.
  - simpl in E. destruct (vals_to_rdf g fr s p vs) as [q1 f1] eqn:E1.
    destruct (props_to_rdf g f1 s r) as [q2 f2] eqn:E2. injection E as <- <-.
    unfold props_vis in Hold. simpl in Hold.
    destruct (vals_lock g s p Hg Hs vs fr q1 f1 Hfr) as [w1 [W1 L1]]; [intros x Hx; apply Hold; right; apply in_app_iff; auto|exact E1|].
    assert (Hf1 : base <= f1) by (destruct L1; lia).
    destruct (IH f1 q2 f2 Hf1) as [w2 [W2 L2]]; [intros x Hx; apply Hold; right; apply in_app_iff; auto|exact E2|].
    exists (w1 ++ w2). split; [simpl; rewrite W1, W2; reflexivity|].
    pose proof (lock_app _ _ _ _ _ _ _ _ _ _ _ _ _ L1 L2) as L12.
    unfold props_back, props_ghosts. simpl. fold (props_back g s r). fold (props_ghosts r).
    eapply lock_vis; [|exact L12].
    intros x. unfold props_vis. simpl. rewrite !in_app_iff. simpl. rewrite !in_app_iff. tauto.
Qed.

Lemma node_lock g : old_g g -> forall n fr qs fr1,
  base <= fr -> (forall x, In x (node_vis n) -> x < base) ->
  node_to_rdf g fr n = (qs, fr1) ->
  exists w, props_wit fr (j_props n) = (w, fr1)
    /\ lock fr qs fr1 w (node_back g n) (node_ghosts n) (node_vis n ++ gl g).
Proof.
  intros Hg n fr qs fr1 Hfr Hold E. unfold node_to_rdf in E.
  destruct (props_to_rdf g fr (j_id n) (j_props n)) as [q f1] eqn:E1. injection E as <- <-.
  assert (Hid : j_id n < base) by (apply Hold; unfold node_vis; simpl; auto).
  destruct (props_lock g (j_id n) Hg Hid (j_props n) fr q f1 Hfr) as [w [W L1]];
    [intros x Hx; apply Hold; unfold node_vis; simpl; rewrite in_app_iff; auto|exact E1|].
  exists w. split; [exact W|].
  assert (L0 : lock fr (map (fun t => mkQ (j_id n) c_type t g) (j_types n)) fr []
                    (map (fun t => mkQ (j_id n) c_type t g) (j_types n)) [] (node_vis n ++ gl g)).
  { apply lock_static.
    - intros x Hx. unfold ids_of in Hx. apply in_flat_map in Hx as [q' [Hq' Hx]].
      apply in_map_iff in Hq' as [t [<- Ht]]. simpl in Hx.
      destruct Hx as [<-|[<-|[<-|Hx]]].
      + left. unfold node_vis. simpl. auto.
      + right. simpl. auto.
      + left. unfold node_vis. simpl. rewrite !in_app_iff. auto.
      + left. apply in_app_iff. right. exact Hx.
    - intros q' Hq'. apply in_map_iff in Hq' as [t [<- Ht]]. repeat split; simpl; [exact Hid| |exact Hg].
      apply Hold. unfold node_vis. simpl. rewrite in_app_iff. auto. }
  pose proof (lock_app _ _ _ _ _ _ _ _ _ _ _ _ _ L0 L1) as L01. simpl in L01.
  unfold node_back, node_ghosts. eapply lock_vis; [|exact L01].
  intros x. unfold node_vis. simpl. rewrite !in_app_iff. simpl. rewrite !in_app_iff. tauto.
Qed.

Lemma nodes_lock g : old_g g -> forall ns fr qs fr1,
  base <= fr -> (forall x, In x (nodes_vis ns) -> x < base) ->
  nodes_to_rdf g fr ns = (qs, fr1) ->
  exists w, nodes_wit fr ns = (w, fr1)
    /\ lock fr qs fr1 w (nodes_back g ns) (nodes_ghosts ns) (nodes_vis ns ++ gl g).
Proof.
  intros Hg. induction ns as [|n r IH]; intros fr qs fr1 Hfr Hold E.
  - simpl in E. injection E as <- <-. exists []. split; [reflexivity|]. apply lock_nil.
  - simpl in E. destruct (node_to_rdf g fr n) as [q1 f1] eqn:E1.
    destruct (nodes_to_rdf g f1 r) as [q2 f2] eqn:E2. injection E as <- <-.
    rewrite nodes_vis_cons in Hold.
    destruct (node_lock g Hg n fr q1 f1 Hfr) as [w1 [W1 L1]]; [intros x Hx; apply Hold; apply in_app_iff; auto|exact E1|].
    assert (Hf1 : base <= f1) by (destruct L1; lia).
    destruct (IH f1 q2 f2 Hf1) as [w2 [W2 L2]]; [intros x Hx; apply Hold; apply in_app_iff; auto|exact E2|].
    exists (w1 ++ w2). split; [simpl; rewrite W1, W2; reflexivity|].
    pose proof (lock_app _ _ _ _ _ _ _ _ _ _ _ _ _ L1 L2) as L12.
    change (nodes_back g (n :: r)) with (node_back g n ++ nodes_back g r).
    change (nodes_ghosts (n :: r)) with (node_ghosts n ++ nodes_ghosts r).
    eapply lock_vis; [|exact L12].
    intros x. rewrite nodes_vis_cons, !in_app_iff. tauto.
Qed.

Lemma tops_lock : forall ts fr qs fr1,
  base <= fr -> (forall x, In x (doc_vis ts) -> x < base) ->
  tops_to_rdf fr ts = (qs, fr1) ->
  exists w, tops_wit fr ts = (w, fr1)
    /\ lock fr qs fr1 w (doc_back ts) (doc_ghosts ts) (doc_vis ts).
Proof.
  induction ts as [|t r IH]; intros fr qs fr1 Hfr Hold E.
  - simpl in E. injection E as <- <-. exists []. split; [reflexivity|]. apply lock_nil.
  - simpl in E. destruct (node_to_rdf None fr (j_node t)) as [q1 f1] eqn:E1.
    rewrite doc_vis_cons in Hold. unfold top_vis in Hold.
    destruct (node_lock None Logic.I (j_node t) fr q1 f1 Hfr) as [w1 [W1 L1]];
      [intros x Hx; apply Hold; rewrite !in_app_iff; auto|exact E1|].
    assert (Hf1 : base <= f1) by (destruct L1; lia).
    assert (Hid : j_id (j_node t) < base) by (apply Hold; rewrite !in_app_iff; left; left; unfold node_vis; simpl; auto).
    destruct (j_graph t) as [ns|] eqn:Eg.
    + destruct (nodes_to_rdf (Some (j_id (j_node t))) f1 ns) as [q2 f2] eqn:E2.
      destruct (tops_to_rdf f2 r) as [q3 f3] eqn:E3. injection E as <- <-.
      destruct (nodes_lock (Some (j_id (j_node t))) Hid ns f1 q2 f2 Hf1) as [w2 [W2 L2]];
        [intros x Hx; apply Hold; rewrite !in_app_iff; auto|exact E2|].
      assert (Hf2 : base <= f2) by (destruct L2; lia).
      destruct (IH f2 q3 f3 Hf2) as [w3 [W3 L3]]; [intros x Hx; apply Hold; rewrite !in_app_iff; auto|exact E3|].
      exists (w1 ++ w2 ++ w3). split; [simpl; rewrite W1, Eg, W2, W3; reflexivity|].
      pose proof (lock_app _ _ _ _ _ _ _ _ _ _ _ _ _ L2 L3) as L23.
      pose proof (lock_app _ _ _ _ _ _ _ _ _ _ _ _ _ L1 L23) as L123.
      change (doc_back (t :: r)) with (top_back t ++ doc_back r).
      change (doc_ghosts (t :: r)) with (top_ghosts t ++ doc_ghosts r).
      unfold top_back, top_ghosts. rewrite Eg. rewrite <- !app_assoc.
      eapply lock_vis; [|exact L123].
      intros x Hx. rewrite doc_vis_cons. unfold top_vis. rewrite Eg. cbn [gl] in Hx. rewrite !in_app_iff in Hx. rewrite !in_app_iff. cbn [In] in Hx.
      destruct Hx as [[H|[]]|[[H|[<-|[]]]|H]]; auto. left. left. unfold node_vis. cbn [In]. auto.
    + destruct (tops_to_rdf f1 r) as [q3 f3] eqn:E3. injection E as <- <-.
      destruct (IH f1 q3 f3 Hf1) as [w3 [W3 L3]]; [intros x Hx; apply Hold; rewrite !in_app_iff; auto|exact E3|].
      exists (w1 ++ w3). split; [simpl; rewrite W1, Eg, W3; reflexivity|].
      pose proof (lock_app _ _ _ _ _ _ _ _ _ _ _ _ _ L1 L3) as L13.
      change (doc_back (t :: r)) with (top_back t ++ doc_back r).
      change (doc_ghosts (t :: r)) with (top_ghosts t ++ doc_ghosts r).
      unfold top_back, top_ghosts. rewrite Eg. rewrite !app_nil_r.
      eapply lock_vis; [|exact L13].
      intros x Hx. rewrite doc_vis_cons. unfold top_vis. rewrite Eg. cbn [gl] in Hx. rewrite !in_app_iff in Hx. rewrite !in_app_iff. cbn [In] in Hx. tauto.
Qed.
End Lock.

(* ---------- the whole document ---------- *)
Lemma rename_fresh (r : list (N * N)) base x : (forall p, In p r -> base <= fst p) -> x < base -> rename r x = x.
Proof.
  intros H Hx. unfold rename. destruct (aget N.eqb r x) as [y|] eqn:E; [|reflexivity].
  apply (aget_In _ Neqb_spec) in E. specialize (H _ E). simpl in H. lia.
Qed.
Lemma rename_key (r : list (N * N)) p : NoDup (map fst r) -> In p r -> rename r (fst p) = snd p.
Proof.
  intros Hnd Hp. destruct p as [a b]. unfold rename. simpl. rewrite (In_aget _ Neqb_spec _ _ _ Hnd Hp). reflexivity.
Qed.

(* For every document whose visible identifiers are below base: the reader's output renamed by the witness
   is [doc_back]; the witness maps pairwise different identifiers >= base to the ghosts, in order; and every
   identifier below base in the reader's output is visible in the document or one of the fixed predicates. *)
Theorem reader_lock base doc : (forall x, In x (doc_vis doc) -> x < base) ->
  let r := witness base doc in
  map (rename_q r) (to_rdf base doc) = doc_back doc
  /\ map snd r = doc_ghosts doc
  /\ NoDup (map fst r)
  /\ (forall p, In p r -> base <= fst p)
  /\ (forall x, In x (ids_of (to_rdf base doc)) -> In x (doc_vis doc) \/ In x reader_consts \/ base <= x).
Proof.
  intros Hold. unfold witness, to_rdf.
  destruct (tops_to_rdf base doc) as [qs fr1] eqn:E.
  (* first with the empty renaming, to learn about the keys *)
  destruct (tops_lock base [] (fun x _ => rename_nil x) doc base qs fr1 (N.le_refl _) Hold E) as [w [W L0]].
  rewrite W. simpl.
  assert (Hkeys : forall p, In p w -> base <= fst p) by (intros p Hp; destruct L0 as [_ _ A3 _ _ _]; apply A3; exact Hp).
  assert (Hnd : NoDup (map fst w)) by (destruct L0; assumption).
  destruct (tops_lock base w (fun x Hx => rename_fresh w base x Hkeys Hx) doc base qs fr1 (N.le_refl _) Hold E) as [w' [W' L]].
  rewrite W in W'. injection W' as <-.
  destruct L as [A1 A2 A3 A4 A5 A6].
  split; [apply A6; intros p Hp; apply rename_key; assumption|].
  split; [exact A4|]. split; [exact A2|]. split; [exact Hkeys|exact A5].
Qed.
