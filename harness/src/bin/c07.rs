//! C07: isomorphic_datasets on renamed/shuffled copies and on mutants, every pair of container
//! types, against the Coq model (C07/Model.v, run with an FNV stand-in for SipHash) and the
//! property oracle (no false negative, symmetry, false on blanked-statement differences).
use sophia_api::prelude::*;
use sophia_api::quad::Spog;
use sophia_api::term::SimpleTerm;
use sophia_inmem::dataset::{FastDataset, LightDataset};
use sophia_isomorphism::isomorphic_datasets;
use std::collections::{BTreeSet, HashSet};
use verif_harness::*;

type Q = Spog<ST>;

fn gen_ground(r: &mut Rng) -> ST {
    match r.below(6) {
        0 | 1 => iri(&format!("http://e/{}", r.ps(&["a", "b", "p", "q"]))),
        2 => lit_dt(r.ps(&["x", "y", ""]), &format!("{XSD}string")),
        3 => lit_lang(r.ps(&["x", "y"]), r.ps(&["en", "EN", "fr"])),
        4 => lit_dt(r.ps(&["1", "2"]), &format!("{XSD}integer")),
        _ => var(r.ps(&["v", "w"])),
    }
}
fn gen_term(r: &mut Rng, nb: usize, depth: usize) -> ST {
    match r.below(if depth > 0 { 8 } else { 7 }) {
        0..=3 => bnode(&format!("b{}", r.below(nb.max(1)))),
        4..=6 => gen_ground(r),
        // generalized RDF-star: the predicate of a quoted triple may be any term, in particular a blank node
        _ => { let p = if r.chance(1, 3) { gen_term(r, nb, 0) } else { iri(&format!("http://e/{}", r.ps(&["p", "q"]))) }; triple(gen_term(r, nb, depth - 1), p, gen_term(r, nb, depth - 1)) }
    }
}
/// number of ground atoms in a term (blank nodes are not ground)
fn n_ground(t: &ST) -> usize { match t { SimpleTerm::BlankNode(_) => 0, SimpleTerm::Triple(tr) => tr.iter().map(n_ground).sum(), _ => 1 } }
/// a minimally different ground atom: another language tag / datatype / lexical form / IRI / variable name
fn near_ground(t: &ST, r: &mut Rng) -> ST {
    match t {
        SimpleTerm::LiteralLanguage(l, tag) => match r.below(3) { 0 => lit_lang(l, if tag.as_str().eq_ignore_ascii_case("en") { "fr" } else { "en" }), 1 => lit_lang(l, &format!("{}-x", tag.as_str())), _ => lit_dt(l, &format!("{XSD}string")) },
        SimpleTerm::LiteralDatatype(l, d) => match r.below(3) { 0 => lit_dt(l, &format!("{}x", d.as_str())), 1 => lit_dt(&format!("{l}x"), d.as_str()), _ => lit_lang(l, "en") },
        SimpleTerm::Iri(i) => iri(&format!("{}x", i.as_str())),
        SimpleTerm::Variable(v) => var(&format!("{}x", v.as_str())),
        _ => t.clone(),
    }
}
/// replace the k-th ground atom (in left-to-right order, at any depth) by a near variant
fn mutate_ground(t: &ST, k: &mut usize, r: &mut Rng) -> ST {
    match t {
        SimpleTerm::BlankNode(_) => t.clone(),
        SimpleTerm::Triple(tr) => triple(mutate_ground(&tr[0], k, r), mutate_ground(&tr[1], k, r), mutate_ground(&tr[2], k, r)),
        _ => { if *k == 0 { *k = usize::MAX; near_ground(t, r) } else { if *k != usize::MAX { *k -= 1; } t.clone() } }
    }
}
fn gen_dataset(r: &mut Rng) -> Vec<Q> {
    let nb = r.range(1, 5);
    match r.below(11) {
        9 | 10 => { // blank nodes ONLY as graph names (no blank node in any subject / predicate / object), including the very same
            // triple in two graphs named by distinct blank nodes, one of which is also described elsewhere
            let ng = r.range(2, 3); let mut v: Vec<Q> = vec![];
            for i in 0..r.range(1, 4) { v.push(([iri("http://e/a"), iri(&format!("http://e/{}", r.ps(&["p", "q", "p1", "p2"]))), if r.chance(1, 2) { iri("http://e/b") } else { lit_lang("x", "en") }], Some(bnode(&format!("g{}", (i + r.below(2)) % ng))))); }
            if r.chance(1, 2) { let t = [iri("http://e/s"), iri("http://e/p"), iri("http://e/o")]; v.push((t.clone(), Some(bnode("g0")))); v.push((t, Some(bnode("g1")))); }
            if r.chance(1, 2) { v.push(([iri("http://e/about"), iri("http://e/q"), iri("http://e/c")], Some(bnode("g0")))); }
            if r.chance(1, 3) { v.push(([iri("http://e/a"), iri("http://e/p"), iri("http://e/b")], None)); }
            v }
        7 | 8 => { // statements sharing one quoted-triple skeleton, with DISTINCT blank nodes at one position of it (subject,
            // predicate or object, possibly one level deeper), and differing in a LATER position of the statement: a
            // blank-blind sort must order them by that later position whatever the labels are
            let n = r.range(2, 3); let j = r.below(3); let deep = r.chance(1, 3); let in_object = r.chance(1, 3);
            let sk = |b: ST, r: &mut Rng| -> ST { let mut parts = [iri("http://e/a"), iri("http://e/p"), lit_lang("x", "en")]; parts[j] = b; let t = triple(parts[0].clone(), parts[1].clone(), parts[2].clone()); if deep { let _ = r; triple(t, iri("http://e/q"), iri("http://e/b")) } else { t } };
            let mut v: Vec<Q> = vec![];
            for i in 0..n {
                let qt = sk(bnode(&format!("b{i}")), r); let later = iri(&format!("http://e/{}", ["a", "b", "c"][i]));
                if in_object { v.push(([iri("http://e/s"), iri("http://e/p"), qt], Some(later))); } else { v.push(([qt, iri("http://e/p"), later], None)); }
            }
            if r.chance(1, 2) { v.push(([bnode("b0"), iri("http://e/q"), bnode("b1")], None)); }
            v }
        0 => { // cycle
            let p = iri("http://e/p"); (0..nb).map(|i| ([bnode(&format!("b{i}")), p.clone(), bnode(&format!("b{}", (i + 1) % nb))], None)).collect() }
        1 => { // clique with blank graph name
            let p = iri("http://e/p"); let mut v = vec![]; for i in 0..nb { for j in 0..nb { if i != j { v.push(([bnode(&format!("b{i}")), p.clone(), bnode(&format!("b{j}"))], Some(bnode("g")))); } } } v }
        2 => { // two disjoint isomorphic components + star
            let p = iri("http://e/p"); let mut v = vec![];
            for c in 0..2 { for i in 0..nb { v.push(([bnode(&format!("c{c}n{i}")), p.clone(), bnode(&format!("c{c}n{}", (i + 1) % nb))], None)); } }
            for i in 0..nb { v.push(([bnode("hub"), iri("http://e/q"), bnode(&format!("c0n{i}"))], None)); } v }
        3 => { // quoted triples with blank nodes
            (0..r.range(1, 4)).map(|_| ([triple(bnode(&format!("b{}", r.below(nb))), iri("http://e/p"), gen_term(r, nb, 1)), iri("http://e/q"), gen_term(r, nb, 0)], if r.chance(1, 3) { Some(bnode(&format!("b{}", r.below(nb)))) } else { None })).collect() }
        5 => { let mut v: Vec<Q> = (0..r.range(1, 4)).map(|_| ([gen_ground(r), iri(&format!("http://e/{}", r.ps(&["p", "q"]))), gen_ground(r)], if r.chance(1, 2) { Some(iri("http://e/g")) } else { None })).collect(); v.push(([bnode("b0"), iri("http://e/p"), bnode("b1")], None)); v }
        _ => (0..r.range(1, 7)).map(|_| ([gen_term(r, nb, 1), if r.chance(1, 5) { gen_term(r, nb, 1) } else { iri(&format!("http://e/{}", r.ps(&["p", "q"]))) }, gen_term(r, nb, 2)], match r.below(4) { 0 => Some(gen_term(r, nb, 0)), _ => None })).collect(),
    }
}
fn rename_t(t: &ST, f: &dyn Fn(&str) -> String) -> ST {
    match t {
        SimpleTerm::BlankNode(b) => bnode(&f(b.as_str())),
        SimpleTerm::Triple(tr) => triple(rename_t(&tr[0], f), rename_t(&tr[1], f), rename_t(&tr[2], f)),
        _ => t.clone(),
    }
}
fn rename_q(q: &Q, f: &dyn Fn(&str) -> String) -> Q { ([rename_t(&q.0[0], f), rename_t(&q.0[1], f), rename_t(&q.0[2], f)], q.1.as_ref().map(|g| rename_t(g, f))) }
fn shuffle<T>(v: &mut Vec<T>, r: &mut Rng) { for i in (1..v.len()).rev() { let j = r.below(i + 1); v.swap(i, j); } }
fn blank_key(t: &ST) -> String { match t { SimpleTerm::BlankNode(_) => "_:".into(), SimpleTerm::Triple(tr) => format!("<<{} {} {}>>", blank_key(&tr[0]), blank_key(&tr[1]), blank_key(&tr[2])), SimpleTerm::LiteralLanguage(l, tag) => format!("{l:?}@{}", tag.as_str().to_ascii_lowercase()), _ => format!("{t:?}") } }
fn blank_qkey(q: &Q) -> String { format!("{} {} {} {}", blank_key(&q.0[0]), blank_key(&q.0[1]), blank_key(&q.0[2]), q.1.as_ref().map(blank_key).unwrap_or_default()) }
fn bnodes(t: &ST, out: &mut BTreeSet<String>) { match t { SimpleTerm::BlankNode(b) => { out.insert(b.as_str().to_string()); } SimpleTerm::Triple(tr) => { for x in tr.iter() { bnodes(x, out) } } _ => {} } }

fn iso_in(kind: usize, a: &[Q], b: &[Q]) -> bool {
    macro_rules! mk { ($ty:ty, $v:expr) => {{ let mut d = <$ty>::default(); for q in $v { d.insert_quad(q.clone()).unwrap(); } d }}; }
    match kind {
        0 => isomorphic_datasets(&a.to_vec(), &b.to_vec()).unwrap(),
        1 => isomorphic_datasets(&mk!(HashSet<Q>, a), &b.to_vec()).unwrap(),
        2 => isomorphic_datasets(&mk!(FastDataset, a), &mk!(LightDataset, b)).unwrap(),
        3 => isomorphic_datasets(&mk!(LightDataset, a), &mk!(HashSet<Q>, b)).unwrap(),
        _ => isomorphic_datasets(&mk!(BTreeSet<Q>, a), &mk!(FastDataset, b)).unwrap(),
    }
}
/// the GRAPH entry point: one graph of d1 seen through a filtered view of the whole dataset (its size hint is not exact)
/// against the stand-alone list of the triples of the same graph of d2; None when the graph name is a blank node
fn iso_graph_view(a: &[Q], b: &[Q], g: Option<&ST>) -> bool {
    use sophia_isomorphism::isomorphic_graphs;
    let av: Vec<Q> = a.to_vec();
    let bt: Vec<[ST; 3]> = b.iter().filter(|q| match (&q.1, g) { (None, None) => true, (Some(x), Some(y)) => Term::eq(x, y.borrow_term()), _ => false }).map(|q| q.0.clone()).collect();
    let view = av.graph(g.cloned());
    let r1 = isomorphic_graphs(&view, &bt).unwrap();
    let r2 = isomorphic_graphs(&bt, &view).unwrap();
    r1 && r2
}
fn c_quad(q: &Q) -> String { format!("(mkQ {} {} {} {})", coq_term(&q.0[0]), coq_term(&q.0[1]), coq_term(&q.0[2]), coq_opt(q.1.as_ref().map(|g| coq_term(g)))) }
fn dedup(v: &[Q]) -> Vec<Q> { let mut out: Vec<Q> = vec![]; for q in v { if !out.iter().any(|x| Quad::eq(x, (q.0.each_ref(), q.1.as_ref()))) { out.push(q.clone()) } } out }

fn main() {
    let a = parse_args();
    let mut sum = Summary::default();
    sum.rule = "case = (dataset shape: cycle / clique with blank graph name / disjoint isomorphic components + star / quoted triples containing blank nodes / random generalized quads; second dataset = renamed+shuffled copy, or a mutant: one ground term changed, one statement added or removed, two blank nodes merged, one split; pair of container types); \
non-trivial = at least 2 blank nodes and the pair passes the size and blanked-statement pre-checks (so the colour refinement decides); distinct = distinct printed pair".into();
    let base = Rng::new(a.seed);
    let mut cases = vec![]; let mut seen = HashSet::new();
    let range: Vec<usize> = match a.only { Some(i) => vec![i], None => (0..a.n).collect() };
    for idx in range {
        let mut r = base.fork(idx as u64);
        let d1 = dedup(&gen_dataset(&mut r));
        let mut d1 = d1;
        let variant = r.below(8);
        let suffix = format!("x{}", r.below(3));
        let mut d2: Vec<Q> = d1.iter().map(|q| rename_q(q, &|b| format!("{b}{suffix}"))).collect();
        // a genuine permutation of labels within the same label set, half of the time
        if r.chance(1, 2) { let mut s = BTreeSet::new(); for q in &d1 { for t in q.0.iter() { bnodes(t, &mut s) } if let Some(g) = &q.1 { bnodes(g, &mut s) } } let labels: Vec<String> = s.into_iter().collect(); let mut perm = labels.clone(); shuffle(&mut perm, &mut r); d2 = d1.iter().map(|q| rename_q(q, &|b| perm[labels.iter().position(|l| l == b).unwrap()].clone())).collect(); }
        let mut expect_true = true;
        match variant {
            0 | 1 => {}
            2 => { // one ground difference: a term in a random position, or the graph name (default <-> named)
                if !d2.is_empty() { let k = r.below(d2.len()); let q = &mut d2[k];
                    let total: usize = q.0.iter().map(n_ground).sum::<usize>() + q.1.as_ref().map_or(0, n_ground);
                    match r.below(8) {
                        // a minimal change of one ground atom anywhere in the statement (any position, any depth)
                        5..=7 if total > 0 => { let mut k = r.below(total); for i in 0..3 { q.0[i] = mutate_ground(&q.0[i].clone(), &mut k, &mut r); } if let Some(g) = q.1.clone() { q.1 = Some(mutate_ground(&g, &mut k, &mut r)); } }
                        0 => q.0[1] = iri("http://e/CHANGED"),
                        1 => q.0[0] = iri("http://e/CHANGED"),
                        2 => q.0[2] = lit_dt("CHANGED", &format!("{XSD}string")),
                        _ => q.1 = match &q.1 { None => Some(iri("http://e/g")), Some(_) => None },
                    }
                    expect_true = false; } }
            3 => { d2.push(([iri("http://e/extra"), iri("http://e/p"), bnode("fresh")], None)); expect_true = false; }
            6 | 7 => { // a minimal change of one ground atom in a statement that mentions NO blank node (nothing but the
                // pairwise comparison of the sorted statements can see it); such a statement is added if there is none
                let blank_free = |q: &Q| { let mut s = BTreeSet::new(); for t in q.0.iter() { bnodes(t, &mut s) } if let Some(g) = &q.1 { bnodes(g, &mut s) } s.is_empty() };
                if !d2.iter().any(|q| blank_free(q)) { let q: Q = ([gen_ground(&mut r), iri("http://e/p"), if r.chance(1, 2) { lit_lang("x", "en") } else { triple(gen_ground(&mut r), iri("http://e/p"), lit_lang("y", "fr")) }], if r.chance(1, 3) { Some(iri("http://e/g")) } else { None }); d1.push(q.clone()); d2.push(q); }
                let ks: Vec<usize> = (0..d2.len()).filter(|k| blank_free(&d2[*k])).collect(); let k = *r.pick(&ks); let q = &mut d2[k];
                let total: usize = q.0.iter().map(n_ground).sum::<usize>() + q.1.as_ref().map_or(0, n_ground);
                let mut at = r.below(total); for i in 0..3 { q.0[i] = mutate_ground(&q.0[i].clone(), &mut at, &mut r); } if let Some(g) = q.1.clone() { q.1 = Some(mutate_ground(&g, &mut at, &mut r)); }
                expect_true = false; }
            4 => { // merge two blank nodes
                let mut s = BTreeSet::new(); for q in &d2 { for t in q.0.iter() { bnodes(t, &mut s) } if let Some(g) = &q.1 { bnodes(g, &mut s) } }
                let l: Vec<String> = s.into_iter().collect();
                if l.len() >= 2 { let (x, y) = (l[0].clone(), l[1].clone()); d2 = dedup(&d2.iter().map(|q| rename_q(q, &|b| if b == y { x.clone() } else { b.to_string() })).collect::<Vec<_>>()); expect_true = false; } }
            5 => { // split: one occurrence of a blank node becomes a fresh node
                if let Some(q) = d2.iter_mut().find(|q| q.0[0].is_blank_node()) { q.0[0] = bnode("splitoff"); expect_true = false; } }
            _ => {}
        }
        d2 = dedup(&d2);
        shuffle(&mut d2, &mut r);
        let kind = r.below(5);
        let ans = iso_in(kind, &d1, &d2);
        let rev = iso_in(kind, &d2, &d1);
        let text = format!("containers#{kind} d1={:?} d2={:?}", d1, d2);
        if a.only.is_some() { println!("CASE {idx}: variant {variant} {text}\nIMPL {ans} (reverse {rev})"); }
        if ans != rev { sum.oracle_failures.push((idx.to_string(), format!("not symmetric: iso(d1,d2)={ans} iso(d2,d1)={rev}; {text}"))); }
        if expect_true && !ans { sum.oracle_failures.push((idx.to_string(), format!("false negative on a renamed and reordered copy; {text}"))); }
        if expect_true {
            // every ground-named graph of the copy, through the graph entry point and a dataset view
            let mut names: Vec<Option<ST>> = vec![None]; for q in &d1 { if let Some(g) = &q.1 { if !g.is_blank_node() && !g.is_triple() && !names.iter().any(|n| n.as_ref() == Some(g)) { names.push(Some(g.clone())); } } }
            for g in names { if !iso_graph_view(&d1, &d2, g.as_ref()) { sum.oracle_failures.push((idx.to_string(), format!("false negative of isomorphic_graphs on the graph {g:?} of a renamed and reordered copy (one side is a view of the dataset, the other a stand-alone list); {text}"))); } sum.bump("graph-entry-point"); }
        }
        // must be false when sizes, blank node counts or blanked statements differ
        let mut k1: Vec<String> = d1.iter().map(blank_qkey).collect(); k1.sort(); let mut k2: Vec<String> = d2.iter().map(blank_qkey).collect(); k2.sort();
        let (mut b1, mut b2) = (BTreeSet::new(), BTreeSet::new());
        for q in &d1 { for t in q.0.iter() { bnodes(t, &mut b1) } if let Some(g) = &q.1 { bnodes(g, &mut b1) } }
        for q in &d2 { for t in q.0.iter() { bnodes(t, &mut b2) } if let Some(g) = &q.1 { bnodes(g, &mut b2) } }
        let must_be_false = k1 != k2 || b1.len() != b2.len();
        if must_be_false && ans { sum.oracle_failures.push((idx.to_string(), format!("answered true although the datasets differ in size, blank node count or a blanked statement; {text}"))); }
        let nontrivial = b1.len() >= 2 && !must_be_false;
        if seen.insert(text.clone()) && nontrivial { sum.distinct_nontrivial += 1; }
        sum.bump(&format!("variant:{}", ["copy", "copy", "ground-term-changed", "statement-added", "blank-merged", "blank-split", "ground-atom-changed-in-blank-free-statement", "ground-atom-changed-in-blank-free-statement"][variant])); sum.bump(&format!("answer:{ans}")); sum.bump(&format!("containers:{kind}"));
        if sum.samples.len() < 4 && nontrivial { sum.samples.push(format!("case {idx}: {text} => {ans}")); }
        sum.evaluations += 1;
        cases.push((idx, format!("iso_ok {} {} {}", coq_list(d1.iter().map(c_quad)), coq_list(d2.iter().map(c_quad)), coq_bool(ans))));
    }
    if a.only.is_none() {
        sum.shards = write_shards(&a.out, "From Sophia.C07 Require Import Model.", &cases, a.shards);
        std::fs::write(format!("{}/summary.json", a.out), sum.to_json()).unwrap();
    }
    println!("c07: {} cases, {} distinct non-trivial, {} oracle failures", sum.evaluations, sum.distinct_nontrivial, sum.oracle_failures.len());
}
