(* C12/RoundTripFacts.v -- structure of the suppressed list nodes of a processed dataset: what is known of a marked
   cell, the parent forest and its heights (anchoring makes it acyclic), and how `cells` and `convert` unfold along it. *)
From Coq Require Import Permutation.
From Sophia.C12 Require Import Model Proofs Back BackProofs.

Lemma NoDup_map_filter {A Bt} (f : A -> Bt) (P : A -> bool) (l : list A) :
  NoDup (map f l) -> NoDup (map f (filter P l)).
Proof.
  induction l as [|a l IH]; simpl; intros H; [constructor|]. inversion H; subst.
  destruct (P a); simpl; [|auto]. constructor; [|auto].
  intros Hin. apply in_map_iff in Hin as [x [E Hx]]. apply filter_In in Hx as [Hx _].
  apply H2. rewrite <- E. apply in_map. exact Hx.
Qed.

Section Facts.
Variable info : N -> tinfo.
Variable o : opts.
Variable d : list quad.
Hypothesis Hwf : wf_info info.
Notation s := (process info o d).
Notation D := (filter (is_jsonld info) d).
Notation M := (mark_all info o (process info o d)).
Notation L := (list_nodes info o (process info o d)).
Notation C := (compounds info o (process info o d)).

Lemma HI : inv info o s D.
Proof. apply inv_process. Qed.

(* ---------- the fixed identifiers ---------- *)
Lemma const_iri c : In c [c_first; c_rest; c_nil; c_type; c_List; c_value; c_direction; c_language] ->
  is_blank info c = false /\ is_lit info c = false /\ is_iri info c = true.
Proof.
  intros H. pose proof (Hwf c H) as E. unfold is_blank, is_lit, is_iri. rewrite E. auto.
Qed.
Lemma nil_not_blank : is_blank info c_nil = false.
Proof. apply const_iri. simpl. auto. Qed.
Lemma blank_not_nil b : is_blank info b = true -> b <> c_nil.
Proof. intros H ->. rewrite nil_not_blank in H. discriminate. Qed.

(* ---------- unique_parent ---------- *)
Lemma up_quads b pk pp : aget N.eqb (uparent s) b = Some (Some (pk, pp)) ->
  is_blank info b = true
  /\ (exists q, In q D /\ qo q = b /\ skey q = pk /\ qp q = pp)
  /\ (forall q, In q D -> qo q = b -> skey q = pk /\ qp q = pp).
Proof.
  intros E. pose proof (inv_up _ _ _ _ HI b) as H. rewrite E in H.
  destruct H as [Hb [[q [Hq [Eo Ep]]] Hall]]. split; [exact Hb|]. split.
  - exists q. injection Ep as E1 E2. auto.
  - intros q' Hq' Eo'. specialize (Hall q' Hq' Eo'). injection Hall as E1 E2. auto.
Qed.

(* ---------- what is known of a marked node ---------- *)
Lemma L_keep : L = keep M.
Proof. reflexivity. Qed.

Lemma L_M k pk : aget nkey_eqb L k = Some pk ->
  aget nkey_eqb M k = Some pk /\ anchored (length M) M k = true.
Proof.
  rewrite L_keep, aget_keep. destruct (anchored (length M) M k); [auto|discriminate].
Qed.

Record lfacts (k pk : nkey) : Prop := mkLf {
  lf_blank : is_blank info (snd k) = true;
  lf_graph : fst pk = fst k;
  lf_up : exists pp, aget N.eqb (uparent s) (snd k) = Some (Some (pk, pp)) /\ (mode10 o = true -> pp <> c_first);
  lf_ngraphs : ngraphs s (snd k) = 1%nat;
  lf_listnode : is_list_node (get_node s k) = true;
  lf_fr : exists f r, In (mkQ (snd k) c_first f (fst k)) D /\ In (mkQ (snd k) c_rest r (fst k)) D
          /\ is_lit info r = false
          /\ rest_val (get_node s k) = ONode (fst k, r)
          /\ first_val (get_node s k) = obj_of info (mkQ (snd k) c_first f (fst k))
          /\ (forall q, In q D -> qs q = snd k -> (qp q = c_first /\ qo q = f) \/ (qp q = c_rest /\ qo q = r))
          /\ (r = c_nil \/ aget nkey_eqb L (fst k, r) = Some k);
  lf_subj : forall q, In q D -> qs q = snd k -> qg q = fst k;
  lf_nograph : forall q, In q D -> qg q <> Some (snd k);
  lf_anch : anchored (length L) L k = true
}.

Lemma L_facts k pk : aget nkey_eqb L k = Some pk -> lfacts k pk.
Proof.
  intros HL. destruct (L_M k pk HL) as [Hm Ha].
  destruct (mark_all_inv info o s D HI) as [Hg Hc].
  destruct (Hg _ _ Hm) as [Hb [[pp [Eu Hmode]] [Eg [Hn Hl]]]].
  destruct (list_node_quads info o s D HI k Hl Hn) as [H1 [H2 [f [r [Hf [Hr [Hlit [Erest [Efirst Hex]]]]]]]]].
  constructor; auto.
  - exists pp. auto.
  - exists f, r. repeat (split; [assumption|]).
    destruct (Hc _ _ Hm _ Erest) as [Hnil|Hch]; [left; exact Hnil|]. right.
    rewrite L_keep, aget_keep. rewrite (keep_child _ _ _ Ha Hch). exact Hch.
  - apply (anchored_len (length L) L (le_n _) (length M)). rewrite L_keep. apply keep_anchored. exact Ha.
Qed.

(* the quad that references a marked node, and its uniqueness *)
Lemma L_parent k pk : aget nkey_eqb L k = Some pk ->
  exists pp, (exists q, In q D /\ qo q = snd k /\ skey q = pk /\ qp q = pp)
          /\ (forall q, In q D -> qo q = snd k -> skey q = pk /\ qp q = pp)
          /\ (mode10 o = true -> pp <> c_first).
Proof.
  intros HL. destruct (lf_up _ _ (L_facts k pk HL)) as [pp [Eu Hmode]].
  destruct (up_quads _ _ _ Eu) as [_ [H1 H2]]. exists pp. auto.
Qed.

Lemma marked_key k pk : aget nkey_eqb L k = Some pk -> In k (map fst (nodes s)).
Proof.
  intros HL. apply key_in_of_nonempty. intros E.
  pose proof (lf_listnode _ _ (L_facts k pk HL)) as Hl. rewrite E in Hl. discriminate.
Qed.

(* ---------- the marks have pairwise different keys, all of them node keys ---------- *)
Lemma mark_nodup fuel : forall m k, NoDup (map fst m) -> NoDup (map fst (mark info o s fuel m k)).
Proof.
  induction fuel as [|f IH]; intros m k H; simpl; [exact H|].
  destruct (aget N.eqb (uparent s) (snd k)) as [[[pk pp]|]|]; auto.
  destruct (mode10 o && (pp =? c_first)); auto.
  destruct (gkey_eqb (fst pk) (fst k) && (ngraphs s (snd k) =? 1)%nat); auto.
  destruct (is_list_node (get_node s k)); auto.
  assert (H' : NoDup (map fst (mark_insert m k pk))) by (apply (aupd_nodup _ nkey_eqb_spec); exact H).
  destruct (is_blank info (snd pk) && (pp =? c_rest)); auto.
Qed.
Lemma M_nodup : NoDup (map fst M).
Proof.
  unfold mark_all. generalize (seeds s). intros l.
  assert (H : NoDup (map fst (@nil (nkey * nkey)))) by constructor.
  revert H. generalize (@nil (nkey * nkey)). induction l as [|k l IH]; intros m H; cbn [fold_left]; [exact H|].
  apply IH. apply mark_nodup. exact H.
Qed.
Lemma L_nodup : NoDup (map fst L).
Proof. rewrite L_keep. unfold keep. apply NoDup_map_filter. apply M_nodup. Qed.

Lemma L_le_nodes : (length L <= length (nodes s))%nat.
Proof.
  rewrite <- (map_length fst L), <- (map_length fst (nodes s)).
  apply NoDup_incl_length; [apply L_nodup|].
  intros k Hk. destruct (in_keys_aget _ nkey_eqb_spec _ _ Hk) as [pk Hpk]. eapply marked_key; eauto.
Qed.

(* ---------- heights in the parent forest ---------- *)
Fixpoint height (fuel : nat) (k : nkey) : nat :=
  match aget nkey_eqb L k with
  | None => O
  | Some p => match fuel with O => O | S f => S (height f p) end
  end.
Definition Bnd : nat := length L.
Definition hgt (k : nkey) : nat := height Bnd k.

Lemma height_eq n k :
  height n k = match aget nkey_eqb L k with
               | None => O
               | Some p => match n with O => O | S f => S (height f p) end
               end.
Proof. destruct n; reflexivity. Qed.

Lemma height_stable n : forall x, anchored n L x = true -> forall m, (n <= m)%nat -> height m x = height n x.
Proof.
  induction n as [|n IH]; intros x Ha m Hle; rewrite anchored_eq in Ha; rewrite (height_eq m), (height_eq _ x);
    destruct (aget nkey_eqb L x) as [p|]; auto; try discriminate.
  destruct m as [|m]; [lia|]. f_equal. apply IH; [exact Ha|lia].
Qed.
Lemma height_le n : forall x, anchored n L x = true -> (height n x <= n)%nat.
Proof.
  induction n as [|n IH]; intros x Ha; rewrite anchored_eq in Ha; rewrite height_eq;
    destruct (aget nkey_eqb L x) as [p|]; try lia; try discriminate.
  specialize (IH p Ha). lia.
Qed.

Lemma h_unmarked k : aget nkey_eqb L k = None -> hgt k = O.
Proof. intros E. unfold hgt. rewrite height_eq, E. reflexivity. Qed.

Lemma h_step k pk : aget nkey_eqb L k = Some pk -> hgt k = S (hgt pk) /\ (hgt k <= Bnd)%nat.
Proof.
  intros HL. pose proof (lf_anch _ _ (L_facts k pk HL)) as Ha. fold Bnd in Ha.
  split; [|apply height_le; exact Ha].
  unfold hgt. rewrite anchored_eq, HL in Ha. rewrite (height_eq Bnd k), HL.
  destruct Bnd as [|b]; [discriminate|]. f_equal. symmetry. apply height_stable; [exact Ha|lia].
Qed.

(* induction from the parents to the children: the children of a marked node are higher, and heights are bounded *)
Lemma marked_ind (P : nkey -> Prop) :
  (forall k pk, aget nkey_eqb L k = Some pk ->
     (forall k', aget nkey_eqb L k' = Some k -> P k') -> P k) ->
  forall k pk, aget nkey_eqb L k = Some pk -> P k.
Proof.
  intros Hstep.
  assert (H : forall n k pk, aget nkey_eqb L k = Some pk -> (Bnd - hgt k < n)%nat -> P k).
  { induction n as [|n IH]; intros k pk HL Hlt; [lia|].
    apply (Hstep k pk HL). intros k' HL'.
    destruct (h_step k' k HL') as [E1 E2]. apply (IH k' k HL'). lia. }
  intros k pk HL. apply (H (S (Bnd - hgt k)) k pk HL). lia.
Qed.

(* ---------- ancestors ---------- *)
Lemma reach_h x y j : reach L x y j -> hgt x = (hgt y + j)%nat.
Proof.
  induction 1 as [x|x p y j Hx Hr IH]; [lia|]. destruct (h_step x p Hx) as [E _]. lia.
Qed.
Lemma reach_fun x y j : reach L x y j -> forall y', reach L x y' j -> y = y'.
Proof.
  induction 1 as [x|x p y j Hx Hr IH]; intros y' H'; inversion H'; subst; [reflexivity|].
  apply IH. congruence.
Qed.
Definition desc (x y : nkey) : Prop := exists j, reach L x y j.
Lemma desc_refl x : desc x x.
Proof. exists O. constructor. Qed.
Lemma desc_up x y z : desc x y -> aget nkey_eqb L y = Some z -> desc x z.
Proof. intros [j Hj] Hy. exists (S j). eapply reach_snoc; eauto. Qed.
Lemma desc_same_height x y y' : desc x y -> desc x y' -> hgt y = hgt y' -> y = y'.
Proof.
  intros [j Hj] [j' Hj'] E. pose proof (reach_h _ _ _ Hj). pose proof (reach_h _ _ _ Hj').
  assert (j = j') by lia. subst j'. eapply reach_fun; eauto.
Qed.
Lemma desc_h x y : desc x y -> (hgt y <= hgt x)%nat.
Proof. intros [j Hj]. pose proof (reach_h _ _ _ Hj). lia. Qed.
Lemma desc_unmarked x y : desc x y -> aget nkey_eqb L x = None -> y = x.
Proof. intros [j Hj] E. inversion Hj; subst; [reflexivity|congruence]. Qed.

(* ---------- cells ---------- *)
Lemma cells_S F k :
  cells s (S F) k = k :: match rest_val (get_node s k) with
                         | ONode k' => if snd k' =? c_nil then [] else cells s F k'
                         | OLit _ => []
                         end.
Proof. reflexivity. Qed.

Lemma cells_stable : forall k pk, aget nkey_eqb L k = Some pk ->
  forall F F', (Bnd < F + hgt k)%nat -> (Bnd < F' + hgt k)%nat -> cells s F k = cells s F' k.
Proof.
  apply (marked_ind (fun k => forall F F', (Bnd < F + hgt k)%nat -> (Bnd < F' + hgt k)%nat -> cells s F k = cells s F' k)).
  intros k pk HL IH F F' HF HF'. destruct (h_step k pk HL) as [Eh Hb].
  destruct F as [|F]; [lia|]. destruct F' as [|F']; [lia|]. rewrite !cells_S. f_equal.
  destruct (lf_fr _ _ (L_facts k pk HL)) as [f [r [_ [_ [_ [Er [_ [_ Hr]]]]]]]]. rewrite Er. simpl.
  destruct (N.eqb_spec r c_nil) as [|Hn]; [reflexivity|].
  destruct Hr as [Hr|Hr]; [contradiction|].
  destruct (h_step _ _ Hr) as [Eh' _]. apply (IH _ Hr); lia.
Qed.

Definition NF : nat := S (length (nodes s)).
Lemma NF_big k : (Bnd < NF + hgt k)%nat.
Proof. unfold NF, Bnd. pose proof L_le_nodes. lia. Qed.

(* the chain of a marked cell: itself, then the chain of its rdf:rest object *)
Lemma cells_marked_unfold k pk : aget nkey_eqb L k = Some pk ->
  exists r, rest_val (get_node s k) = ONode (fst k, r)
    /\ (r = c_nil \/ aget nkey_eqb L (fst k, r) = Some k)
    /\ cells s NF k = k :: (if r =? c_nil then [] else cells s NF (fst k, r)).
Proof.
  intros HL. destruct (lf_fr _ _ (L_facts k pk HL)) as [f [r [_ [_ [_ [Er [_ [_ Hr]]]]]]]].
  exists r. split; [exact Er|]. split; [exact Hr|].
  unfold NF at 1. rewrite cells_S, Er. cbn [snd]. f_equal.
  destruct (N.eqb_spec r c_nil) as [|Hn]; [reflexivity|].
  destruct Hr as [Hr|Hr]; [contradiction|].
  destruct (h_step _ _ Hr) as [Eh' _]. destruct (h_step _ _ HL) as [Eh Hb].
  apply (cells_stable _ _ Hr); [|apply NF_big]. pose proof L_le_nodes. unfold Bnd in *. lia.
Qed.

(* ---------- convert on a marked node ---------- *)
Notation cv := (convert info s L C).

Lemma is_marked_L k pk : aget nkey_eqb L k = Some pk -> is_marked L k = true.
Proof. intros E. unfold is_marked. rewrite E. reflexivity. Qed.
Lemma is_marked_inv k : is_marked L k = true -> exists pk, aget nkey_eqb L k = Some pk.
Proof. unfold is_marked. destruct (aget nkey_eqb L k) as [pk|]; [eauto|discriminate]. Qed.

Lemma convert_marked_S k pk f : aget nkey_eqb L k = Some pk ->
  cv (S f) (ONode k) =
  JList (map snd (cells s NF k)) (map (fun c => cv f (first_val (get_node s c))) (cells s NF k)).
Proof.
  intros HL. pose proof (L_facts k pk HL) as F.
  simpl. rewrite (proj2 (N.eqb_neq _ _) (blank_not_nil _ (lf_blank _ _ F))).
  rewrite (lf_blank _ _ F). simpl. rewrite (is_marked_L _ _ HL). reflexivity.
Qed.

(* one step of the chain: the head cell, then the rendering of the rest *)
Lemma convert_marked k pk f : aget nkey_eqb L k = Some pk ->
  exists r, rest_val (get_node s k) = ONode (fst k, r) /\
    ((r = c_nil /\ cv (S f) (ONode k) = JList [snd k] [cv f (first_val (get_node s k))])
     \/ (r <> c_nil /\ aget nkey_eqb L (fst k, r) = Some k /\
         exists cs' items', cv (S f) (ONode (fst k, r)) = JList cs' items'
           /\ cv (S f) (ONode k) = JList (snd k :: cs') (cv f (first_val (get_node s k)) :: items'))).
Proof.
  intros HL. destruct (cells_marked_unfold k pk HL) as [r [Er [Hr Ec]]].
  exists r. split; [exact Er|].
  rewrite (convert_marked_S k pk f HL), Ec.
  destruct (N.eqb_spec r c_nil) as [E|Hn].
  - left. split; [exact E|]. reflexivity.
  - right. destruct Hr as [Hr|Hr]; [contradiction|]. split; [exact Hn|]. split; [exact Hr|].
    eexists. eexists. split; [apply (convert_marked_S _ _ f Hr)|]. reflexivity.
Qed.
End Facts.
