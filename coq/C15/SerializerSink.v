(* C15/SerializerSink.v -- the serializer end of a stream, concretely: NtSerializer::serialize_triples
   and NqSerializer::serialize_quads (turtle/src/serializer/{nt,nq}.rs) as CONSUMERS writing through an
   io::Write that may fail.  Definitions only (proofs: SerializerProofs.v).

   C03/Model.v gives the bytes of a statement as one list (write_term, nq_write_quad).  Here the same
   functions are transcribed once more as the SEQUENCE of buffers they hand to `write_all`
   (term_chunks, stmt_chunks; SerializerProofs.stmt_chunks_concat: concatenated they are C03's bytes),
   because the property is about what happens BETWEEN those calls:
     write_term / write_triple / quoted_string   every `w.write_all(..)?` in program order
     std::io::Write::write_all                   while !buf.is_empty() { match self.write(buf) {
                                                   Ok(0) => Err(WriteZero), Ok(n) => buf = &buf[n..], Err(e) => Err(e) } }
                                                 (ErrorKind::Interrupted, which write_all retries, is not modelled)
     the closure of serialize_quads              the `?` after every write_all: the first error ends the statement
   The writer is a probe: a `policy` decides, for every call of `write`, how many bytes are accepted
   or that the call fails; the probe's state records what was accepted and every call made. *)
From Sophia.Common Require Import Prelude Term.
From Sophia.C03 Require Import Model.
From Sophia.C15 Require Import Generic.

(* ---------- the buffers handed to write_all ---------- *)
(* quoted_string: `w.write_all(&txt[..cut])?`, then the escape if a special byte was found, then
   the remainder unless `cut + 1 >= txt.len()` *)
Fixpoint qs_chunks_f (fuel : nat) (txt : list N) : list (list N) :=
  match fuel with
  | O => []
  | S f =>
      let (pre, x) := qs_scan txt in
      pre :: match x with
             | None => []
             | Some (c, rest) =>
                 esc c :: match rest with [] => [] | _ :: _ => qs_chunks_f f rest end
             end
  end.
Definition qs_chunks (txt : list N) : list (list N) := qs_chunks_f (S (length txt)) txt.

Fixpoint term_chunks (t : term) : list (list N) :=
  match t with
  | Iri s => [[60]; utf8 s; [62]]
  | Bnode s => [[95; 58]; utf8 s]
  | LitDt lex dt =>
      [[34]] ++ qs_chunks (utf8 lex) ++
      (if negb (str_eqb xsd_string dt) then [[34; 94; 94; 60]; utf8 dt; [62]] else [[34]])
  | LitLang lex tag => [[34]] ++ qs_chunks (utf8 lex) ++ [[34; 64]; utf8 tag]
  | Triple s p o =>
      [[60; 60]] ++ (term_chunks s ++ [[32]] ++ term_chunks p ++ [[32]] ++ term_chunks o) ++ [[62; 62]]
  | Var s => [[63]; utf8 s]
  end.
Definition triple_chunks (s p o : term) : list (list N) :=
  term_chunks s ++ [[32]] ++ term_chunks p ++ [[32]] ++ term_chunks o.
(* the closure of NqSerializer::serialize_quads; with graph name None it is, call for call, the
   closure of NtSerializer::serialize_triples (write_triple, then b".\n") *)
Definition stmt_chunks (q : quad) : list (list N) :=
  let '(s, p, o, g) := q in
  triple_chunks s p o ++
  match g with
  | None => [[46; 10]]
  | Some t => [[32]] ++ term_chunks t ++ [[46; 10]]
  end.

(* ---------- the io::Write probe ---------- *)
Inductive ioerr := EDev (code : N) | EWriteZero.
Inductive wres := WOk (n : nat) | WErr (e : ioerr).
(* bytes accepted so far -> write calls so far -> buffer offered -> answer of `write` *)
Definition policy := nat -> nat -> list N -> wres.
Record wstate := mk_w {
  w_acc : list N;      (* the bytes accepted, in order *)
  w_calls : nat;       (* calls of `write` *)
  w_failed : bool;     (* a call has answered Err *)
  w_after : nat        (* calls made after a call had answered Err *)
}.
Definition w0 : wstate := mk_w [] O false O.

Definition dev_write (pol : policy) (w : wstate) (buf : list N) : wstate * wres :=
  let after := if w_failed w then S (w_after w) else w_after w in
  match pol (length (w_acc w)) (w_calls w) buf with
  | WOk n =>
      let n' := Nat.min n (length buf) in   (* a writer cannot accept more than it is offered *)
      (mk_w (w_acc w ++ firstn n' buf) (S (w_calls w)) (w_failed w) after, WOk n')
  | WErr e => (mk_w (w_acc w) (S (w_calls w)) true after, WErr e)
  end.

(* std::io::Write::write_all; every successful round removes at least one byte from buf, so
   fuel = length buf is never exhausted (the O branch is unreachable from write_all) *)
Fixpoint write_all_f (fuel : nat) (pol : policy) (w : wstate) (buf : list N) : wstate * option ioerr :=
  match buf with
  | [] => (w, None)
  | _ :: _ =>
      match fuel with
      | O => (w, Some EWriteZero)
      | S f =>
          match dev_write pol w buf with
          | (w', WOk O) => (w', Some EWriteZero)
          | (w', WOk n) => write_all_f f pol w' (skipn n buf)
          | (w', WErr e) => (w', Some e)
          end
      end
  end.
Definition write_all (pol : policy) (w : wstate) (buf : list N) := write_all_f (length buf) pol w buf.

(* a run of `w.write_all(..)?; w.write_all(..)?; ...` *)
Fixpoint write_chunks (pol : policy) (w : wstate) (chunks : list (list N)) : wstate * option ioerr :=
  match chunks with
  | [] => (w, None)
  | c :: r =>
      match write_all pol w c with
      | (w', Some e) => (w', Some e)
      | (w', None) => write_chunks pol w' r
      end
  end.

(* the serializer as a consumer; `.map_err(|e| io::Error::new(io::ErrorKind::Other, e))` keeps the
   writer's error as the payload of the SinkError: the value is passed on unchanged *)
Definition ser_sink (pol : policy) : gsink quad ioerr wstate :=
  fun q w => write_chunks pol w (stmt_chunks q).

(* ---------- two writers ---------- *)
(* accepts `budget` BYTES in all, at most `cap` (>= 1) per call, short writes included; then fails *)
Definition budget_pol (budget cap : nat) (code : N) : policy :=
  fun acc _ buf =>
    if Nat.ltb acc budget then WOk (Nat.min (budget - acc) (Nat.min cap (length buf)))
    else WErr (EDev code).
(* all-or-nothing: refuses the first buffer that does not fit entirely, and everything after it *)
Definition atomic_pol (budget : nat) (code : N) : policy :=
  fun acc _ buf => if Nat.leb (acc + length buf) budget then WOk (length buf) else WErr (EDev code).

(* accepts `budget` bytes (at most cap per call), then answers Ok(0): write_all reports WriteZero *)
Definition zero_pol (budget cap : nat) : policy :=
  fun acc _ buf =>
    if Nat.ltb acc budget then WOk (Nat.min (budget - acc) (Nat.min cap (length buf))) else WOk O.

(* ---------- harness-facing ---------- *)
Inductive wdesc :=
| WBudget (budget cap : nat) (code : N) | WAtomic (budget : nat) (code : N) | WZero (budget cap : nat).
Definition policy_of (d : wdesc) : policy :=
  match d with
  | WBudget b c e => budget_pol b c e
  | WAtomic b e => atomic_pol b e
  | WZero b c => zero_pol b c
  end.
Inductive skind := SDone | SSource (line : N) | SSinkDev (code : N) | SSinkWriteZero | SMore.
Definition skind_of (o : goutcome N ioerr) : skind :=
  match o with
  | GMore => SMore | GDone => SDone | GSourceError e => SSource e
  | GSinkError (EDev c) => SSinkDev c | GSinkError EWriteZero => SSinkWriteZero
  end.
Definition skind_eqb (a b : skind) : bool :=
  match a, b with
  | SDone, SDone | SMore, SMore | SSinkWriteZero, SSinkWriteZero => true
  | SSource x, SSource y | SSinkDev x, SSinkDev y => N.eqb x y
  | _, _ => false
  end.
