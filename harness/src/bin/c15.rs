//! C15: sources, adapter chains (depth 0..3) and consumers with one injected fault, against the
//! Coq model (C15/Model.v) and a naive oracle (filter_map over the prefix before the fault).
use sophia_api::prelude::*;
use sophia_api::source::{Source, StreamError, TripleSource};
use sophia_api::term::SimpleTerm;
use sophia_inmem::graph::{FastGraph, GenericFastGraph, GenericLightGraph};
use sophia_inmem::index::SimpleTermIndex;
use sophia_turtle::serializer::nt::NtSerializer;
use std::cell::Cell;
use std::rc::Rc;
use verif_harness::*;

#[derive(Clone, Copy, Debug, PartialEq)]
enum AD { FilterEven, FilterLt(u64), FilterNone, FilterAll, MapSucc, MapDouble, MapConst(u64), FilterMapHalf, FilterMapLtSucc(u64) }
#[derive(Clone, Copy)]
enum K { F, M, FM }
fn kind(a: AD) -> K { match a { AD::FilterEven | AD::FilterLt(_) | AD::FilterNone | AD::FilterAll => K::F, AD::MapSucc | AD::MapDouble | AD::MapConst(_) => K::M, _ => K::FM } }
fn filt(a: AD, x: u64) -> bool { match a { AD::FilterEven => x % 2 == 0, AD::FilterLt(k) => x < k, AD::FilterNone => false, AD::FilterAll => true, _ => unreachable!() } }
fn mapf(a: AD, x: u64) -> u64 { match a { AD::MapSucc => x + 1, AD::MapDouble => 2 * x, AD::MapConst(k) => k, _ => unreachable!() } }
fn fmf(a: AD, x: u64) -> Option<u64> { match a { AD::FilterMapHalf => (x % 2 == 0).then_some(x / 2), AD::FilterMapLtSucc(k) => (x < k).then_some(x + 1), _ => unreachable!() } }
fn through(chain: &[AD], x: u64) -> Option<u64> {
    let mut x = x;
    for a in chain { match kind(*a) { K::F => if !filt(*a, x) { return None }, K::M => x = mapf(*a, x), K::FM => x = fmf(*a, x)? } }
    Some(x)
}
fn c_ad(a: &AD) -> String { match a { AD::FilterEven => "DFilterEven".into(), AD::FilterLt(k) => format!("(DFilterLt {k})"), AD::FilterNone => "DFilterNone".into(), AD::FilterAll => "DFilterAll".into(), AD::MapSucc => "DMapSucc".into(), AD::MapDouble => "DMapDouble".into(), AD::MapConst(k) => format!("(DMapConst {k})"), AD::FilterMapHalf => "DFilterMapHalf".into(), AD::FilterMapLtSucc(k) => format!("(DFilterMapLtSucc {k})") } }

struct Counting<I> { it: I, n: Rc<Cell<usize>> }
impl<I: Iterator> Iterator for Counting<I> { type Item = I::Item; fn next(&mut self) -> Option<I::Item> { self.n.set(self.n.get() + 1); self.it.next() } }

/// a user-level Source that hands over several items per step and may fail at the end of a step
/// (the shape of the Rio parser adapters: one parse_step = one statement = 0..n triples)
struct BatchSource { steps: std::collections::VecDeque<(Vec<u64>, Option<u64>)>, n: Rc<Cell<usize>> }
impl Source for BatchSource {
    type Item<'x> = u64;
    type Error = MyErr;
    fn try_for_some_item<E, F>(&mut self, mut f: F) -> Result<bool, StreamError<MyErr, E>>
    where E: std::error::Error + Send + Sync + 'static, F: FnMut(u64) -> Result<(), E> {
        let Some((items, oe)) = self.steps.pop_front() else { return Ok(false) };
        self.n.set(self.n.get() + 1);
        for x in items { f(x).map_err(StreamError::SinkError)?; }
        match oe { Some(e) => Err(StreamError::SourceError(MyErr(e))), None => Ok(true) }
    }
}

#[derive(Clone, Debug, PartialEq)]
enum Outc { Done, Source(u64), Sink(u64) }
#[derive(Clone, Debug, PartialEq)]
struct Obs { trace: Vec<u64>, out: Outc, pulled: usize, drained: Vec<Result<u64, u64>> }
fn c_outc(o: &Outc) -> String { match o { Outc::Done => "KDone".into(), Outc::Source(e) => format!("(KSource {e})"), Outc::Sink(e) => format!("(KSink {e})") } }

#[derive(Clone, Copy, Debug)]
enum Mode { TryEach, Stepwise, ForEach, IterMap, IterFilterMap }
struct Cons { mode: Mode, fault: Option<(usize, u64)>, counter: Rc<Cell<usize>> }
impl Cons {
    fn run<S>(self, mut s: S) -> Obs where S: Source<Error = MyErr>, for<'x> S: Source<Item<'x> = u64> {
        let mut trace: Vec<u64> = vec![];
        let fault = self.fault;
        let res: Result<(), StreamError<MyErr, MyErr>> = match self.mode {
            Mode::TryEach => s.try_for_each_item(|x| { trace.push(x); match fault { Some((j, e)) if trace.len() == j + 1 => Err(MyErr(e)), _ => Ok(()) } }),
            Mode::Stepwise => loop {
                match s.try_for_some_item(|x| { trace.push(x); match fault { Some((j, e)) if trace.len() == j + 1 => Err(MyErr(e)), _ => Ok(()) } }) {
                    Ok(true) => continue, Ok(false) => break Ok(()), Err(e) => break Err(e),
                }
            },
            Mode::ForEach => s.for_each_item(|x| trace.push(x)).map_err(StreamError::SourceError),
            Mode::IterMap => { let drained: Vec<Result<u64, u64>> = s.map_items(|x: u64| x).into_iter().map(|r| r.map_err(|e| e.0)).collect(); return Obs { trace, out: Outc::Done, pulled: self.counter.get(), drained } }
            Mode::IterFilterMap => { let drained: Vec<Result<u64, u64>> = s.filter_map_items(|x: u64| Some(x)).into_iter().map(|r| r.map_err(|e| e.0)).collect(); return Obs { trace, out: Outc::Done, pulled: self.counter.get(), drained } }
        };
        let out = match res { Ok(()) => Outc::Done, Err(StreamError::SourceError(e)) => Outc::Source(e.0), Err(StreamError::SinkError(e)) => Outc::Sink(e.0) };
        // Done is only observed after the source returned None once more; normalise pulled to elements, not next() calls
        Obs { trace, out, pulled: self.counter.get(), drained: vec![] }
    }
}
fn lvl0<S>(s: S, chain: &[AD], c: Cons) -> Obs where S: Source<Error = MyErr>, for<'x> S: Source<Item<'x> = u64> { assert!(chain.is_empty()); c.run(s) }
macro_rules! level { ($name:ident, $next:ident) => {
    fn $name<S>(s: S, chain: &[AD], c: Cons) -> Obs where S: Source<Error = MyErr>, for<'x> S: Source<Item<'x> = u64> {
        match chain.split_first() {
            None => c.run(s),
            Some((a, rest)) => { let a = *a; match kind(a) {
                K::F => $next(s.filter_items(move |x: &u64| filt(a, *x)), rest, c),
                K::M => $next(s.map_items(move |x: u64| mapf(a, x)), rest, c),
                K::FM => $next(s.filter_map_items(move |x: u64| fmf(a, x)), rest, c),
            } }
        }
    }
}; }
level!(lvl1, lvl0); level!(lvl2, lvl1); level!(lvl3, lvl2);

type Steps = Vec<(Vec<u64>, Option<u64>)>;
fn of_results(src: &[Result<u64, u64>]) -> Steps { src.iter().map(|r| match r { Ok(x) => (vec![*x], None), Err(e) => (vec![], Some(*e)) }).collect() }
fn oracle(src: &Steps, chain: &[AD], fault: Option<(usize, u64)>) -> Obs {
    let mut trace = vec![];
    for (i, (items, oe)) in src.iter().enumerate() {
        for x in items { if let Some(y) = through(chain, *x) { trace.push(y); if let Some((j, e)) = fault { if trace.len() == j + 1 { return Obs { trace, out: Outc::Sink(e), pulled: i + 1, drained: vec![] } } } } }
        if let Some(e) = oe { return Obs { trace, out: Outc::Source(*e), pulled: i + 1, drained: vec![] } }
    }
    Obs { trace, out: Outc::Done, pulled: src.len(), drained: vec![] }
}
fn oracle_drain(src: &Steps, chain: &[AD]) -> Vec<Result<u64, u64>> {
    let mut out = vec![];
    for (items, oe) in src { for x in items { if let Some(y) = through(chain, *x) { out.push(Ok(y)) } } if let Some(e) = oe { out.push(Err(*e)) } }
    out
}
fn c_steps(src: &Steps) -> String { coq_list(src.iter().map(|(items, oe)| format!("({}, {})", coq_list(items.iter().map(|x| x.to_string())), match oe { Some(e) => format!("Some {e}"), None => "None".into() }))) }

// ---------- triple flavour ----------
fn tr(n: u64) -> [ST; 3] { [iri("http://e/s"), iri("http://e/p"), lit_dt(&n.to_string(), &format!("{XSD}integer"))] }
fn num(t: &[ST; 3]) -> u64 { t[2].lexical_form().unwrap().parse().unwrap() }
fn tr_through<T: Triple>(t: T) -> u64 { t.o().lexical_form().unwrap().parse().unwrap() }

/// a writer that accepts `budget` bytes and then reports an error; it records every call made AFTER the first error
/// (a consumer that has been told about a sink error must not touch the sink again)
struct FailingWriter { budget: usize, written: Vec<u8>, failed: bool, calls_after_failure: usize }
impl std::io::Write for FailingWriter {
    fn write(&mut self, b: &[u8]) -> std::io::Result<usize> {
        if self.failed { self.calls_after_failure += 1; }
        if self.failed || self.written.len() + b.len() > self.budget { self.failed = true; return Err(std::io::Error::new(std::io::ErrorKind::Other, "disk full")); }
        self.written.extend_from_slice(b); Ok(b.len())
    }
    fn flush(&mut self) -> std::io::Result<()> { if self.failed { self.calls_after_failure += 1; } Ok(()) }
}
/// a store that can fail while it is enumerated, and that relies on the DEFAULT methods of the Graph trait
/// (triples_matching, contains ...): its records are results
struct FallibleGraph(Vec<Result<[ST; 3], MyErr>>);
impl Graph for FallibleGraph {
    type Triple<'x> = [ST; 3];
    type Error = MyErr;
    fn triples(&self) -> impl Iterator<Item = Result<Self::Triple<'_>, Self::Error>> + '_ { self.0.iter().cloned() }
}

fn main() {
    let a = parse_args();
    let mut sum = Summary::default();
    sum.rule = "case = (source items with at most one injected Err, adapter chain of depth 0..3 over {filter,map,filter_map}, consumer {try_for_each, step-wise try_for_some, for_each}, optional sink fault position); \
plus triple-level cases: sources {iterator, N-Triples parser with a syntax error at statement k, store}, sinks {insert_all into a capacity-limited store, remove_all, collect, N-Triples serializer on a failing writer}; \
plus concrete-end cases: generated N-Triples / N-Quads documents (valid statements with varied spacing and escapes, blank / comment / CR lines, malformed lines at generated positions, last line with or without LF) read by sophia_turtle::parser::{nt,nq} through a chunked Read probe, adapter chains of depth 0..3 over statements, consumers {recording closure failing at item j, insert_all into set datasets, Nt/Nq serializer over a byte-budget / all-or-nothing / Ok(0) io::Write probe}, and the parser pulled on after the failure to observe where it stopped; \
plus (ids from 1000000) bulk cases: the provided methods insert_all / remove_all / remove_matching / retain_matching / add_to_graph / add_to_dataset on user-defined stores that journal every insert / remove call (set or multiset, remove one or all occurrences, failing on the k-th call, failing while listed), directly, through &mut, GraphAsDataset (as_dataset_mut / into_dataset / new), DatasetGraph (graph_mut / new) and nestings of them, with named quads offered to default-graph-only consumers; and flush cases: {Nt, Nq, Turtle, TriG (plain and pretty), RDF/XML, JSON-LD} serializers over writers failing in write and/or flush (bare, &mut, BufWriter, LineWriter) with a source failing at item k, judged by the order of events in a log shared by source and writer; plus (ids from 2000000) iterator cases: sources that are iterators or multi-item-per-step sources with every kind of size hint (exact, unknown, (0, Some(0)), too small, too large, one-sided) and the Turtle parser (object / predicate lists), under 0..4 layers of adapters and of map_* / filter_map_*(..).into_iter() fed back into the Source API, consumed by try_for_each / step-wise / for_each / for_some closures, add_to_graph / add_to_dataset / insert_all on journaling stores, collect_triples and the Nt / Nq serializers; the methods of the Iterator trait (fold, try_fold, for_each, count, last, nth, sum, max/min, reduce, collect, extend, partition, unzip, find, any, all, position, by_ref, size_hint, skip, step_by, chain, peekable, fuse, enumerate, take, take_while, filter, inspect, zip, flat_map, eq) called on those iterators after k manual next() calls and compared with the same calls on a Vec iterator over the expected sequence; and reuse cases: 2..3 serialize_* calls on ONE serializer {Nt, Nq, Turtle, TriG, RDF/XML, JSON-LD} over a writer that fails in some rounds and recovers, every round judged against a fresh serializer; plus (ids from 3000000) direct-call cases: chains of depth 0..3 built with direct method syntax on the CONCRETE adapter values (to_quads / to_triples, filter_*, map_* and filter_map_* to the same and to the other flavour, filter_items / map_items / filter_map_items; every ordered pair of methods is swept, the same one twice and inverse conversions included) over iterators and batching sources of triples and of quads in named graphs, consumed by a method called directly on the concrete chain (try_for_each_* / try_for_some_* / for_each_* / for_some_* of both trait levels, collect_*, add_to_*, into_iter of map / filter_map), with FnMut closures whose state is the history of their calls (first n, every other, seen-sets, call counters), closures that are partial (defined only on what the previous stage lets through) and a log of every call of every closure: stage k must be called exactly on the items that passed the stages before it, in order; each chain is built a second time with every intermediate value type-erased and both are judged; non-trivial = a fault is actually hit after at least one item was consumed, or a filter dropped something; distinct = distinct printed case".into();
    let base = Rng::new(a.seed);
    let mut cases: Vec<(usize, String)> = vec![];
    let mut seen = std::collections::HashSet::new();
    let all_ads = [AD::FilterEven, AD::FilterLt(5), AD::FilterNone, AD::FilterAll, AD::MapSucc, AD::MapDouble, AD::MapConst(4), AD::FilterMapHalf, AD::FilterMapLtSucc(6)];
    let range: Vec<usize> = match a.only { Some(i) if i < 1_000_000 => vec![i], Some(_) => vec![], None => (0..a.n).collect() };
    // the second family of cases (ids from 1_000_000 on): bulk methods call by call / consumers behind adapters / serializers and flush
    let extra: Vec<usize> = match a.only { Some(i) if (1_000_000..2_000_000).contains(&i) => vec![i], Some(_) => vec![], None => (0..a.n / 3).map(|j| 1_000_000 + j).collect() };
    for idx in extra {
        let mut r = base.fork(idx as u64);
        if (idx - 1_000_000) % 5 < 3 { bulk::case(idx, &mut r, a.only.is_some(), &mut sum, &mut cases, &mut seen); } else { flushy::case(idx, &mut r, a.only.is_some(), &mut sum, &mut cases, &mut seen); }
    }
    // the third family of cases (ids from 2_000_000 on): iterators used as sources (every kind of size_hint, the iterators of
    // map_* / filter_map_*(..).into_iter() nested and fed back into the Source API), every method of the Iterator trait on those
    // iterators after manual next() calls, and serializers reused after a failed call
    let third: Vec<usize> = match a.only { Some(i) if (2_000_000..3_000_000).contains(&i) => vec![i], Some(_) => vec![], None => (0..a.n / 3).map(|j| 2_000_000 + j).collect() };
    for idx in third {
        let mut r = base.fork(idx as u64);
        match (idx - 2_000_000) % 5 { 0 | 1 => iters::case_a(idx, &mut r, a.only.is_some(), &mut sum, &mut cases, &mut seen), 2 | 3 => iters::case_b(idx, &mut r, a.only.is_some(), &mut sum, &mut cases, &mut seen), _ => flushy::reuse_case(idx, &mut r, a.only.is_some(), &mut sum, &mut cases, &mut seen) }
    }
    // the fourth family of cases (ids from 3_000_000 on): chains built with direct method syntax on concrete adapter values
    // (every adapter method on the result type of every other one), closures with a state, partial closures, call logs
    let fourth: Vec<usize> = match a.only { Some(i) if i >= 3_000_000 => vec![i], Some(_) => vec![], None => (0..a.n / 3).map(|j| 3_000_000 + j).collect() };
    for idx in fourth {
        let mut r = base.fork(idx as u64);
        direct::case(idx, &mut r, a.only.is_some(), &mut sum, &mut cases, &mut seen);
    }
    for idx in range {
        let mut r = base.fork(idx as u64);
        let flavour = idx % 6; // 0,1,2: generic pipeline; 3: triple-level; 4,5: concrete ends (documents -> Rio parser -> quad adapters -> closure / insert_all / serializer on a probe writer)
        if flavour >= 4 { concrete::case(idx, &mut r, flavour, a.only.is_some(), &mut sum, &mut cases, &mut seen); continue; }
        if flavour != 3 {
            let batch = r.chance(1, 2);
            let len = r.below(8);
            let steps: Steps = if batch {
                (0..r.below(6)).map(|_| ((0..r.below(4)).map(|_| r.below(10) as u64).collect(), if r.chance(1, 5) { Some(100 + r.below(50) as u64) } else { None })).collect()
            } else {
                let mut src: Vec<Result<u64, u64>> = (0..len).map(|_| Ok(r.below(10) as u64)).collect();
                if r.chance(1, 2) { let k = r.below(len + 1); src.insert(k, Err(100 + r.below(50) as u64)); }
                of_results(&src)
            };
            let depth = r.below(4);
            let chain: Vec<AD> = (0..depth).map(|_| *r.pick(&all_ads)).collect();
            let mode = *r.pick(&[Mode::TryEach, Mode::Stepwise, Mode::ForEach, Mode::IterMap, Mode::IterFilterMap]);
            let fault = if !matches!(mode, Mode::TryEach | Mode::Stepwise) || r.chance(1, 3) { None } else { Some((r.below(5), 200 + r.below(50) as u64)) };
            let counter = Rc::new(Cell::new(0));
            let cons = Cons { mode, fault, counter: counter.clone() };
            let obs0 = if batch { lvl3(BatchSource { steps: steps.clone().into(), n: counter.clone() }, &chain, cons) } else {
                let flat: Vec<Result<u64, MyErr>> = steps.iter().map(|(i, e)| match e { Some(e) => Err(MyErr(*e)), None => Ok(i[0]) }).collect();
                lvl3(Counting { it: flat.into_iter(), n: counter.clone() }, &chain, cons) };
            let text = format!("source={} steps={steps:?} chain={chain:?} mode={mode:?} sink_fault={fault:?}", if batch { "batching" } else { "iterator" });
            if matches!(mode, Mode::IterMap | Mode::IterFilterMap) {
                let exp = oracle_drain(&steps, &chain);
                if a.only.is_some() { println!("CASE {idx}: {text}\nIMPL   {:?}\nORACLE {exp:?}", obs0.drained); }
                if obs0.drained != exp { sum.oracle_failures.push((idx.to_string(), format!("into_iter {text}: implementation yields {:?}, expected {exp:?}", obs0.drained))); }
                let nontrivial = exp.iter().any(|x| x.is_err()) && exp.iter().any(|x| x.is_ok());
                if seen.insert(text.clone()) && nontrivial { sum.distinct_nontrivial += 1; }
                sum.bump(&format!("mode:{mode:?}")); sum.bump(if batch { "source:batching" } else { "source:iterator" });
                let mut mchain: Vec<String> = chain.iter().map(c_ad).collect(); mchain.push("DFilterAll".into());
                cases.push((idx, format!("drain_ok {} {} {}", c_steps(&steps), coq_list(mchain), coq_list(obs0.drained.iter().map(|x| match x { Ok(v) => format!("inl {v}"), Err(e) => format!("inr {e}") })))));
                sum.evaluations += 1;
                continue;
            }
            let exp = oracle(&steps, &chain, fault);
            // an iterator is asked once more than it has elements when the stream ends normally
            let obs = Obs { pulled: if !batch && obs0.out == Outc::Done { obs0.pulled - 1 } else { obs0.pulled }, ..obs0 };
            if a.only.is_some() { println!("CASE {idx}: {text}\nIMPL   {obs:?}\nORACLE {exp:?}"); }
            if obs != exp { sum.oracle_failures.push((idx.to_string(), format!("pipeline {text}: implementation {obs:?}, expected {exp:?}"))); }
            let n_ok: usize = steps.iter().map(|s| s.0.len()).sum();
            let nontrivial = (exp.out != Outc::Done && !exp.trace.is_empty()) || exp.trace.len() < n_ok;
            if seen.insert(text.clone()) && nontrivial { sum.distinct_nontrivial += 1; }
            sum.bump(&format!("depth:{depth}")); sum.bump(&format!("mode:{mode:?}")); sum.bump(if batch { "source:batching" } else { "source:iterator" });
            sum.bump(&format!("outcome:{}", match exp.out { Outc::Done => "done", Outc::Source(_) => "source-error", Outc::Sink(_) => "sink-error" }));
            if sum.samples.len() < 3 && nontrivial { sum.samples.push(format!("case {idx}: {text} => {obs:?}")); }
            let c_fault = match fault { None => "None".to_string(), Some((j, e)) => format!("(Some ({j}%nat, {e}))") };
            cases.push((idx, format!("run_rec_ok {} {} {c_fault} {} {} {}", c_steps(&steps), coq_list(chain.iter().map(c_ad)), coq_list(obs.trace.iter().map(|x| x.to_string())), c_outc(&obs.out), obs.pulled)));
        } else {
            // triple-level: items are triples (s, p, "n"^^xsd:integer)
            let len = r.below(7);
            let items: Vec<u64> = (0..len).map(|_| r.below(9) as u64).collect();
            let k_fault = if r.chance(1, 2) { Some(r.below(len + 1)) } else { None };
            let chain: Vec<AD> = match r.below(4) { 0 => vec![], 1 => vec![AD::FilterEven], 2 => vec![AD::MapSucc], _ => vec![AD::FilterLt(5), AD::MapDouble] };
            let source_kind = r.below(5); // 4 = a fallible store enumerated through the DEFAULT Graph::triples_matching; 0 iterator, 1 N-Triples parser, 2 store (no source fault possible), 3 Turtle parser with ONE statement holding all items (object list: one parser step yields several triples)
            let sink_kind = r.below(6); // 0 insert_all capped, 1 remove_all, 2 collect into capped store, 3 serializer with failing writer, 4 closure failing on its j-th item, 5 remove_all on a DATASET (quads in the default graph)
            let init: Vec<u64> = (0..r.below(4)).map(|_| r.below(9) as u64).collect();
            let k_fault = if source_kind == 2 { None } else { k_fault };
            let src_model: Vec<Result<u64, u64>> = { let mut v: Vec<Result<u64, u64>> = items.iter().map(|x| Ok(*x)).collect(); if let Some(k) = k_fault { v.insert(k, Err(7)); if source_kind == 1 || source_kind == 3 { v.truncate(k + 1) } } v };
            // store sources enumerate a set: dedupe + we canonicalise by sorting the model source too
            let store_items: Vec<u64> = { let mut v = items.clone(); v.sort(); v.dedup(); v };
            let src_model = if source_kind == 2 { store_items.iter().map(|x| Ok(*x)).collect() } else { src_model };
            macro_rules! with_source { ($s:ident => $body:expr) => { match source_kind {
                0 => { let v: Vec<Result<[ST; 3], MyErr>> = src_model.iter().map(|x| x.map(tr).map_err(MyErr)).collect(); let $s = v.into_iter(); $body }
                1 => { let mut text = String::new(); for x in &src_model { match x { Ok(n) => text.push_str(&format!("<http://e/s> <http://e/p> \"{n}\"^^<{XSD}integer> .\n")), Err(_) => text.push_str("<http://e/s> <http://e/p> oops .\n") } }
                       let $s = sophia_turtle::parser::nt::parse_str(&text).map_triples(|t| [t.s().into_term::<ST>(), t.p().into_term(), t.o().into_term()]).map_items(|x| x).into_iter().map(|r| r.map_err(|_| MyErr(7))); $body }
                4 => { let fg = FallibleGraph(src_model.iter().map(|x| x.map(tr).map_err(MyErr)).collect());
                       let v: Vec<Result<[ST; 3], MyErr>> = if r.chance(1, 2) { fg.triples_matching(Any, Any, Any).collect() } else { fg.triples_matching(Any, [iri("http://e/p")], |t: SimpleTerm| t.is_literal()).collect() };
                       let $s = v.into_iter(); $body }
                3 => { let oks: Vec<u64> = src_model.iter().filter_map(|x| x.ok()).collect(); let mut text = String::from("@prefix e: <http://e/> .\n");
                       if !oks.is_empty() { text.push_str(&format!("e:s e:p {} .\n", oks.iter().map(|n| format!("\"{n}\"^^<{XSD}integer>")).collect::<Vec<_>>().join(" , "))); }
                       if src_model.iter().any(|x| x.is_err()) { text.push_str("e:s e:p oops oops .\n"); }
                       let $s = sophia_turtle::parser::turtle::parse_str(&text).map_triples(|t| [t.s().into_term::<ST>(), t.p().into_term(), t.o().into_term()]).map_items(|x| x).into_iter().map(|r| r.map_err(|_| MyErr(7))); $body }
                _ => { let mut g = FastGraph::new(); for n in &store_items { g.insert_triple(tr(*n)).unwrap(); }
                       let mut v: Vec<[ST; 3]> = g.triples().map(|t| { let t = t.unwrap(); [t.s().into_term(), t.p().into_term(), t.o().into_term()] }).collect(); v.sort_by_key(num);
                       let $s = v.into_iter().map(Ok::<_, MyErr>); $body }
            } }; }
            macro_rules! chained { ($s:expr) => {{ let c = chain.clone(); let c2 = chain.clone();
                $s.filter_triples(move |t: &[ST; 3]| through(&c, num(t)).is_some()).map_triples(move |t: [ST; 3]| tr(through(&c2, num(&t)).unwrap())) }}; }
            let cap: u8 = 2 + 3; // s, p + 3 distinct objects
            type Capped = GenericFastGraph<SimpleTermIndex<SmallIdx<5>>>;
            type CappedLight = GenericLightGraph<SimpleTermIndex<SmallIdx<5>>>;
            let text = format!("triple-level source={} sink={} items={items:?} source_fault_at={k_fault:?} chain={chain:?} init={init:?}", ["iterator", "nt-parser", "store", "turtle-parser(object list)", "fallible store through the default triples_matching"][source_kind], ["insert_all(capped)", "remove_all", "collect(capped)", "nt-serializer(failing writer)", "closure failing at item j", "dataset remove_all"][sink_kind]);
            let (content, count, out): (Vec<u64>, u64, Outc) = match sink_kind {
                0 | 2 => {
                    let mut g = Capped::new();
                    let init_eff: Vec<u64> = if sink_kind == 0 { init.iter().take(2).cloned().collect() } else { vec![] };
                    for n in &init_eff { g.insert_triple(tr(*n)).unwrap(); }
                    let before = g.triples().count();
                    let res = if sink_kind == 0 { with_source!(s => g.insert_all(chained!(s))) } else {
                        let r2: Result<CappedLight, _> = with_source!(s => chained!(s).collect_triples());
                        match r2 { Ok(g2) => { let n = g2.triples().count(); for t in g2.triples() { g.insert_triple(t.unwrap()).unwrap(); } Ok(n) } Err(e) => Err(match e { StreamError::SourceError(e) => StreamError::SourceError(e), StreamError::SinkError(e) => StreamError::SinkError(e) }) }
                    };
                    let content: Vec<u64> = g.triples().map(|t| tr_through(t.unwrap())).collect();
                    match res { Ok(n) => (content, n as u64, Outc::Done), Err(StreamError::SourceError(e)) => (content.clone(), (content.len() - before) as u64, Outc::Source(e.0)), Err(StreamError::SinkError(_)) => (content.clone(), (content.len() - before) as u64, Outc::Sink(999)) }
                }
                1 => {
                    let mut g = FastGraph::new();
                    for n in &init { g.insert_triple(tr(*n)).unwrap(); }
                    let before = g.triples().count();
                    let res = with_source!(s => g.remove_all(chained!(s)));
                    let content: Vec<u64> = g.triples().map(|t| tr_through(t.unwrap())).collect();
                    match res { Ok(n) => (content, n as u64, Outc::Done), Err(StreamError::SourceError(e)) => (content.clone(), (before - content.len()) as u64, Outc::Source(e.0)), Err(StreamError::SinkError(_)) => (content, 0, Outc::Sink(998)) }
                }
                4 => {
                    // a consumer closure that fails on its j-th item: it must see exactly the items up to and including that one
                    let j = r.below(5);
                    let produced: Vec<u64> = src_model.iter().take_while(|x| x.is_ok()).filter_map(|x| through(&chain, x.unwrap())).collect();
                    let step_wise = r.chance(1, 2);
                    let mut seen_items: Vec<u64> = vec![];
                    // parser sources: the consumer is driven by the parser adapter ITSELF (rio/src/parser.rs), without any
                    // intermediate iterator, so that a consumer failing in the middle of a parser step is exercised
                    let direct_parser = (source_kind == 1 || source_kind == 3) && r.chance(2, 3);
                    let produced: Vec<u64> = if direct_parser { src_model.iter().take_while(|x| x.is_ok()).map(|x| x.unwrap()).collect() } else { produced };
                    let res: Result<(), StreamError<MyErr, MyErr>> = if direct_parser {
                        let oks: Vec<u64> = src_model.iter().filter_map(|x| x.ok()).collect(); let bad = src_model.iter().any(|x| x.is_err());
                        let mut f = |n: u64| -> Result<(), MyErr> { seen_items.push(n); if seen_items.len() - 1 == j { Err(MyErr(5)) } else { Ok(()) } };
                        macro_rules! drive { ($p:expr) => {{ let mut src = $p; let r0 = if step_wise { loop { match src.try_for_some_triple(|t| f(tr_through(t))) { Ok(true) => {} Ok(false) => break Ok(()), Err(e) => break Err(e) } } } else { src.try_for_each_triple(|t| f(tr_through(t))) };
                            r0.map_err(|e| match e { StreamError::SourceError(_) => StreamError::SourceError(MyErr(7)), StreamError::SinkError(e) => StreamError::SinkError(e) }) }}; }
                        if source_kind == 1 {
                            let mut text = String::new(); for n in &oks { text.push_str(&format!("<http://e/s> <http://e/p> \"{n}\"^^<{XSD}integer> .\n")); } if bad { text.push_str("<http://e/s> <http://e/p> oops .\n"); }
                            drive!(sophia_turtle::parser::nt::parse_str(&text))
                        } else {
                            let mut text = String::from("@prefix e: <http://e/> .\n");
                            if !oks.is_empty() { text.push_str(&format!("e:s e:p {} .\n", oks.iter().map(|n| format!("\"{n}\"^^<{XSD}integer>")).collect::<Vec<_>>().join(" , "))); }
                            if bad { text.push_str("e:s e:p oops oops .\n"); }
                            drive!(sophia_turtle::parser::turtle::parse_str(&text))
                        }
                    } else { with_source!(s => {
                        let mut src = chained!(s);
                        let mut f = |t: [ST; 3]| -> Result<(), MyErr> { seen_items.push(num(&t)); if seen_items.len() - 1 == j { Err(MyErr(5)) } else { Ok(()) } };
                        if step_wise { loop { match src.try_for_some_triple(&mut f) { Ok(true) => {} Ok(false) => break Ok(()), Err(e) => break Err(e) } } } else { src.try_for_each_triple(&mut f) }
                    }) };
                    let out = match res { Ok(()) => Outc::Done, Err(StreamError::SourceError(e)) => Outc::Source(e.0), Err(StreamError::SinkError(e)) => Outc::Sink(e.0) };
                    let exp_seen: Vec<u64> = produced.iter().take(j + 1).cloned().collect();
                    let exp_out = if produced.len() > j { Outc::Sink(5) } else if let Some(Err(e)) = src_model.iter().find(|x| x.is_err()) { Outc::Source(*e) } else { Outc::Done };
                    if seen_items != exp_seen || out != exp_out { sum.oracle_failures.push((idx.to_string(), format!("{text}{} closure fails at its item #{j} ({}): the closure saw {seen_items:?}, outcome {out:?}; expected {exp_seen:?} {exp_out:?}", if direct_parser { " [consumer driven by the parser adapter directly, no adapter chain]" } else { "" }, if step_wise { "driven step-wise" } else { "whole stream" }))); }
                    sum.bump("sink:closure"); sum.bump(&format!("source:{}", ["iterator", "nt-parser", "store", "turtle-object-list", "fallible-store-default-matching"][source_kind])); sum.evaluations += 1;
                    if seen.insert(format!("{text} j={j}")) && exp_out != Outc::Done && !exp_seen.is_empty() { sum.distinct_nontrivial += 1; }
                    continue;
                }
                5 => {
                    // MutableDataset::remove_all (a default method of the trait) over quads in the default graph, on three dataset types
                    use sophia_api::source::QuadSource as _;
                    let which = r.below(3);
                    fn go<D: MutableDataset + Dataset + Default>(init: &[u64], src: impl TripleSource<Error = MyErr>) -> (Vec<u64>, Result<usize, StreamError<MyErr, MyErr>>) where D::MutationError: std::fmt::Debug {
                        let mut d = D::default(); for n in init { d.insert_quad((tr(*n), None::<ST>)).ok().unwrap(); }
                        let res = d.remove_all(src.to_quads()).map_err(|e| match e { StreamError::SourceError(e) => StreamError::SourceError(e), StreamError::SinkError(_) => StreamError::SinkError(MyErr(996)) });
                        let content: Vec<u64> = d.quads().map(|q| { let q = q.ok().unwrap(); q.o().lexical_form().unwrap().parse().unwrap() }).collect();
                        (content, res)
                    }
                    let (content, res) = match which {
                        0 => with_source!(s => go::<sophia_inmem::dataset::FastDataset>(&init, chained!(s))),
                        1 => with_source!(s => go::<Vec<sophia_api::quad::Spog<ST>>>(&init, chained!(s))),
                        _ => with_source!(s => go::<std::collections::BTreeSet<sophia_api::quad::Spog<ST>>>(&init, chained!(s))),
                    };
                    let mut set: Vec<u64> = vec![]; for n in &init { if !set.contains(n) { set.push(*n) } }
                    let mut cnt = 0usize; let mut exp_out = Outc::Done;
                    for x in &src_model { match x { Err(e) => { exp_out = Outc::Source(*e); break } Ok(v) => if let Some(y) = through(&chain, *v) { if set.contains(&y) { set.retain(|z| *z != y); cnt += 1 } } } }
                    let out = match &res { Ok(_) => Outc::Done, Err(StreamError::SourceError(e)) => Outc::Source(e.0), Err(StreamError::SinkError(_)) => Outc::Sink(996) };
                    // Vec is not a SetDataset: it keeps duplicates and its removal count is documented as not significant
                    let mut c_sorted = content.clone(); c_sorted.sort(); if which == 1 { c_sorted.dedup(); } set.sort();
                    let count_ok = match &res { Ok(n) => which == 1 || *n == cnt, Err(_) => true };
                    if c_sorted != set || out != exp_out || !count_ok { sum.oracle_failures.push((idx.to_string(), format!("{text} (dataset type #{which}): implementation content={c_sorted:?} result={res:?}; expected content={set:?} count={cnt} outcome={exp_out:?}"))); }
                    sum.bump("sink:dataset-remove_all"); sum.bump(&format!("source:{}", ["iterator", "nt-parser", "store", "turtle-object-list", "fallible-store-default-matching"][source_kind])); sum.evaluations += 1;
                    if seen.insert(format!("{text} d={which}")) && (exp_out != Outc::Done || cnt > 0) { sum.distinct_nontrivial += 1; }
                    continue;
                }
                _ => {
                    // each statement is exactly one line; a writer that accepts `budget` whole lines then fails
                    let line_len = |n: u64| format!("<http://e/s> <http://e/p> \"{n}\"^^<{XSD}integer>.\n").len();
                    let j = r.below(4);
                    let produced: Vec<u64> = src_model.iter().take_while(|x| x.is_ok()).filter_map(|x| through(&chain, x.unwrap())).collect();
                    let budget: usize = produced.iter().take(j).map(|n| line_len(*n)).sum::<usize>() + 3;
                    let mut fw = FailingWriter { budget, written: vec![], failed: false, calls_after_failure: 0 };
                    let res = { let mut ser = NtSerializer::new(&mut fw); with_source!(s => ser.serialize_triples(chained!(s)).map(|_| ())) };
                    if fw.calls_after_failure > 0 { sum.oracle_failures.push((idx.to_string(), format!("{text} writer budget {j} lines: the serializer called the writer {} more time(s) after the writer had reported an error", fw.calls_after_failure))); }
                    let text_out = String::from_utf8(fw.written).unwrap();
                    let lines: Vec<u64> = text_out.split_inclusive('\n').filter(|l| l.ends_with(">.\n")).map(|l| l.split('"').nth(1).unwrap().parse().unwrap()).collect();
                    let out = match res { Ok(()) => Outc::Done, Err(StreamError::SourceError(e)) => Outc::Source(e.0), Err(StreamError::SinkError(_)) => Outc::Sink(997) };
                    // oracle for this sink: complete lines written = first min(j, produced) items, error iff produced.len() > j
                    let exp_out = if produced.len() > j { Outc::Sink(997) } else if let Some(Err(e)) = src_model.iter().find(|x| x.is_err()) { Outc::Source(*e) } else { Outc::Done };
                    let exp_lines: Vec<u64> = produced.iter().take(j).cloned().collect();
                    if lines != exp_lines || out != exp_out { sum.oracle_failures.push((idx.to_string(), format!("{text} writer budget {j} lines: wrote complete lines {lines:?} outcome {out:?}, expected {exp_lines:?} {exp_out:?}"))); }
                    sum.bump("sink:serializer"); sum.evaluations += 1;
                    if seen.insert(text.clone()) && !lines.is_empty() && out != Outc::Done { sum.distinct_nontrivial += 1; }
                    let _ = cap;
                    continue;
                }
            };
            // oracle (naive) for store sinks
            let init_eff: Vec<u64> = match sink_kind { 0 => init.iter().take(2).cloned().collect(), 1 => init.clone(), _ => vec![] };
            let mut set: Vec<u64> = vec![]; for n in &init_eff { if !set.contains(n) { set.push(*n) } }
            let mut cnt = 0u64; let mut exp_out = Outc::Done;
            let mut interned: Vec<u64> = set.clone();
            for x in &src_model { match x {
                Err(e) => { exp_out = Outc::Source(*e); break }
                Ok(v) => if let Some(y) = through(&chain, *v) {
                    if sink_kind == 1 { if set.contains(&y) { set.retain(|z| *z != y); cnt += 1 } }
                    else if !set.contains(&y) { if !interned.contains(&y) && interned.len() >= 3 - if sink_kind == 2 { 0 } else { 0 } { exp_out = Outc::Sink(999); break } if !interned.contains(&y) { interned.push(y) } set.push(y); cnt += 1 }
                }
            } }
            // a failed collect returns only the error: no content is observable
            let collect_failed = sink_kind == 2 && exp_out != Outc::Done;
            if collect_failed { set.clear(); cnt = 0; }
            let mut c_sorted = content.clone(); c_sorted.sort(); let mut s_sorted = set.clone(); s_sorted.sort();
            if a.only.is_some() { println!("CASE {idx}: {text}\nIMPL content={c_sorted:?} count={count} out={out:?}\nORACLE content={s_sorted:?} count={cnt} out={exp_out:?}"); }
            if c_sorted != s_sorted || count != cnt || out != exp_out { sum.oracle_failures.push((idx.to_string(), format!("{text}: implementation content={c_sorted:?} count={count} outcome={out:?}; expected content={s_sorted:?} count={cnt} outcome={exp_out:?}"))); }
            if seen.insert(text.clone()) && (exp_out != Outc::Done || cnt > 0) { sum.distinct_nontrivial += 1; }
            sum.bump(&format!("source:{}", ["iterator", "nt-parser", "store", "turtle-object-list", "fallible-store-default-matching"][source_kind])); sum.bump(&format!("sink:{}", ["insert_all", "remove_all", "collect", "serializer", "closure", "dataset-remove_all"][sink_kind]));
            if sum.samples.len() < 5 && exp_out != Outc::Done { sum.samples.push(format!("case {idx}: {text} => content={c_sorted:?} count={count} {out:?}")); }
            let c_src = format!("(of_results {})", coq_list(src_model.iter().map(|x| match x { Ok(v) => format!("inl {v}"), Err(e) => format!("inr {e}") })));
            let c_chain = coq_list(chain.iter().map(c_ad));
            let c_init = coq_list(init_eff.iter().map(|x| x.to_string()));
            let c_content = coq_list(content.iter().map(|x| x.to_string()));
            if collect_failed { sum.evaluations += 1; continue; }
            match sink_kind {
                1 => cases.push((idx, format!("run_remove_ok {c_init} {c_src} {c_chain} {c_content} {count} {}", c_outc(&out)))),
                _ => cases.push((idx, format!("run_insert_ok {c_init} {c_src} {c_chain} (Some 3%nat) {c_content} {count} {}", c_outc(&out)))),
            }
        }
        sum.evaluations += 1;
    }
    if a.only.is_none() {
        sum.shards = write_shards(&a.out, "From Sophia.Common Require Import Prelude Term.\nFrom Sophia.C03 Require Import Model.\nFrom Sophia.C15 Require Import Model Generic ParserSource SerializerSink EndToEnd Bulk IterSource Reuse Direct.", &cases, a.shards);
        sum.extra.push(("coq_cases".into(), cases.len().to_string()));
        std::fs::write(format!("{}/summary.json", a.out), sum.to_json()).unwrap();
    }
    println!("c15: {} cases, {} distinct non-trivial, {} oracle failures", sum.evaluations, sum.distinct_nontrivial, sum.oracle_failures.len());
}


/// The concrete ends of a stream: N-Triples / N-Quads documents through the real Rio-based parsers, adapter chains
/// over statements, and consumers including the real serializers over a probe writer.
mod concrete {
    use super::{K, c_outc as _};
    use rio_api::parser::ParseError as _;
    use rio_turtle::TurtleError;
    use sophia_api::prelude::*;
    use sophia_api::quad::Spog;
    use sophia_api::source::{IntoSource, QuadSource, Source, StreamError, StreamResult, TripleSource};
    use sophia_turtle::serializer::nq::NqSerializer;
    use sophia_turtle::serializer::nt::NtSerializer;
    use std::cell::Cell;
    use std::io::{self, Read};
    use std::rc::Rc;
    use verif_harness::*;

    pub type Q = Spog<ST>;
    fn own<T: Quad>(q: T) -> Q { ([q.s().into_term(), q.p().into_term(), q.o().into_term()], q.g().map(|g| g.into_term())) }
    fn own3<T: Triple>(t: T) -> Q { ([t.s().into_term(), t.p().into_term(), t.o().into_term()], None) }

    // ---------- adapters over statements ----------
    #[derive(Clone, Debug, PartialEq)]
    pub enum QA { FilterDefaultGraph, FilterNamedGraph, FilterObjLiteral, FilterPred(&'static str), FilterNone, FilterAll, MapDropGraph, MapSetGraph(&'static str), MapSetObj(&'static str), FmGraphFromObj, FmUnquote }
    fn qkind(a: &QA) -> K { match a { QA::FilterDefaultGraph | QA::FilterNamedGraph | QA::FilterObjLiteral | QA::FilterPred(_) | QA::FilterNone | QA::FilterAll => K::F, QA::MapDropGraph | QA::MapSetGraph(_) | QA::MapSetObj(_) => K::M, _ => K::FM } }
    fn qfilt(a: &QA, q: &Q) -> bool { match a {
        QA::FilterDefaultGraph => q.1.is_none(), QA::FilterNamedGraph => q.1.is_some(), QA::FilterObjLiteral => q.0[2].is_literal(),
        QA::FilterPred(i) => q.0[1].is_iri() && q.0[1].iri().unwrap().as_str() == *i, QA::FilterNone => false, QA::FilterAll => true, _ => unreachable!() } }
    fn qmapf(a: &QA, q: Q) -> Q { let ([s, p, o], g) = q; match a {
        QA::MapDropGraph => ([s, p, o], None), QA::MapSetGraph(i) => ([s, p, o], Some(iri(i))), QA::MapSetObj(l) => ([s, p, lit_dt(l, &format!("{XSD}string"))], g), _ => unreachable!() } }
    fn qfmf(a: &QA, q: Q) -> Option<Q> { let ([s, p, o], g) = q; match a {
        QA::FmGraphFromObj => if o.is_iri() { let gn = o.clone(); Some(([s, p, o], Some(gn))) } else { None },
        QA::FmUnquote => match s { ST::Triple(b) => { let [s2, p2, o2] = *b; Some(([s2, p2, o2], g)) } _ => None },
        _ => unreachable!() } }
    pub fn qthrough(chain: &[QA], q: Q) -> Option<Q> { let mut q = q; for a in chain { match qkind(a) { K::F => if !qfilt(a, &q) { return None }, K::M => q = qmapf(a, q), K::FM => q = qfmf(a, q)? } } Some(q) }
    fn c_qa(a: &QA) -> String { match a {
        QA::FilterDefaultGraph => "QFilterDefaultGraph".into(), QA::FilterNamedGraph => "QFilterNamedGraph".into(), QA::FilterObjLiteral => "QFilterObjLiteral".into(),
        QA::FilterPred(i) => format!("(QFilterPred {})", coq_str(i)), QA::FilterNone => "QFilterNone".into(), QA::FilterAll => "QFilterAll".into(),
        QA::MapDropGraph => "QMapDropGraph".into(), QA::MapSetGraph(i) => format!("(QMapSetGraph {})", coq_str(i)), QA::MapSetObj(l) => format!("(QMapSetObj {})", coq_str(l)),
        QA::FmGraphFromObj => "QFilterMapGraphFromObj".into(), QA::FmUnquote => "QFilterMapUnquote".into() } }
    pub fn c_quad(q: &Q) -> String { format!("({}, {}, {}, {})", coq_term(&q.0[0]), coq_term(&q.0[1]), coq_term(&q.0[2]), coq_opt(q.1.as_ref().map(|g| coq_term(g)))) }

    // ---------- probes ----------
    /// hands the document over in pieces of at most `chunk` bytes and counts the calls
    struct ReadProbe { data: Vec<u8>, pos: usize, chunk: usize, reads: Rc<Cell<usize>> }
    impl Read for ReadProbe {
        fn read(&mut self, buf: &mut [u8]) -> io::Result<usize> {
            self.reads.set(self.reads.get() + 1);
            let n = self.chunk.min(buf.len()).min(self.data.len() - self.pos);
            buf[..n].copy_from_slice(&self.data[self.pos..self.pos + n]); self.pos += n; Ok(n)
        }
    }
    #[derive(Clone, Copy, Debug, PartialEq)]
    pub enum WD { Budget { budget: usize, cap: usize, code: u64 }, Atomic { budget: usize, code: u64 }, Zero { budget: usize, cap: usize } }
    fn c_wd(w: &WD) -> String { match w { WD::Budget { budget, cap, code } => format!("(WBudget {budget}%nat {cap}%nat {code})"), WD::Atomic { budget, code } => format!("(WAtomic {budget}%nat {code})"), WD::Zero { budget, cap } => format!("(WZero {budget}%nat {cap}%nat)") } }
    /// the io::Write probe: records the accepted bytes, every call, and every call made after a call had failed
    pub struct WriteProbe { wd: WD, pub acc: Vec<u8>, pub calls: usize, failed: bool, pub after: usize }
    impl WriteProbe { fn new(wd: WD) -> Self { WriteProbe { wd, acc: vec![], calls: 0, failed: false, after: 0 } } }
    impl io::Write for WriteProbe {
        fn write(&mut self, buf: &[u8]) -> io::Result<usize> {
            self.calls += 1; if self.failed { self.after += 1; }
            match self.wd {
                WD::Budget { budget, cap, code } => if self.acc.len() < budget { let n = (budget - self.acc.len()).min(cap).min(buf.len()); self.acc.extend_from_slice(&buf[..n]); Ok(n) } else { self.failed = true; Err(io::Error::new(io::ErrorKind::Other, MyErr(code))) },
                WD::Atomic { budget, code } => if self.acc.len() + buf.len() <= budget { self.acc.extend_from_slice(buf); Ok(buf.len()) } else { self.failed = true; Err(io::Error::new(io::ErrorKind::Other, MyErr(code))) },
                WD::Zero { budget, cap } => if self.acc.len() < budget { let n = (budget - self.acc.len()).min(cap).min(buf.len()); self.acc.extend_from_slice(&buf[..n]); Ok(n) } else { Ok(0) },
            }
        }
        fn flush(&mut self) -> io::Result<()> { if self.failed { self.after += 1; } Ok(()) }
    }
    /// pass-through so that a consumer taking its source by value leaves it usable afterwards
    struct ByRef<'a, S>(&'a mut S);
    impl<'a, S: Source> Source for ByRef<'a, S> {
        type Item<'x> = S::Item<'x>;
        type Error = S::Error;
        fn try_for_some_item<E, F>(&mut self, f: F) -> StreamResult<bool, S::Error, E> where E: std::error::Error + Send + Sync + 'static, F: FnMut(Self::Item<'_>) -> Result<(), E> { self.0.try_for_some_item(f) }
    }

    // ---------- observations ----------
    #[derive(Clone, Debug, PartialEq)]
    pub enum POut { Done, Source(u64), Sink(u64), SinkWriteZero, SinkOther(String) }
    fn c_pkind(o: &POut) -> String { match o { POut::Done => "PDone".into(), POut::Source(l) => format!("(PSource {l})"), POut::Sink(e) => format!("(PSink {e})"), _ => "PMore".into() } }
    fn c_skind(o: &POut) -> String { match o { POut::Done => "SDone".into(), POut::Source(l) => format!("(SSource {l})"), POut::Sink(e) => format!("(SSinkDev {e})"), POut::SinkWriteZero => "SSinkWriteZero".into(), _ => "SMore".into() } }
    fn line_of(e: &TurtleError) -> u64 { e.textual_position().map(|p| p.line_number()).unwrap_or(u64::MAX) }
    /// the writer's error value as it arrives in the SinkError.  In the serializers' closure the `?` after every write
    /// but the last returns the writer's io::Error as it is; only the error of the final `w.write_all(b".\n")` goes
    /// through `.map_err(|e| io::Error::new(Other, e))` and arrives wrapped once.  Both shapes carry the original value.
    fn io_payload(e: &io::Error) -> POut {
        if e.kind() == io::ErrorKind::WriteZero { return POut::SinkWriteZero; }
        match e.get_ref() {
            Some(x) => { if let Some(m) = x.downcast_ref::<MyErr>() { POut::Sink(m.0) } else if let Some(i) = x.downcast_ref::<io::Error>() { io_payload(i) } else { POut::SinkOther(format!("{e:?}")) } }
            None => POut::SinkOther(format!("{e:?}")),
        }
    }
    #[derive(Clone, Debug)]
    pub enum Cons { Rec { fault: Option<(usize, u64)>, stepwise: bool }, Insert { init: Vec<Q>, which: usize }, Ser { nt_out: bool, wd: WD } }
    #[derive(Clone, Debug, Default)]
    pub struct Obs { trace: Vec<Q>, out: Option<POut>, resumed: Vec<Result<Q, u64>>, bytes: Vec<u8>, calls: usize, after: usize, content: Vec<Q>, count: usize, sink_calls_after_failure: usize, reads_at_failure: usize, reads_total: usize }

    fn run<S>(mut s: S, c: &Cons, reads: &Rc<Cell<usize>>) -> Obs where S: QuadSource<Error = TurtleError> {
        let mut o = Obs::default();
        match c {
            Cons::Rec { fault, stepwise } => {
                let mut failed = false; let mut after = 0usize; let mut trace: Vec<Q> = vec![];
                let mut f = |q: Q| -> Result<(), MyErr> { if failed { after += 1; } trace.push(q); match fault { Some((j, e)) if trace.len() == *j + 1 => { failed = true; Err(MyErr(*e)) } _ => Ok(()) } };
                let res: Result<(), StreamError<TurtleError, MyErr>> = if *stepwise { loop { match s.try_for_some_quad(|q| f(own(q))) { Ok(true) => {} Ok(false) => break Ok(()), Err(e) => break Err(e) } } } else { s.try_for_each_quad(|q| f(own(q))) };
                o.out = Some(match res { Ok(()) => POut::Done, Err(StreamError::SourceError(e)) => POut::Source(line_of(&e)), Err(StreamError::SinkError(e)) => POut::Sink(e.0) });
                o.sink_calls_after_failure = after; o.trace = trace;
            }
            Cons::Insert { init, which } => {
                fn go<D: MutableDataset + Dataset + Default, S2: QuadSource<Error = TurtleError>>(init: &[Q], src: S2) -> (Vec<Q>, Result<usize, (POut, usize)>) {
                    let mut d = D::default(); for q in init { d.insert_quad(q.clone()).ok().unwrap(); }
                    let before = d.quads().count();
                    let res = d.insert_all(src).map_err(|e| match e { StreamError::SourceError(e) => POut::Source(line_of(&e)), StreamError::SinkError(_) => POut::SinkOther("store error".into()) });
                    let content: Vec<Q> = d.quads().map(|q| own(q.ok().unwrap())).collect();
                    // a failed insert_all returns only the error: the number of statements added so far is read off the store
                    let added = content.len() - before;
                    (content, res.map_err(|e| (e, added)))
                }
                let (content, res) = match which { 0 => go::<sophia_inmem::dataset::FastDataset, _>(init, ByRef(&mut s)), 1 => go::<std::collections::BTreeSet<Q>, _>(init, ByRef(&mut s)), _ => go::<std::collections::HashSet<Q>, _>(init, ByRef(&mut s)) };
                o.content = content;
                match res { Ok(n) => { o.count = n; o.out = Some(POut::Done) } Err((e, added)) => { o.count = added; o.out = Some(e) } }
            }
            Cons::Ser { nt_out, wd } => {
                let mut probe = WriteProbe::new(*wd);
                let res: Result<(), StreamError<TurtleError, io::Error>> = if *nt_out { NtSerializer::new(&mut probe).serialize_triples(ByRef(&mut s).to_triples()).map(|_| ()) } else { NqSerializer::new(&mut probe).serialize_quads(ByRef(&mut s)).map(|_| ()) };
                o.out = Some(match res { Ok(()) => POut::Done, Err(StreamError::SourceError(e)) => POut::Source(line_of(&e)), Err(StreamError::SinkError(e)) => io_payload(&e) });
                o.bytes = probe.acc; o.calls = probe.calls; o.after = probe.after;
            }
        }
        o.reads_at_failure = reads.get();
        // pull on: what the source still delivers tells where the parser stopped
        let mut guard = 0;
        loop {
            guard += 1; if guard > 10_000 { o.resumed.push(Err(u64::MAX)); break; }
            let mut got: Vec<Q> = vec![];
            let r = s.try_for_some_quad(|q| -> Result<(), MyErr> { got.push(own(q)); Ok(()) });
            o.resumed.extend(got.into_iter().map(Ok));
            match r { Ok(true) => {} Ok(false) => break, Err(StreamError::SourceError(e)) => o.resumed.push(Err(line_of(&e))), Err(StreamError::SinkError(_)) => unreachable!() }
        }
        o.reads_total = reads.get();
        o
    }
    fn l0<S>(s: S, chain: &[QA], c: &Cons, reads: &Rc<Cell<usize>>) -> Obs where S: Source<Error = TurtleError>, for<'x> S: Source<Item<'x> = Q> { assert!(chain.is_empty()); run(s, c, reads) }
    macro_rules! qlevel { ($name:ident, $next:ident) => {
        fn $name<S>(s: S, chain: &[QA], c: &Cons, reads: &Rc<Cell<usize>>) -> Obs where S: Source<Error = TurtleError>, for<'x> S: Source<Item<'x> = Q> {
            match chain.split_first() {
                None => run(s, c, reads),
                Some((a, rest)) => { let a = a.clone(); match qkind(&a) {
                    K::F => $next(s.filter_quads(move |q: &Q| qfilt(&a, q)), rest, c, reads),
                    K::M => $next(s.map_quads(move |q: Q| qmapf(&a, q)), rest, c, reads),
                    K::FM => $next(s.filter_map_quads(move |q: Q| qfmf(&a, q)), rest, c, reads),
                } }
            }
        }
    }; }
    qlevel!(l1, l0); qlevel!(l2, l1); qlevel!(l3, l2);

    // ---------- documents ----------
    #[derive(Clone, Debug)]
    pub enum LK { Stmt(Q), Blank, Bad }
    fn pick_iri(r: &mut Rng) -> (String, ST) { let (t, v) = *r.pick(&[("<http://e/s>", "http://e/s"), ("<http://e/p>", "http://e/p"), ("<http://e/o>", "http://e/o"), ("<tag:x>", "tag:x"), ("<urn:a:b>", "urn:a:b"), ("<http://e/\u{e9}>", "http://e/\u{e9}"), ("<http://e/\\u00E9>", "http://e/\u{e9}"), ("<http://e/\\U0001F600>", "http://e/\u{1F600}")]); (t.to_string(), iri(v)) }
    fn pick_bnode(r: &mut Rng) -> (String, ST) { let (t, v) = *r.pick(&[("_:b1", "b1"), ("_:x-y", "x-y"), ("_:a.b", "a.b"), ("_:0", "0")]); (t.to_string(), bnode(v)) }
    fn pick_lit(r: &mut Rng) -> (String, ST) {
        let xs = format!("{XSD}string");
        let v: Vec<(&str, ST)> = vec![("\"x\"", lit_dt("x", &xs)), ("\"\"", lit_dt("", &xs)), ("\"a b\"", lit_dt("a b", &xs)), ("\"l\\nb\"", lit_dt("l\nb", &xs)), ("\"q\\\"t\\\\\"", lit_dt("q\"t\\", &xs)),
            ("\"\u{e9}\"", lit_dt("\u{e9}", &xs)), ("\"\\u00E9\\t\"", lit_dt("\u{e9}\t", &xs)), ("\"x\"@en", lit_lang("x", "en")), ("\"x\"@fr-be", lit_lang("x", "fr-be")),
            ("\"7\"^^<http://www.w3.org/2001/XMLSchema#integer>", lit_dt("7", &format!("{XSD}integer"))), ("\"x\"^^<http://www.w3.org/2001/XMLSchema#string>", lit_dt("x", &xs)), ("\"# not a comment\"", lit_dt("# not a comment", &xs))];
        let (t, v) = r.pick(&v).clone(); (t.to_string(), v)
    }
    fn pick_subject(r: &mut Rng, depth: usize) -> (String, ST) { match r.below(if depth == 0 { 7 } else { 6 }) { 0..=3 => pick_iri(r), 4 | 5 => pick_bnode(r), _ => pick_quoted(r, depth + 1) } }
    fn pick_object(r: &mut Rng, depth: usize) -> (String, ST) { match r.below(if depth == 0 { 9 } else { 8 }) { 0..=2 => pick_iri(r), 3 => pick_bnode(r), 4..=7 => pick_lit(r), _ => pick_quoted(r, depth + 1) } }
    fn pick_quoted(r: &mut Rng, depth: usize) -> (String, ST) {
        let (ts, s) = pick_subject(r, depth); let (tp, p) = pick_iri(r); let (to, o) = pick_object(r, depth);
        let sp = |r: &mut Rng| r.ps(&[" ", " ", "", "\t"]).to_string();
        (format!("<<{}{ts} {tp} {to}{}>>", sp(r), sp(r)), triple(s, p, o))
    }
    fn gen_stmt(r: &mut Rng, nq: bool) -> (String, Q) {
        let (ts, s) = pick_subject(r, 0); let (tp, p) = pick_iri(r); let (to, o) = pick_object(r, 0);
        let g = if nq && r.chance(1, 2) { Some(if r.chance(3, 4) { pick_iri(r) } else { pick_bnode(r) }) } else { None };
        let sep = |r: &mut Rng| r.ps(&[" ", " ", " ", "  ", "\t", " \t "]).to_string();
        let mut t = String::new();
        t.push_str(r.ps(&["", "", "", " ", "\t "])); t.push_str(&ts); t.push_str(&sep(r)); t.push_str(&tp); t.push_str(&sep(r)); t.push_str(&to);
        if let Some((tg, _)) = &g { t.push_str(&sep(r)); t.push_str(tg); }
        t.push_str(r.ps(&[" ", " ", "", "  "])); t.push('.');
        t.push_str(r.ps(&["", "", "", " ", " # c", "# <http://e/x> .", "\r", " \r", " \r<http://e/s> <http://e/p> <http://e/lost-after-CR> ."]));
        (t, ([s, p, o], g.map(|x| x.1)))
    }
    fn gen_blank(r: &mut Rng) -> String { r.ps(&["", "", " ", "\t", "# comment", "  # <http://e/s> <http://e/p> <http://e/o> .", "\r", " \r", "#"]).to_string() }
    fn gen_bad(r: &mut Rng, nq: bool) -> String {
        let v = ["oops", "<http://e/s> <http://e/p> .", "<http://e/s> <http://e/p> \"unterminated .", "<http://e/s> \"lit\" <http://e/o> .", "<http://e/s> <http://e/p> <http://e/o> . junk",
            "<http://e/s> <http://e/p> <http://e/o>", "<http://e/s> <http://e/p> <http://e/o> <http://e/g> <http://e/h> .", "<http://e/s> <http://e/p> \"x\"@ .", "<http://e/s> <http://e/p> \"\\q\" .",
            "\"lit\" <http://e/p> <http://e/o> .", "<http://e/s> _:b <http://e/o> .", "<http://e/s> <http://e/p> <http://e/o> ;", "<< <http://e/s> <http://e/p> <http://e/o> <http://e/p> <http://e/o> .", "<http://e/s> <http://e/p> <http://e/o .",
            "<http://e/s> <http://e/p> \"x\"^^ .", "<http://e/s> <http://e/p> <http://e/o> \"g\" .", "<http://e/s> <http://e/p> \"\\u12\" .", "<http://e/s> <http://e/p> <http://e/o> .."];
        if !nq && r.chance(1, 4) { return "<http://e/s> <http://e/p> <http://e/o> <http://e/g> .".to_string(); }
        r.ps(&v).to_string()
    }
    /// canonical N-Quads line, written here independently of sophia (the oracle's writer)
    fn canon_term(t: &ST, out: &mut Vec<u8>) {
        match t {
            ST::Iri(i) => { out.push(b'<'); out.extend_from_slice(i.as_str().as_bytes()); out.push(b'>'); }
            ST::BlankNode(b) => { out.extend_from_slice(b"_:"); out.extend_from_slice(b.as_str().as_bytes()); }
            ST::Variable(v) => { out.push(b'?'); out.extend_from_slice(v.as_str().as_bytes()); }
            ST::LiteralDatatype(l, d) => { canon_lex(l, out); if d.as_str() != format!("{XSD}string") { out.extend_from_slice(b"^^<"); out.extend_from_slice(d.as_str().as_bytes()); out.push(b'>'); } }
            ST::LiteralLanguage(l, tag) => { canon_lex(l, out); out.push(b'@'); out.extend_from_slice(tag.as_str().as_bytes()); }
            ST::Triple(b) => { out.extend_from_slice(b"<<"); canon_term(&b[0], out); out.push(b' '); canon_term(&b[1], out); out.push(b' '); canon_term(&b[2], out); out.extend_from_slice(b">>"); }
        }
    }
    fn canon_lex(l: &str, out: &mut Vec<u8>) { out.push(b'"'); for c in l.bytes() { match c { b'\n' => out.extend_from_slice(b"\\n"), b'\r' => out.extend_from_slice(b"\\r"), b'"' => out.extend_from_slice(b"\\\""), b'\\' => out.extend_from_slice(b"\\\\"), c => out.push(c) } } out.push(b'"'); }
    pub fn canon_quad(q: &Q) -> Vec<u8> { let mut o = vec![]; canon_term(&q.0[0], &mut o); o.push(b' '); canon_term(&q.0[1], &mut o); o.push(b' '); canon_term(&q.0[2], &mut o); if let Some(g) = &q.1 { o.push(b' '); canon_term(g, &mut o); } o.extend_from_slice(b".\n"); o }

    fn fold_q(q: &Q) -> String { format!("{q:?}") }

    pub fn case(idx: usize, r: &mut Rng, flavour: usize, verbose: bool, sum: &mut Summary, cases: &mut Vec<(usize, String)>, seen: &mut std::collections::HashSet<String>) {
        sum.evaluations += 1;
        let xs = format!("{XSD}string");
        // ----- the serializer alone over arbitrary statements (1 case in 6 of flavour 5) -----
        if flavour == 5 && r.chance(1, 6) {
            let pool: Vec<ST> = vec![iri("http://e/s"), iri("rel"), iri(""), bnode("b"), var("v"), lit_dt("", &xs), lit_dt("\n\n\"\\\r", &xs), lit_dt("a\nb\"c", &xs), lit_dt("ends with backslash\\", &xs), lit_lang("h\u{e9}llo\n", "en-GB"),
                lit_dt("1", &format!("{XSD}integer")), triple(bnode("b"), iri("http://e/p"), triple(iri("http://e/s"), iri("http://e/p"), lit_dt("\"", &xs)))];
            let qs: Vec<Q> = (0..r.below(4)).map(|_| ([r.pick(&pool).clone(), r.pick(&pool).clone(), r.pick(&pool).clone()], if r.chance(1, 2) { Some(r.pick(&pool).clone()) } else { None })).collect();
            let total: Vec<u8> = qs.iter().flat_map(|q| canon_quad(q)).collect();
            let wd = gen_wd(r, total.len());
            let mut probe = WriteProbe::new(wd);
            let res = NqSerializer::new(&mut probe).serialize_quads(qs.clone().into_iter().into_source()).map(|_| ());
            let out = match res { Ok(()) => POut::Done, Err(StreamError::SinkError(e)) => io_payload(&e), Err(StreamError::SourceError(_)) => unreachable!() };
            let text = format!("serializer alone: statements={} writer={wd:?}", qs.iter().map(fold_q).collect::<Vec<_>>().join(" | "));
            check_writer(idx, &text, &wd, &total, &probe.acc, probe.after, &out, sum);
            sum.bump("concrete:serializer-alone"); if seen.insert(text.clone()) && out != POut::Done && !probe.acc.is_empty() { sum.distinct_nontrivial += 1; }
            if verbose { println!("CASE {idx}: {text}\nIMPL bytes={:?} calls={} after={} out={out:?}", String::from_utf8_lossy(&probe.acc), probe.calls, probe.after); }
            let c_err = match &out { POut::Done => "None".to_string(), POut::Sink(c) => format!("(Some (EDev {c}))"), POut::SinkWriteZero => "(Some EWriteZero)".into(), _ => "(Some (EDev 0))".into() };
            cases.push((idx, format!("run_ser_ok {} {} {} {}%nat {}%nat {c_err}", coq_list(qs.iter().map(c_quad)), c_wd(&wd), coq_bytes(&probe.acc), probe.calls, probe.after)));
            return;
        }
        // ----- a document -----
        let nq = r.chance(1, 2);
        let n_lines = r.below(8);
        let mut lines: Vec<(String, LK)> = (0..n_lines).map(|_| match r.below(10) { 0..=6 => { let (t, q) = gen_stmt(r, nq); (t, LK::Stmt(q)) } _ => (gen_blank(r), LK::Blank) }).collect();
        let n_bad = *r.pick(&[0usize, 0, 1, 1, 1, 2]);
        for _ in 0..n_bad { let k = r.below(lines.len() + 1); lines.insert(k, (gen_bad(r, nq), LK::Bad)); }
        let mut doc = String::new();
        for (i, (t, _)) in lines.iter().enumerate() { doc.push_str(t); if i + 1 < lines.len() || r.chance(3, 4) { doc.push('\n'); } }
        // an empty last line without LF is not a line at all
        if let Some((t, k)) = lines.last() { if t.is_empty() && !doc.ends_with('\n') && matches!(k, LK::Blank) { lines.pop(); } }
        let depth = r.below(4);
        let all_qa = [QA::FilterDefaultGraph, QA::FilterNamedGraph, QA::FilterObjLiteral, QA::FilterPred("http://e/p"), QA::FilterNone, QA::FilterAll, QA::MapDropGraph, QA::MapSetGraph("http://e/g2"), QA::MapSetObj("same"), QA::FmGraphFromObj, QA::FmUnquote];
        let chain: Vec<QA> = (0..depth).map(|_| r.pick(&all_qa).clone()).collect();
        // what the statements become, line by line (the oracle knows the statements because it generated them)
        let images: Vec<Option<Q>> = lines.iter().map(|(_, k)| match k { LK::Stmt(q) => qthrough(&chain, q.clone()), _ => None }).collect();
        let first_bad = lines.iter().position(|(_, k)| matches!(k, LK::Bad));
        let good_end = first_bad.unwrap_or(lines.len());
        let produced: Vec<(usize, Q)> = (0..good_end).filter_map(|i| images[i].clone().map(|q| (i, q))).collect();
        let total: Vec<u8> = produced.iter().flat_map(|(_, q)| canon_quad(q)).collect();
        let cons = if flavour == 4 {
            if r.chance(2, 3) { Cons::Rec { fault: if r.chance(1, 2) { Some((r.below(produced.len() + 2), 200 + r.below(50) as u64)) } else { None }, stepwise: r.chance(1, 2) } }
            else { let mut init: Vec<Q> = vec![]; for _ in 0..r.below(3) { if let Some((_, q)) = produced.get(r.below(produced.len().max(1))) { init.push(q.clone()) } else { init.push(gen_stmt(r, nq).1) } } Cons::Insert { init, which: r.below(3) } }
        } else { Cons::Ser { nt_out: r.chance(1, 2), wd: gen_wd(r, total.len()) } };
        // the NT serializer writes the triple part only: the oracle's expectation drops the graph names
        let total: Vec<u8> = if let Cons::Ser { nt_out: true, .. } = &cons { produced.iter().flat_map(|(_, q)| canon_quad(&(q.0.clone(), None))).collect() } else { total };
        // the consumer sits directly on the parser adapter: no adapter, not even the owning map layer
        let direct = depth == 0 && r.chance(1, 2) && (nq || matches!(&cons, Cons::Rec { .. } | Cons::Ser { nt_out: true, .. }));
        let reads = Rc::new(Cell::new(0usize));
        let chunk = *r.pick(&[1usize, 2, 5, 17, 4096]); let bufcap = *r.pick(&[1usize, 3, 16, 8192]);
        let probe = ReadProbe { data: doc.clone().into_bytes(), pos: 0, chunk, reads: reads.clone() };
        let rd = io::BufReader::with_capacity(bufcap, probe);
        let obs = match (nq, direct) {
            (true, true) => run(sophia_turtle::parser::nq::parse_bufread(rd), &cons, &reads),
            (true, false) => l3(sophia_turtle::parser::nq::parse_bufread(rd).map_quads(|q| own(q)), &chain, &cons, &reads),
            (false, true) => run_t(sophia_turtle::parser::nt::parse_bufread(rd), &cons, &reads),
            (false, false) => l3(sophia_turtle::parser::nt::parse_bufread(rd).to_quads().map_quads(|q| own(q)), &chain, &cons, &reads),
        };
        let out = obs.out.clone().unwrap();
        let text = format!("document({})={doc:?} chain={chain:?}{} consumer={cons:?} read-chunk={chunk} bufreader={bufcap}", if nq { "N-Quads" } else { "N-Triples" }, if direct { " [consumer directly on the parser adapter]" } else { "" });
        // ----- the oracle: the property, computed from the generated lines -----
        // where does the run stop?  after line `stop` (0-based), or at the end
        let line_no = |i: usize| (i + 1) as u64;
        let (exp_out, stop, exp_consumed): (POut, Option<usize>, Vec<Q>) = match &cons {
            Cons::Rec { fault: Some((j, e)), .. } if *j < produced.len() => (POut::Sink(*e), Some(produced[*j].0), produced[..=*j].iter().map(|x| x.1.clone()).collect()),
            Cons::Ser { wd, .. } if writer_fails(wd, &total) => {
                let failing = failing_statement(wd, &produced, &total, matches!(&cons, Cons::Ser { nt_out: true, .. }));
                (match wd { WD::Zero { .. } => POut::SinkWriteZero, WD::Budget { code, .. } | WD::Atomic { code, .. } => POut::Sink(*code) }, Some(produced[failing].0), produced[..=failing].iter().map(|x| x.1.clone()).collect())
            }
            _ => match first_bad { Some(k) => (POut::Source(line_no(k)), Some(k), produced.iter().map(|x| x.1.clone()).collect()), None => (POut::Done, None, produced.iter().map(|x| x.1.clone()).collect()) },
        };
        let exp_resumed: Vec<Result<Q, u64>> = match stop { None => vec![], Some(k) => (k + 1..lines.len()).filter_map(|i| match &lines[i].1 { LK::Bad => Some(Err(line_no(i))), LK::Stmt(_) => images[i].clone().map(Ok), LK::Blank => None }).collect() };
        let mut problems: Vec<String> = vec![];
        if out != exp_out { problems.push(format!("outcome {out:?}, expected {exp_out:?}")); }
        if obs.resumed != exp_resumed { problems.push(format!("after the run the source still delivers {:?}, expected {:?} (the lines after the one at which the run stopped)", obs.resumed, exp_resumed)); }
        if obs.reads_total > doc.len() + 3 { problems.push(format!("{} read calls for {} bytes", obs.reads_total, doc.len())); }
        match &cons {
            Cons::Rec { .. } => { if obs.trace != exp_consumed { problems.push(format!("the consumer received {:?}, expected {:?}", obs.trace, exp_consumed)); } if obs.sink_calls_after_failure > 0 { problems.push(format!("the consumer was called {} more time(s) after it had failed", obs.sink_calls_after_failure)); } }
            Cons::Insert { init, .. } => {
                let mut set: Vec<Q> = vec![]; for q in init { if !set.iter().any(|x| x == q) { set.push(q.clone()) } } let before = set.len();
                for q in &exp_consumed { if !set.iter().any(|x| x == q) { set.push(q.clone()) } }
                let mut a: Vec<String> = obs.content.iter().map(fold_q).collect(); a.sort(); let mut b: Vec<String> = set.iter().map(fold_q).collect(); b.sort();
                if a != b { problems.push(format!("store content {a:?}, expected {b:?}")); }
                if out == POut::Done && obs.count != set.len() - before { problems.push(format!("insert_all returned {}, but {} new statements were added", obs.count, set.len() - before)); }
            }
            Cons::Ser { wd, .. } => check_writer_into(&mut problems, wd, &total, &obs.bytes, obs.after, &out),
        }
        for p in &problems { sum.oracle_failures.push((idx.to_string(), format!("{text}: {p}"))); }
        if verbose { println!("CASE {idx}: {text}\nIMPL   {obs:?}\nORACLE out={exp_out:?} consumed={exp_consumed:?} resumed={exp_resumed:?} total={:?}", String::from_utf8_lossy(&total)); }
        sum.bump(&format!("concrete:{}:{}", if nq { "nq" } else { "nt" }, match &cons { Cons::Rec { .. } => "closure", Cons::Insert { .. } => "insert_all", Cons::Ser { nt_out: true, .. } => "nt-serializer", Cons::Ser { .. } => "nq-serializer" }));
        sum.bump(&format!("concrete-outcome:{}", match exp_out { POut::Done => "done", POut::Source(_) => "source-error", _ => "sink-error" }));
        if direct { sum.bump("concrete:direct"); }
        if seen.insert(text.clone()) && exp_out != POut::Done && !exp_consumed.is_empty() { sum.distinct_nontrivial += 1; }
        if sum.samples.len() < 8 && exp_out != POut::Done && !exp_consumed.is_empty() && idx % 6 >= 4 && sum.samples.iter().filter(|s| s.contains("document(")).count() < 3 { sum.samples.push(format!("case {idx}: {text} => {out:?}, {} statement(s) consumed, source then still delivers {} item(s)/error(s)", exp_consumed.len(), obs.resumed.len())); }
        // ----- the Coq case -----
        let mut c_chain: Vec<String> = if direct { vec![] } else { vec!["QMapId".to_string()] };
        c_chain.extend(chain.iter().map(c_qa));
        let c_doc = coq_str(&doc);
        let c_res = coq_list(obs.resumed.iter().map(|x| match x { Ok(q) => format!("inl {}", c_quad(q)), Err(l) => format!("inr {l}") }));
        match &cons {
            Cons::Rec { fault, .. } => { let c_fault = match fault { None => "None".to_string(), Some((j, e)) => format!("(Some ({j}%nat, {e}))") };
                cases.push((idx, format!("run_parse_rec_ok {nq} {c_doc} {} {c_fault} {} {} {c_res}", coq_list(c_chain), coq_list(obs.trace.iter().map(c_quad)), c_pkind(&out)))); }
            Cons::Insert { init, .. } => cases.push((idx, format!("run_parse_insert_ok {nq} {c_doc} {} {} {} {} {}", coq_list(c_chain), coq_list(init.iter().map(c_quad)), coq_list(obs.content.iter().map(c_quad)), obs.count, c_pkind(&out)))),
            Cons::Ser { nt_out, wd } => cases.push((idx, format!("run_parse_ser_ok {nq} {c_doc} {} {} {} {} {}%nat {}%nat {} {c_res}", coq_list(c_chain), *nt_out && !(direct && !nq), c_wd(wd), coq_bytes(&obs.bytes), obs.calls, obs.after, c_skind(&out)))),
        }
    }

    /// N-Triples, no adapter at all between the parser and the consumer (closure or NtSerializer)
    fn run_t<S>(mut s: S, c: &Cons, reads: &Rc<Cell<usize>>) -> Obs where S: TripleSource<Error = TurtleError> {
        let mut o = Obs::default();
        match c {
            Cons::Rec { fault, stepwise } => {
                let mut failed = false; let mut after = 0usize; let mut trace: Vec<Q> = vec![];
                let mut f = |q: Q| -> Result<(), MyErr> { if failed { after += 1; } trace.push(q); match fault { Some((j, e)) if trace.len() == *j + 1 => { failed = true; Err(MyErr(*e)) } _ => Ok(()) } };
                let res: Result<(), StreamError<TurtleError, MyErr>> = if *stepwise { loop { match s.try_for_some_triple(|t| f(own3(t))) { Ok(true) => {} Ok(false) => break Ok(()), Err(e) => break Err(e) } } } else { s.try_for_each_triple(|t| f(own3(t))) };
                o.out = Some(match res { Ok(()) => POut::Done, Err(StreamError::SourceError(e)) => POut::Source(line_of(&e)), Err(StreamError::SinkError(e)) => POut::Sink(e.0) });
                o.sink_calls_after_failure = after; o.trace = trace;
            }
            Cons::Ser { nt_out: true, wd } => {
                let mut probe = WriteProbe::new(*wd);
                let res: Result<(), StreamError<TurtleError, io::Error>> = NtSerializer::new(&mut probe).serialize_triples(ByRef(&mut s)).map(|_| ());
                o.out = Some(match res { Ok(()) => POut::Done, Err(StreamError::SourceError(e)) => POut::Source(line_of(&e)), Err(StreamError::SinkError(e)) => io_payload(&e) });
                o.bytes = probe.acc; o.calls = probe.calls; o.after = probe.after;
            }
            _ => unreachable!(),
        }
        o.reads_at_failure = reads.get();
        let mut guard = 0;
        loop {
            guard += 1; if guard > 10_000 { o.resumed.push(Err(u64::MAX)); break; }
            let mut got: Vec<Q> = vec![];
            let r = s.try_for_some_triple(|t| -> Result<(), MyErr> { got.push(own3(t)); Ok(()) });
            o.resumed.extend(got.into_iter().map(Ok));
            match r { Ok(true) => {} Ok(false) => break, Err(StreamError::SourceError(e)) => o.resumed.push(Err(line_of(&e))), Err(StreamError::SinkError(_)) => unreachable!() }
        }
        o.reads_total = reads.get();
        o
    }

    fn gen_wd(r: &mut Rng, total: usize) -> WD {
        let budget = match r.below(4) { 0 => r.below(total + 20), 1 => total, 2 => total.saturating_sub(r.below(3)), _ => r.below(total.max(1)) };
        match r.below(6) { 0 | 1 | 2 => WD::Budget { budget, cap: *r.pick(&[1usize, 2, 3, 7, 1000]), code: 300 + r.below(50) as u64 }, 3 | 4 => WD::Atomic { budget, code: 400 + r.below(50) as u64 }, _ => WD::Zero { budget, cap: *r.pick(&[1usize, 4, 1000]) } }
    }
    /// does this writer refuse something when the serializer writes `total`?  (Budget / Zero: as soon as there are more
    /// bytes than the budget; Atomic: decided by replaying whole statements is not possible without the chunking, so the
    /// oracle only uses the two general facts below for it)
    fn writer_fails(wd: &WD, total: &[u8]) -> bool { match wd { WD::Budget { budget, .. } | WD::Zero { budget, .. } => total.len() > *budget, WD::Atomic { budget, .. } => total.len() > *budget } }
    /// index (in `produced`) of the statement during which the writer fails
    fn failing_statement(wd: &WD, produced: &[(usize, Q)], _total: &[u8], nt: bool) -> usize {
        let budget = match wd { WD::Budget { budget, .. } | WD::Zero { budget, .. } | WD::Atomic { budget, .. } => *budget };
        let mut end = 0usize;
        for (i, (_, q)) in produced.iter().enumerate() { end += if nt { canon_quad(&(q.0.clone(), None)).len() } else { canon_quad(q).len() }; if end > budget { return i; } }
        produced.len() - 1
    }
    fn check_writer_into(problems: &mut Vec<String>, wd: &WD, total: &[u8], acc: &[u8], after: usize, out: &POut) {
        if !total.starts_with(acc) { problems.push(format!("the writer accepted {:?}, which is not a prefix of the serialisation {:?}", String::from_utf8_lossy(acc), String::from_utf8_lossy(total))); }
        if after > 0 { problems.push(format!("{after} call(s) of write/flush after a call had failed")); }
        match wd {
            WD::Budget { budget, .. } | WD::Zero { budget, .. } => { if acc.len() != (*budget).min(total.len()) { problems.push(format!("the writer accepted {} bytes, expected min(budget {budget}, {})", acc.len(), total.len())); } }
            WD::Atomic { budget, .. } => { if acc.len() > *budget { problems.push("more bytes than the budget".into()); } if total.len() <= *budget && acc.len() != total.len() { problems.push("everything fits but not everything was written".into()); } }
        }
        let fails = writer_fails(wd, total);
        let is_sink = matches!(out, POut::Sink(_) | POut::SinkWriteZero);
        if fails && !is_sink { problems.push(format!("the writer had to refuse bytes but the outcome is {out:?}")); }
        if let POut::SinkOther(s) = out { problems.push(format!("the sink error does not carry the writer's error value: {s}")); }
    }
    fn check_writer(idx: usize, text: &str, wd: &WD, total: &[u8], acc: &[u8], after: usize, out: &POut, sum: &mut Summary) {
        let mut problems = vec![]; check_writer_into(&mut problems, wd, total, acc, after, out);
        let exp = if writer_fails(wd, total) { match wd { WD::Zero { .. } => POut::SinkWriteZero, WD::Budget { code, .. } | WD::Atomic { code, .. } => POut::Sink(*code) } } else { POut::Done };
        if *out != exp { problems.push(format!("outcome {out:?}, expected {exp:?}")); }
        for p in problems { sum.oracle_failures.push((idx.to_string(), format!("{text}: {p}"))); }
    }
}


// =====================================================================================================================
/// Case ids from 1_000_000 on.
///  * `bulk`: the PROVIDED bulk methods (insert_all, remove_all, remove_matching, retain_matching, add_to_graph,
///    add_to_dataset) driven on user-defined stores that journal every individual insert / remove call, keep
///    duplicates or not, fail on their k-th call or while they are enumerated -- directly, through `&mut`, and
///    through the adapters of other modules (GraphAsDataset, DatasetGraph, nested);
///  * `flushy`: every serializer over writers failing in write, in flush or in both (bare, behind BufWriter /
///    LineWriter), combined with a source failing at item k; one event log shared by source and writer gives the
///    order of the failures.
mod bulk {
    use sophia_api::dataset::adapter::{GraphAsDataset, GraphAsDatasetMutationError};
    use sophia_api::graph::adapter::DatasetGraph;
    use sophia_api::prelude::*;
    use sophia_api::quad::Spog;
    use sophia_api::source::{QuadSource, Source, StreamError, StreamResult, TripleSource};
    use sophia_api::term::matcher::{GraphNameMatcher, TermMatcher};
    use sophia_api::term::{GraphName, IriRef, LanguageTag, SimpleTerm, TermKind};
    use sophia_api::MownStr;
    use std::cell::{Cell, RefCell};
    use std::collections::{BTreeSet, VecDeque};
    use std::rc::Rc;
    use verif_harness::*;

    pub const ONLY_DEFAULT: u64 = 9000;
    // an item is a number: 1000 * g + n; g = 0 is the default graph, n is the object, the subject is s{n mod 3}
    pub fn gname(x: u64) -> u64 { x / 1000 }
    pub fn tpart(x: u64) -> u64 { x % 1000 }
    fn g_term(g: u64) -> Option<ST> { if g == 0 { None } else { Some(iri(&format!("http://e/g{g}"))) } }
    fn s_term(k: u64) -> ST { iri(&format!("http://e/s{k}")) }
    fn o_term(n: u64) -> ST { lit_dt(&n.to_string(), &format!("{XSD}integer")) }
    pub fn spo_of(n: u64) -> [ST; 3] { [s_term(n % 3), iri("http://e/p"), o_term(n)] }
    pub fn quad_of(x: u64) -> Spog<ST> { (spo_of(tpart(x)), g_term(gname(x))) }
    /// a user-defined Copy term: the stores below yield these (DatasetGraph / graph_mut need a graph name whose
    /// borrowed form is the term type of the dataset)
    #[derive(Clone, Copy, Debug, PartialEq)]
    pub enum CT { S(u64), P, O(u64), G(u64) }
    impl Term for CT {
        type BorrowTerm<'x> = CT;
        fn kind(&self) -> TermKind { match self { CT::O(_) => TermKind::Literal, _ => TermKind::Iri } }
        fn iri(&self) -> Option<IriRef<MownStr>> { match self { CT::S(k) => Some(IriRef::new_unchecked(MownStr::from(format!("http://e/s{k}")))), CT::P => Some(IriRef::new_unchecked(MownStr::from("http://e/p"))), CT::G(g) => Some(IriRef::new_unchecked(MownStr::from(format!("http://e/g{g}")))), CT::O(_) => None } }
        fn lexical_form(&self) -> Option<MownStr> { match self { CT::O(n) => Some(MownStr::from(n.to_string())), _ => None } }
        fn datatype(&self) -> Option<IriRef<MownStr>> { match self { CT::O(_) => Some(IriRef::new_unchecked(MownStr::from(format!("{XSD}integer")))), _ => None } }
        fn language_tag(&self) -> Option<LanguageTag<MownStr>> { None }
        fn borrow_term(&self) -> CT { *self }
    }
    fn ct_spo(n: u64) -> [CT; 3] { [CT::S(n % 3), CT::P, CT::O(n)] }
    fn ct_quad(x: u64) -> Spog<CT> { (ct_spo(tpart(x)), if gname(x) == 0 { None } else { Some(CT::G(gname(x))) }) }
    fn ct_g(g: u64) -> Option<CT> { if g == 0 { None } else { Some(CT::G(g)) } }
    fn n_of<T: Term>(o: T) -> u64 { o.lexical_form().unwrap().parse().unwrap() }
    fn g_of<T: Term>(g: Option<T>) -> u64 { match g { None => 0, Some(t) => t.iri().unwrap().as_str().strip_prefix("http://e/g").unwrap().parse().unwrap() } }

    // ---------- the journaling store ----------
    #[derive(Clone, Debug, PartialEq)]
    pub enum Call { Ins(u64), Rem(u64) }
    #[derive(Clone, Debug)]
    pub struct Pol { pub set: bool, pub rm_all: bool, pub fail_ins: Option<(usize, u64)>, pub fail_rem: Option<(usize, u64)>, pub bad: Option<(usize, u64)> }
    #[derive(Debug)]
    pub struct Core { pub content: Vec<u64>, pub journal: Vec<Call>, pub changed: usize, pub pol: Pol }
    impl Core {
        fn ins(&mut self, x: u64) -> Result<bool, MyErr> {
            let k = self.journal.iter().filter(|c| matches!(c, Call::Ins(_))).count();
            self.journal.push(Call::Ins(x));
            if let Some((j, e)) = self.pol.fail_ins { if k == j { return Err(MyErr(e)); } }
            if self.pol.set && self.content.contains(&x) { return Ok(false); }
            self.content.push(x); self.changed += 1; Ok(true)
        }
        fn rem(&mut self, x: u64) -> Result<bool, MyErr> {
            let k = self.journal.iter().filter(|c| matches!(c, Call::Rem(_))).count();
            self.journal.push(Call::Rem(x));
            if let Some((j, e)) = self.pol.fail_rem { if k == j { return Err(MyErr(e)); } }
            match self.content.iter().position(|y| *y == x) {
                None => Ok(false),
                Some(i) => { if self.pol.rm_all { self.content.retain(|y| *y != x); } else { self.content.remove(i); } self.changed += 1; Ok(true) }
            }
        }
        /// the records of the store as its enumeration delivers them: one unreadable record at position k
        fn records(&self) -> Vec<Result<u64, MyErr>> {
            let mut v: Vec<Result<u64, MyErr>> = self.content.iter().map(|x| Ok(*x)).collect();
            if let Some((k, e)) = self.pol.bad { if k <= v.len() { v.insert(k, Err(MyErr(e))); } }
            v
        }
    }
    type H = Rc<RefCell<Core>>;
    /// a graph that implements the REQUIRED methods only
    pub struct JG(pub H);
    impl Graph for JG {
        type Triple<'x> = [CT; 3];
        type Error = MyErr;
        fn triples(&self) -> impl Iterator<Item = Result<[CT; 3], MyErr>> + '_ { self.0.borrow().records().into_iter().map(|r| r.map(|x| { assert_eq!(gname(x), 0); ct_spo(x) })) }
    }
    impl MutableGraph for JG {
        type MutationError = MyErr;
        fn insert<TS: Term, TP: Term, TO: Term>(&mut self, s: TS, _p: TP, o: TO) -> Result<bool, MyErr> { let n = n_of(o); assert!(Term::eq(&s, s_term(n % 3))); self.0.borrow_mut().ins(n) }
        fn remove<TS: Term, TP: Term, TO: Term>(&mut self, s: TS, _p: TP, o: TO) -> Result<bool, MyErr> { let n = n_of(o); assert!(Term::eq(&s, s_term(n % 3))); self.0.borrow_mut().rem(n) }
    }
    /// a dataset that implements the REQUIRED methods only
    pub struct JD(pub H);
    impl Dataset for JD {
        type Quad<'x> = Spog<CT>;
        type Error = MyErr;
        fn quads(&self) -> impl Iterator<Item = Result<Spog<CT>, MyErr>> + '_ { self.0.borrow().records().into_iter().map(|r| r.map(ct_quad)) }
    }
    impl MutableDataset for JD {
        type MutationError = MyErr;
        fn insert<TS: Term, TP: Term, TO: Term, TG: Term>(&mut self, _s: TS, _p: TP, o: TO, g: GraphName<TG>) -> Result<bool, MyErr> { self.0.borrow_mut().ins(1000 * g_of(g) + n_of(o)) }
        fn remove<TS: Term, TP: Term, TO: Term, TG: Term>(&mut self, _s: TS, _p: TP, o: TO, g: GraphName<TG>) -> Result<bool, MyErr> { self.0.borrow_mut().rem(1000 * g_of(g) + n_of(o)) }
    }

    pub trait Code { fn code(&self) -> u64; }
    impl Code for MyErr { fn code(&self) -> u64 { self.0 } }
    impl Code for std::convert::Infallible { fn code(&self) -> u64 { match *self {} } }
    impl<E: Code + std::error::Error> Code for GraphAsDatasetMutationError<E> { fn code(&self) -> u64 { match self { GraphAsDatasetMutationError::OnlyDefaultGraph => ONLY_DEFAULT, GraphAsDatasetMutationError::Graph(e) => e.code() } } }

    // ---------- matchers (user-defined, so that one type covers every description) ----------
    #[derive(Clone, Copy, Debug, PartialEq)] pub enum SD { Any, Eq(u64), Never }
    #[derive(Clone, Copy, Debug, PartialEq)] pub enum OD { Any, Even, Lt(u64), Eq(u64), NotEq(u64), None }
    #[derive(Clone, Copy, Debug, PartialEq)] pub enum GD { Any, Default, Eq(u64), Named }
    #[derive(Clone, Copy, Debug, PartialEq)] pub struct MD { pub s: SD, pub o: OD, pub g: GD }
    fn sd(d: SD, n: u64) -> bool { match d { SD::Any => true, SD::Eq(k) => n % 3 == k, SD::Never => false } }
    fn od(d: OD, n: u64) -> bool { match d { OD::Any => true, OD::Even => n % 2 == 0, OD::Lt(k) => n < k, OD::Eq(k) => n == k, OD::NotEq(k) => n != k, OD::None => false } }
    fn gd(d: GD, g: u64) -> bool { match d { GD::Any => true, GD::Default => g == 0, GD::Eq(k) => g == k, GD::Named => g != 0 } }
    pub fn md(m: &MD, x: u64) -> bool { sd(m.s, tpart(x)) && od(m.o, tpart(x)) && gd(m.g, gname(x)) }
    struct MS(SD); struct MO(OD); struct MG(GD);
    impl TermMatcher for MS { type Term = ST; fn matches<T2: Term + ?Sized>(&self, t: &T2) -> bool { match self.0 { SD::Any => true, SD::Never => false, SD::Eq(k) => Term::eq(t, s_term(k)) } } }
    impl TermMatcher for MO { type Term = ST; fn matches<T2: Term + ?Sized>(&self, t: &T2) -> bool { od(self.0, n_of(t.borrow_term())) } }
    impl GraphNameMatcher for MG { type Term = ST; fn matches<T2: Term + ?Sized>(&self, g: GraphName<&T2>) -> bool { gd(self.0, g_of(g.map(|t| t.borrow_term()))) } }
    fn c_md(m: &MD) -> String {
        format!("(MD {} {} {})", match m.s { SD::Any => "SAny".to_string(), SD::Eq(k) => format!("(SEq {k})"), SD::Never => "SNever".into() },
            match m.o { OD::Any => "OAny".to_string(), OD::Even => "OEven".into(), OD::Lt(k) => format!("(OLt {k})"), OD::Eq(k) => format!("(OEq {k})"), OD::NotEq(k) => format!("(ONotEq {k})"), OD::None => "ONone".into() },
            match m.g { GD::Any => "GAny".to_string(), GD::Default => "GDefault".into(), GD::Eq(k) => format!("(GEq {k})"), GD::Named => "GNamed".into() })
    }

    // ---------- adapters over items ----------
    #[derive(Clone, Copy, Debug, PartialEq)]
    pub enum QD { FilterDefault, FilterNamed, FilterEven, FilterLt(u64), FilterNone, MapDropGraph, MapSetGraph(u64), MapSucc, FmNamedToDefault, FmLtSucc(u64) }
    fn qkind(a: QD) -> super::K { use super::K; match a { QD::FilterDefault | QD::FilterNamed | QD::FilterEven | QD::FilterLt(_) | QD::FilterNone => K::F, QD::MapDropGraph | QD::MapSetGraph(_) | QD::MapSucc => K::M, _ => K::FM } }
    fn qfilt(a: QD, x: u64) -> bool { match a { QD::FilterDefault => gname(x) == 0, QD::FilterNamed => gname(x) != 0, QD::FilterEven => tpart(x) % 2 == 0, QD::FilterLt(k) => tpart(x) < k, QD::FilterNone => false, _ => unreachable!() } }
    fn qmap(a: QD, x: u64) -> u64 { match a { QD::MapDropGraph => tpart(x), QD::MapSetGraph(g) => 1000 * g + tpart(x), QD::MapSucc => x + 1, _ => unreachable!() } }
    fn qfm(a: QD, x: u64) -> Option<u64> { match a { QD::FmNamedToDefault => (gname(x) != 0).then_some(tpart(x)), QD::FmLtSucc(k) => (tpart(x) < k).then_some(x + 1), _ => unreachable!() } }
    pub fn qthrough(chain: &[QD], x: u64) -> Option<u64> { use super::K; let mut x = x; for a in chain { match qkind(*a) { K::F => if !qfilt(*a, x) { return None }, K::M => x = qmap(*a, x), K::FM => x = qfm(*a, x)? } } Some(x) }
    fn c_qd(a: &QD) -> String { match a { QD::FilterDefault => "BFilterDefault".into(), QD::FilterNamed => "BFilterNamed".into(), QD::FilterEven => "BFilterEven".into(), QD::FilterLt(k) => format!("(BFilterLt {k})"), QD::FilterNone => "BFilterNone".into(),
        QD::MapDropGraph => "BMapDropGraph".into(), QD::MapSetGraph(g) => format!("(BMapSetGraph {g})"), QD::MapSucc => "BMapSucc".into(), QD::FmNamedToDefault => "BFmNamedToDefault".into(), QD::FmLtSucc(k) => format!("(BFmLtSucc {k})") } }

    // ---------- a type-erased source, so that one consumer type serves every adapter stack ----------
    #[derive(Debug)]
    struct Carrier(Box<dyn std::any::Any + Send + Sync>);
    impl std::fmt::Display for Carrier { fn fmt(&self, f: &mut std::fmt::Formatter<'_>) -> std::fmt::Result { write!(f, "carried sink error") } }
    impl std::error::Error for Carrier {}
    trait DynSrc { fn step(&mut self, f: &mut dyn FnMut(u64) -> Result<(), Carrier>) -> Result<bool, StreamError<MyErr, Carrier>>; }
    impl<S> DynSrc for S where S: Source<Error = MyErr>, for<'x> S: Source<Item<'x> = u64> {
        fn step(&mut self, f: &mut dyn FnMut(u64) -> Result<(), Carrier>) -> Result<bool, StreamError<MyErr, Carrier>> { self.try_for_some_item(|x| f(x)) }
    }
    pub struct Boxed(Box<dyn DynSrc>);
    impl Source for Boxed {
        type Item<'x> = u64;
        type Error = MyErr;
        fn try_for_some_item<E, F>(&mut self, mut f: F) -> StreamResult<bool, MyErr, E> where E: std::error::Error + Send + Sync + 'static, F: FnMut(u64) -> Result<(), E> {
            let mut g = |x: u64| f(x).map_err(|e| Carrier(Box::new(e)));
            match self.0.step(&mut g) { Ok(b) => Ok(b), Err(StreamError::SourceError(e)) => Err(StreamError::SourceError(e)), Err(StreamError::SinkError(c)) => Err(StreamError::SinkError(*c.0.downcast::<E>().unwrap())) }
        }
    }
    fn b0<S>(s: S, chain: &[QD]) -> Boxed where S: Source<Error = MyErr> + 'static, for<'x> S: Source<Item<'x> = u64> { assert!(chain.is_empty()); Boxed(Box::new(s)) }
    macro_rules! blevel { ($name:ident, $next:ident) => {
        fn $name<S>(s: S, chain: &[QD]) -> Boxed where S: Source<Error = MyErr> + 'static, for<'x> S: Source<Item<'x> = u64> {
            use super::K;
            match chain.split_first() {
                None => Boxed(Box::new(s)),
                Some((a, rest)) => { let a = *a; match qkind(a) {
                    K::F => $next(s.filter_items(move |x: &u64| qfilt(a, *x)), rest),
                    K::M => $next(s.map_items(move |x: u64| qmap(a, x)), rest),
                    K::FM => $next(s.filter_map_items(move |x: u64| qfm(a, x)), rest),
                } }
            }
        }
    }; }
    blevel!(b1, b0); blevel!(b2, b1); blevel!(b3, b2);

    // ---------- shapes ----------
    #[derive(Clone, Copy, Debug, PartialEq)] pub enum W { Ref, AsDataset, GraphMut(u64) }
    #[derive(Clone, Copy, Debug, PartialEq)]
    pub enum Shape {
        // consumers of quads
        D, RefD, RefRefD, GAsDs, GIntoDs, GNewDs, RefGAsDs, DGraphMutAsDs(u64), VecAsDs, BTreeAsDs,
        // consumers of triples
        G, RefG, RefRefG, DGraphMut(u64), DIntoGraph(u64), GAsDsGraphMut(u64), RefDGraphMut(u64), BTreeDGraphMut(u64),
    }
    impl Shape {
        fn takes_quads(self) -> bool { matches!(self, Shape::D | Shape::RefD | Shape::RefRefD | Shape::GAsDs | Shape::GIntoDs | Shape::GNewDs | Shape::RefGAsDs | Shape::DGraphMutAsDs(_) | Shape::VecAsDs | Shape::BTreeAsDs) }
        /// the wrappers between the entry point and the base store, outermost first; and whether the base is a dataset
        fn ws(self) -> (Vec<W>, bool) { match self {
            Shape::D => (vec![], true), Shape::RefD => (vec![W::Ref], true), Shape::RefRefD => (vec![W::Ref, W::Ref], true),
            Shape::GAsDs | Shape::GIntoDs | Shape::GNewDs | Shape::VecAsDs | Shape::BTreeAsDs => (vec![W::AsDataset], false), Shape::RefGAsDs => (vec![W::Ref, W::AsDataset], false),
            Shape::DGraphMutAsDs(g) => (vec![W::AsDataset, W::GraphMut(g)], true),
            Shape::G => (vec![], false), Shape::RefG => (vec![W::Ref], false), Shape::RefRefG => (vec![W::Ref, W::Ref], false),
            Shape::DGraphMut(g) | Shape::DIntoGraph(g) | Shape::BTreeDGraphMut(g) => (vec![W::GraphMut(g)], true), Shape::RefDGraphMut(g) => (vec![W::Ref, W::GraphMut(g)], true),
            Shape::GAsDsGraphMut(g) => (vec![W::GraphMut(g), W::AsDataset], false),
        } }
        fn real(self) -> bool { matches!(self, Shape::VecAsDs | Shape::BTreeAsDs | Shape::BTreeDGraphMut(_)) }
        fn matching_ok(self) -> bool { matches!(self, Shape::D | Shape::RefD | Shape::RefRefD | Shape::G | Shape::RefG | Shape::RefRefG | Shape::DGraphMut(_) | Shape::DIntoGraph(_) | Shape::RefDGraphMut(_)) }
    }
    fn c_w(w: &W) -> String { match w { W::Ref => "WRef".into(), W::AsDataset => "WAsDataset".into(), W::GraphMut(g) => format!("(WGraphMut {g})") } }

    #[derive(Clone, Copy, Debug, PartialEq)]
    pub enum Op { InsertAll, AddTo, RemoveAll, RemoveMatching(MD, usize), RetainMatching(MD, usize) }
    #[derive(Clone, Debug, PartialEq)]
    pub enum Out { Done(usize), Source(u64), Sink(u64) }

    fn conv<E: Code + std::error::Error>(r: Result<usize, StreamError<MyErr, E>>) -> Out { match r { Ok(n) => Out::Done(n), Err(StreamError::SourceError(e)) => Out::Source(e.0), Err(StreamError::SinkError(e)) => Out::Sink(e.code()) } }
    /// the error of remove_matching / retain_matching is the store's MutationError, into which the store's own
    /// enumeration error has been converted: the two are told apart by their values (7xx = enumeration)
    fn conv_m(r: Result<usize, MyErr>) -> Out { match r { Ok(n) => Out::Done(n), Err(e) if (700..800).contains(&e.0) => Out::Source(e.0), Err(e) => Out::Sink(e.0) } }

    fn run_q<D: MutableDataset>(d: &mut D, op: Op, src: Boxed, add_to: bool) -> Out where D::MutationError: Code {
        let qs = src.map_items(quad_of);
        match op {
            Op::InsertAll | Op::AddTo => if add_to { conv(qs.add_to_dataset(d)) } else { conv(d.insert_all(qs)) },
            Op::RemoveAll => conv(d.remove_all(qs)),
            _ => unreachable!(),
        }
    }
    fn run_t<G: MutableGraph>(g: &mut G, op: Op, src: Boxed, add_to: bool, via_quads: bool) -> Out where G::MutationError: Code {
        macro_rules! go { ($ts:expr) => {{ let ts = $ts; match op {
            Op::InsertAll | Op::AddTo => if add_to { conv(ts.add_to_graph(g)) } else { conv(g.insert_all(ts)) },
            Op::RemoveAll => conv(g.remove_all(ts)),
            _ => unreachable!(),
        } }}; }
        if via_quads { go!(src.map_items(quad_of).to_triples()) } else { go!(src.map_items(|x| spo_of(tpart(x)))) }
    }
    fn match_q<D: MutableDataset<MutationError = MyErr, Error = MyErr>>(d: &mut D, op: Op) -> Out {
        let p = iri("http://e/p");
        match op {
            Op::RemoveMatching(m, v) => conv_m(match v % 3 { 0 => d.remove_matching(MS(m.s), Any, MO(m.o), MG(m.g)), 1 => d.remove_matching(MS(m.s), [p], MO(m.o), MG(m.g)), _ => d.remove_matching(MS(m.s), |t: SimpleTerm| t.is_iri(), MO(m.o), MG(m.g)) }),
            Op::RetainMatching(m, v) => conv_m(match v % 3 { 0 => d.retain_matching(MS(m.s), Any, MO(m.o), MG(m.g)), 1 => d.retain_matching(MS(m.s), [p], MO(m.o), MG(m.g)), _ => d.retain_matching(MS(m.s), |t: SimpleTerm| t.is_iri(), MO(m.o), MG(m.g)) }.map(|()| usize::MAX)),
            _ => unreachable!(),
        }
    }
    fn match_t<G: MutableGraph<MutationError = MyErr, Error = MyErr>>(g: &mut G, op: Op) -> Out {
        let p = iri("http://e/p");
        match op {
            Op::RemoveMatching(m, v) => conv_m(match v % 3 { 0 => g.remove_matching(MS(m.s), Any, MO(m.o)), 1 => g.remove_matching(MS(m.s), [p], MO(m.o)), _ => g.remove_matching(MS(m.s), |t: SimpleTerm| t.is_iri(), MO(m.o)) }),
            Op::RetainMatching(m, v) => conv_m(match v % 3 { 0 => g.retain_matching(MS(m.s), Any, MO(m.o)), 1 => g.retain_matching(MS(m.s), [p], MO(m.o)), _ => g.retain_matching(MS(m.s), |t: SimpleTerm| t.is_iri(), MO(m.o)) }.map(|()| usize::MAX)),
            _ => unreachable!(),
        }
    }

    /// an independent reading of the property for these consumers: item by item, in source order
    struct Sim { content: Vec<u64>, journal: Vec<Call>, changed: usize, pol: Pol }
    impl Sim {
        fn call(&mut self, ins: bool, x: u64) -> Result<(), u64> {
            let k = self.journal.iter().filter(|c| matches!(c, Call::Ins(_)) == ins).count();
            self.journal.push(if ins { Call::Ins(x) } else { Call::Rem(x) });
            if let Some((j, e)) = if ins { self.pol.fail_ins } else { self.pol.fail_rem } { if j == k { return Err(e); } }
            if ins { if !(self.pol.set && self.content.contains(&x)) { self.content.push(x); self.changed += 1; } }
            else if let Some(i) = self.content.iter().position(|y| *y == x) { if self.pol.rm_all { self.content.retain(|y| *y != x); } else { self.content.remove(i); } self.changed += 1; }
            Ok(())
        }
        /// one item arriving at the entry point
        fn item(&mut self, ws: &[W], ins: bool, x: u64) -> Result<(), u64> {
            let mut x = x;
            for w in ws { match w { W::Ref => {} W::AsDataset => { if gname(x) != 0 { return if ins { Err(ONLY_DEFAULT) } else { Ok(()) }; } } W::GraphMut(g) => x = 1000 * g + tpart(x) } }
            self.call(ins, x)
        }
    }

    pub fn case(idx: usize, r: &mut Rng, verbose: bool, sum: &mut Summary, cases: &mut Vec<(usize, String)>, seen: &mut std::collections::HashSet<String>) {
        sum.evaluations += 1;
        let g_any = |r: &mut Rng| r.below(3) as u64;
        let shape = match r.below(18) {
            0 => Shape::D, 1 => Shape::RefD, 2 => Shape::RefRefD, 3 => Shape::GAsDs, 4 => Shape::GIntoDs, 5 => Shape::GNewDs, 6 => Shape::RefGAsDs, 7 => Shape::DGraphMutAsDs(g_any(r)), 8 => Shape::VecAsDs, 9 => Shape::BTreeAsDs,
            10 => Shape::G, 11 => Shape::RefG, 12 => Shape::RefRefG, 13 => Shape::DGraphMut(g_any(r)), 14 => Shape::DIntoGraph(g_any(r)), 15 => Shape::GAsDsGraphMut(if r.chance(2, 3) { 0 } else { 1 }), 16 => Shape::RefDGraphMut(g_any(r)), _ => Shape::BTreeDGraphMut(g_any(r)),
        };
        let (ws, base_ds) = shape.ws();
        let pick_md = |r: &mut Rng| MD { s: *r.pick(&[SD::Any, SD::Any, SD::Eq(0), SD::Eq(1), SD::Never]), o: *r.pick(&[OD::Any, OD::Any, OD::Even, OD::Lt(4), OD::Eq(2), OD::NotEq(3), OD::None]),
            g: if matches!(shape, Shape::D | Shape::RefD | Shape::RefRefD) { *r.pick(&[GD::Any, GD::Any, GD::Default, GD::Eq(1), GD::Named]) } else { GD::Any } };
        let op = if shape.matching_ok() && r.chance(1, 2) { if r.chance(1, 2) { Op::RemoveMatching(pick_md(r), r.below(3)) } else { Op::RetainMatching(pick_md(r), r.below(3)) } }
                 else { *r.pick(&[Op::InsertAll, Op::InsertAll, Op::AddTo, Op::RemoveAll]) };
        let matching = matches!(op, Op::RemoveMatching(..) | Op::RetainMatching(..));
        let pol = if shape.real() { Pol { set: shape != Shape::VecAsDs, rm_all: true, fail_ins: None, fail_rem: None, bad: None } } else { Pol {
            set: r.chance(1, 2), rm_all: r.chance(1, 2),
            fail_ins: if r.chance(1, 3) { Some((r.below(4), 200 + r.below(50) as u64)) } else { None },
            fail_rem: if r.chance(1, 3) { Some((r.below(4), 250 + r.below(50) as u64)) } else { None },
            bad: if matching && r.chance(1, 4) { Some((r.below(7), 700 + r.below(50) as u64)) } else { None } } };
        // the content of the base store: duplicates unless the store is a set
        let mut init: Vec<u64> = (0..r.below(8)).map(|_| (if base_ds { 1000 * g_any(r) } else { 0 }) + r.below(6) as u64).collect();
        if pol.set { let mut v = vec![]; for x in &init { if !v.iter().any(|y: &u64| y == x) { v.push(*x) } } init = v; }
        if shape == Shape::BTreeAsDs || matches!(shape, Shape::BTreeDGraphMut(_)) { init.sort(); }
        // the source
        let batch = r.chance(1, 3);
        let item = |r: &mut Rng| (if r.chance(2, 5) { 1000 * (1 + r.below(2) as u64) } else { 0 }) + r.below(6) as u64;
        let steps: super::Steps = if matching { vec![] } else if batch {
            (0..r.below(5)).map(|_| ((0..r.below(4)).map(|_| item(r)).collect(), if r.chance(1, 5) { Some(100 + r.below(50) as u64) } else { None })).collect()
        } else {
            let len = r.below(8);
            let mut src: Vec<Result<u64, u64>> = (0..len).map(|_| Ok(item(r))).collect();
            if r.chance(1, 2) { let k = r.below(len + 1); src.insert(k, Err(100 + r.below(50) as u64)); }
            super::of_results(&src)
        };
        let all_qd = [QD::FilterDefault, QD::FilterNamed, QD::FilterEven, QD::FilterLt(4), QD::FilterNone, QD::MapDropGraph, QD::MapSetGraph(1), QD::MapSucc, QD::FmNamedToDefault, QD::FmLtSucc(5)];
        let chain: Vec<QD> = if matching { vec![] } else { (0..*r.pick(&[0usize, 0, 1, 1, 2, 3])).map(|_| *r.pick(&all_qd)).collect() };
        let add_to = op == Op::AddTo;
        // a consumer of triples fed from quads through to_triples() (which drops the graph name), or from triples
        let via_quads = !shape.takes_quads() && r.chance(1, 2);
        let pulled = Rc::new(Cell::new(0usize));
        let mk_src = |steps: &super::Steps| -> Boxed {
            if batch { b3(super::BatchSource { steps: steps.clone().into(), n: pulled.clone() }, &chain) }
            else { let flat: Vec<Result<u64, MyErr>> = steps.iter().map(|(i, e)| match e { Some(e) => Err(MyErr(*e)), None => Ok(i[0]) }).collect(); b3(super::Counting { it: flat.into_iter(), n: pulled.clone() }, &chain) }
        };
        // ----- the real run -----
        let core: H = Rc::new(RefCell::new(Core { content: init.clone(), journal: vec![], changed: 0, pol: pol.clone() }));
        let mut real_content: Option<Vec<u64>> = None;
        let gt = |g: u64| ct_g(g);
        let out: Out = if matching { match shape {
            Shape::D => match_q(&mut JD(core.clone()), op), Shape::RefD => match_q(&mut &mut JD(core.clone()), op), Shape::RefRefD => match_q(&mut &mut &mut JD(core.clone()), op),
            Shape::G => match_t(&mut JG(core.clone()), op), Shape::RefG => match_t(&mut &mut JG(core.clone()), op), Shape::RefRefG => match_t(&mut &mut &mut JG(core.clone()), op),
            Shape::DGraphMut(g) => match_t(&mut JD(core.clone()).graph_mut(gt(g)), op), Shape::DIntoGraph(g) => match_t(&mut DatasetGraph::new(JD(core.clone()), gt(g)), op),
            Shape::RefDGraphMut(g) => match_t(&mut &mut JD(core.clone()).graph_mut(gt(g)), op),
            _ => unreachable!(),
        } } else { let src = mk_src(&steps); match shape {
            Shape::D => run_q(&mut JD(core.clone()), op, src, add_to), Shape::RefD => run_q(&mut &mut JD(core.clone()), op, src, add_to), Shape::RefRefD => run_q(&mut &mut &mut JD(core.clone()), op, src, add_to),
            Shape::GAsDs => run_q(&mut JG(core.clone()).as_dataset_mut(), op, src, add_to),
            Shape::GIntoDs => { let mut d = JG(core.clone()).into_dataset(); let o = run_q(&mut d, op, src, add_to); let _g: JG = d.unwrap(); o }
            Shape::GNewDs => { let mut g = JG(core.clone()); run_q(&mut GraphAsDataset::new(&mut g), op, src, add_to) }
            Shape::RefGAsDs => { let mut g = JG(core.clone()); let mut d = g.as_dataset_mut(); run_q(&mut &mut d, op, src, add_to) }
            Shape::DGraphMutAsDs(g) => { let mut d = JD(core.clone()); let mut gm = d.graph_mut(gt(g)); run_q(&mut gm.as_dataset_mut(), op, src, add_to) }
            Shape::VecAsDs => { let mut v: Vec<[ST; 3]> = init.iter().map(|x| spo_of(*x)).collect(); let o = run_q(&mut v.as_dataset_mut(), op, src, add_to); real_content = Some(v.iter().map(|t| n_of(&t[2])).collect()); o }
            Shape::BTreeAsDs => { let mut v: BTreeSet<[ST; 3]> = init.iter().map(|x| spo_of(*x)).collect(); let o = run_q(&mut v.as_dataset_mut(), op, src, add_to); real_content = Some(v.iter().map(|t| n_of(&t[2])).collect()); o }
            Shape::G => run_t(&mut JG(core.clone()), op, src, add_to, via_quads), Shape::RefG => run_t(&mut &mut JG(core.clone()), op, src, add_to, via_quads), Shape::RefRefG => run_t(&mut &mut &mut JG(core.clone()), op, src, add_to, via_quads),
            Shape::DGraphMut(g) => run_t(&mut JD(core.clone()).graph_mut(gt(g)), op, src, add_to, via_quads),
            Shape::DIntoGraph(g) => run_t(&mut DatasetGraph::new(JD(core.clone()), gt(g)), op, src, add_to, via_quads),
            Shape::RefDGraphMut(g) => run_t(&mut &mut JD(core.clone()).graph_mut(gt(g)), op, src, add_to, via_quads),
            Shape::GAsDsGraphMut(g) => { let mut d = JG(core.clone()).into_dataset(); run_t(&mut d.graph_mut(gt(g)), op, src, add_to, via_quads) }
            Shape::BTreeDGraphMut(g) => { let mut v: BTreeSet<Spog<ST>> = init.iter().map(|x| quad_of(*x)).collect(); let o = run_t(&mut v.graph_mut(g_term(g)), op, src, add_to, via_quads); real_content = Some(v.iter().map(|q| 1000 * g_of(q.1.as_ref()) + n_of(&q.0[2])).collect()); o }
        } };
        let (content, journal, changed) = { let c = core.borrow(); (real_content.clone().unwrap_or(c.content.clone()), c.journal.clone(), c.changed) };
        // ----- the oracle -----
        let mut sim = Sim { content: init.clone(), journal: vec![], changed: 0, pol: pol.clone() };
        let ins = matches!(op, Op::InsertAll | Op::AddTo);
        let mut exp_out: Option<Out> = None; let mut exp_pulled = steps.len();
        if matching {
            // the stream: the records of the store as seen through the wrappers, filtered by the matchers, into the store's own removal
            let (m, retain) = match op { Op::RemoveMatching(m, _) => (m, false), Op::RetainMatching(m, _) => (m, true), _ => unreachable!() };
            let view_g = ws.iter().find_map(|w| if let W::GraphMut(g) = w { Some(*g) } else { None });
            let mut recs: Vec<Result<u64, u64>> = init.iter().map(|x| Ok(*x)).collect();
            if let Some((k, e)) = pol.bad { if k <= recs.len() { recs.insert(k, Err(e)); } }
            let seen_by_view: Vec<Result<u64, u64>> = recs.into_iter().filter(|x| match (x, view_g) { (Ok(x), Some(g)) => gname(*x) == g, _ => true }).map(|x| x.map(|x| if view_g.is_some() { tpart(x) } else { x })).collect();
            let selected: Vec<Result<u64, u64>> = seen_by_view.into_iter().filter(|x| match x { Ok(x) => md(&m, *x) != retain, Err(_) => true }).collect();
            let stop = selected.iter().position(|x| x.is_err());
            // the removals happen in store order; a store error while it is listed is reported with its value.
            // (Whether the items listed before the unreadable record are removed is left open here: this
            // implementation lists everything first and removes nothing in that case; the Coq model says so.)
            let wanted: Vec<u64> = selected.iter().take(stop.unwrap_or(selected.len())).map(|x| *x.as_ref().unwrap()).collect();
            if let Some(k) = stop { exp_out = Some(Out::Source(*selected[k].as_ref().unwrap_err())); } else {
                for x in &wanted { if let Err(e) = sim.item(&ws, false, *x) { exp_out = Some(Out::Sink(e)); break; } }
            }
            if exp_out.is_none() { exp_out = Some(Out::Done(sim.changed)); }
        } else {
            'outer: for (i, (items, oe)) in steps.iter().enumerate() {
                for x in items { if let Some(y) = qthrough(&chain, *x) {
                    let y = if shape.takes_quads() { y } else { tpart(y) };
                    if let Err(e) = sim.item(&ws, ins, y) { exp_out = Some(Out::Sink(e)); exp_pulled = i + 1; break 'outer; }
                } }
                if let Some(e) = oe { exp_out = Some(Out::Source(*e)); exp_pulled = i + 1; break; }
            }
            if exp_out.is_none() { exp_out = Some(Out::Done(sim.changed)); }
        }
        let exp_out = exp_out.unwrap();
        let text = format!("bulk: consumer={shape:?} (wrappers {ws:?} over a {} {}) op={op:?}{} store-policy={pol:?} initial-content={init:?} source={} steps={steps:?} chain={chain:?}",
            if shape.real() { "library" } else { "journaling" }, if base_ds { "dataset" } else { "graph" }, if via_quads { " fed through to_triples()" } else { "" }, if batch { "batching" } else { "iterator" });
        let mut problems: Vec<String> = vec![];
        // outcome: side and value; the count only where it is significant (set-like stores) or when it is the number of effective changes of the journaling store
        let out_cmp = |o: &Out| match o { Out::Done(_) => Out::Done(0), x => x.clone() };
        if out_cmp(&out) != out_cmp(&exp_out) { problems.push(format!("outcome {out:?}, expected {exp_out:?}")); }
        if let (Out::Done(n), Out::Done(m)) = (&out, &exp_out) { if *n != usize::MAX && !shape.real() && n != m { problems.push(format!("returned count {n}, but {m} calls changed the store")); } }
        if !shape.real() {
            let stopped_on_listing = matching && matches!(exp_out, Out::Source(_));
            if stopped_on_listing { if !sim_prefix_ok(&journal, &init, &ws, &op, &pol) { problems.push(format!("the store failed while it was listed, and received the calls {journal:?}, which are not a prefix of the removals in store order")); } }
            else {
                if journal != sim.journal { problems.push(format!("the store received the calls {journal:?}, expected {:?} (every item that passes exactly once, in source order, none after the failure)", sim.journal)); }
                if content != sim.content { problems.push(format!("store content {content:?}, expected {:?}", sim.content)); }
            }
        } else {
            let mut a = content.clone(); let mut b = sim.content.clone(); if shape != Shape::VecAsDs || !ins { a.sort(); b.sort(); }
            if a != b { problems.push(format!("store content {a:?}, expected {b:?}")); }
        }
        if !matching { let p = if !batch && matches!(out, Out::Done(_)) { pulled.get().saturating_sub(1) } else { pulled.get() }; if p != exp_pulled { problems.push(format!("{p} elements pulled from the source, expected {exp_pulled}")); } }
        for p in &problems { sum.oracle_failures.push((idx.to_string(), format!("{text}: {p}"))); }
        if verbose { println!("CASE {idx}: {text}\nIMPL   out={out:?} journal={journal:?} content={content:?} changed={changed}\nORACLE out={exp_out:?} journal={:?} content={:?}", sim.journal, sim.content); }
        sum.bump(&format!("bulk:op:{}", match op { Op::InsertAll => "insert_all", Op::AddTo => "add_to", Op::RemoveAll => "remove_all", Op::RemoveMatching(..) => "remove_matching", Op::RetainMatching(..) => "retain_matching" }));
        sum.bump(&format!("bulk:consumer:{}", format!("{shape:?}").split('(').next().unwrap()));
        sum.bump(&format!("bulk:outcome:{}", match exp_out { Out::Done(_) => "done", Out::Source(_) => "source-error", Out::Sink(ONLY_DEFAULT) => "sink-error(refused item)", Out::Sink(_) => "sink-error" }));
        if { let mut e: Vec<String> = sim.journal.iter().map(|c| format!("{c:?}")).collect(); e.sort(); e.dedup(); e.len() } != sim.journal.len() { sum.bump("bulk:same-item-in-several-calls"); }
        let nontrivial = !matches!(exp_out, Out::Done(_)) && !sim.journal.is_empty() || sim.journal.len() >= 2;
        if seen.insert(text.clone()) && nontrivial { sum.distinct_nontrivial += 1; }
        if nontrivial && sum.samples.iter().filter(|s| s.contains("bulk:")).count() < 3 { sum.samples.push(format!("case {idx}: {text} => {out:?} calls={journal:?}")); }
        // ----- the Coq case -----
        if shape.real() { return; }
        let c_pol = format!("(mkpol {} {} {} {} {})", coq_bool(pol.set), coq_bool(pol.rm_all), c_fault(pol.fail_ins), c_fault(pol.fail_rem), c_fault(pol.bad));
        let c_ws = coq_list(ws.iter().map(c_w));
        let c_init = coq_list(init.iter().map(|x| x.to_string()));
        let c_journal = coq_list(journal.iter().map(|c| match c { Call::Ins(x) => format!("CInsert {x}"), Call::Rem(x) => format!("CRemove {x}") }));
        let c_content = coq_list(content.iter().map(|x| x.to_string()));
        let c_out = match &out { Out::Done(_) => "KDone".to_string(), Out::Source(e) => format!("(KSource {e})"), Out::Sink(e) => format!("(KSink {e})") };
        match op {
            Op::RemoveMatching(m, _) | Op::RetainMatching(m, _) => cases.push((idx, format!("run_matching_ok {} {c_pol} {c_ws} {c_init} {} {c_journal} {c_content} {changed}%nat {c_out}", coq_bool(matches!(op, Op::RetainMatching(..))), c_md(&m)))),
            _ => { let mut c_chain: Vec<String> = chain.iter().map(c_qd).collect(); if !shape.takes_quads() { c_chain.push("BMapDropGraph".into()); }
                cases.push((idx, format!("run_bulk_ok {} {c_pol} {c_ws} {c_init} {} {} {c_journal} {c_content} {changed}%nat {c_out} {}", coq_bool(ins), super::c_steps(&steps), coq_list(c_chain), if !batch && matches!(out, Out::Done(_)) { pulled.get().saturating_sub(1) } else { pulled.get() }))); }
        }
    }
    fn c_fault(f: Option<(usize, u64)>) -> String { match f { None => "None".into(), Some((j, e)) => format!("(Some ({j}%nat, {e}))") } }
    /// when the store fails while it is listed: whatever was removed must be a prefix of the removals in store order
    fn sim_prefix_ok(journal: &[Call], init: &[u64], ws: &[W], op: &Op, pol: &Pol) -> bool {
        let (m, retain) = match op { Op::RemoveMatching(m, _) => (*m, false), Op::RetainMatching(m, _) => (*m, true), _ => return false };
        let view_g = ws.iter().find_map(|w| if let W::GraphMut(g) = w { Some(*g) } else { None });
        let k = pol.bad.map(|b| b.0).unwrap_or(init.len()).min(init.len());
        let wanted: Vec<Call> = init[..k].iter().filter(|x| view_g.map_or(true, |g| gname(**x) == g)).filter(|x| md(&m, if view_g.is_some() { tpart(**x) } else { **x }) != retain).map(|x| Call::Rem(*x)).collect();
        journal.len() <= wanted.len() && wanted[..journal.len()] == *journal
    }
}

/// Serializers over writers that fail in write, in flush, or in both, while the source may fail as well.
/// The source and the writer share one event log: the error reported must be that of the FIRST failure in the log,
/// on the right side and with its original value.
mod flushy {
    use sophia_api::prelude::*;
    use sophia_api::quad::Spog;
    use sophia_api::serializer::{QuadSerializer, TripleSerializer};
    use sophia_api::source::{QuadSource, Source, StreamError, TripleSource};
    use sophia_jsonld::{JsonLdOptions, JsonLdSerializer};
    use sophia_turtle::serializer::nq::NqSerializer;
    use sophia_turtle::serializer::nt::NtSerializer;
    use sophia_turtle::serializer::trig::{TrigConfig, TrigSerializer};
    use sophia_turtle::serializer::turtle::{TurtleConfig, TurtleSerializer};
    use sophia_xml::serializer::{RdfXmlConfig, RdfXmlSerializer};
    use std::cell::RefCell;
    use std::collections::VecDeque;
    use std::io::{self, Write};
    use std::rc::Rc;
    use verif_harness::*;

    type Q = Spog<ST>;
    #[derive(Clone, Debug, PartialEq)]
    pub enum Ev { Pull(usize), PullErr(u64), PullEnd, Write { asked: usize, res: Result<usize, u64> }, Flush(Result<(), u64>) }
    type Log = Rc<RefCell<Vec<Ev>>>;
    struct LoggedIter { items: VecDeque<Result<Q, u64>>, i: usize, log: Log }
    impl Iterator for LoggedIter {
        type Item = Result<Q, MyErr>;
        fn next(&mut self) -> Option<Self::Item> {
            match self.items.pop_front() {
                None => { self.log.borrow_mut().push(Ev::PullEnd); None }
                Some(Ok(q)) => { self.log.borrow_mut().push(Ev::Pull(self.i)); self.i += 1; Some(Ok(q)) }
                Some(Err(e)) => { self.log.borrow_mut().push(Ev::PullErr(e)); self.i += 1; Some(Err(MyErr(e))) }
            }
        }
    }
    #[derive(Clone, Copy, Debug, PartialEq)] pub enum FP { Never, Always, FirstOnly, AfterFirst }
    #[derive(Clone, Copy, Debug, PartialEq)] pub struct WP { budget: Option<usize>, cap: usize, wcode: u64, flush: FP, fcode: u64 }
    struct Probe { wp: WP, acc: Vec<u8>, log: Log, flushes: usize }
    impl Write for Probe {
        fn write(&mut self, buf: &[u8]) -> io::Result<usize> {
            if buf.is_empty() { self.log.borrow_mut().push(Ev::Write { asked: 0, res: Ok(0) }); return Ok(0); }
            match self.wp.budget {
                Some(b) if self.acc.len() >= b => { self.log.borrow_mut().push(Ev::Write { asked: buf.len(), res: Err(self.wp.wcode) }); Err(io::Error::new(io::ErrorKind::Other, MyErr(self.wp.wcode))) }
                _ => { let room = self.wp.budget.map_or(usize::MAX, |b| b - self.acc.len()); let n = buf.len().min(self.wp.cap).min(room); self.acc.extend_from_slice(&buf[..n]); self.log.borrow_mut().push(Ev::Write { asked: buf.len(), res: Ok(n) }); Ok(n) }
            }
        }
        fn flush(&mut self) -> io::Result<()> {
            self.flushes += 1;
            let fail = match self.wp.flush { FP::Never => false, FP::Always => true, FP::FirstOnly => self.flushes == 1, FP::AfterFirst => self.flushes > 1 };
            self.log.borrow_mut().push(Ev::Flush(if fail { Err(self.wp.fcode) } else { Ok(()) }));
            if fail { Err(io::Error::new(io::ErrorKind::BrokenPipe, MyErr(self.wp.fcode))) } else { Ok(()) }
        }
    }
    #[derive(Clone, Copy, Debug, PartialEq)] pub enum Wrap { Bare, ByRef, Buf(usize), Line }
    #[derive(Clone, Copy, Debug, PartialEq)] pub enum Ser { Nt, Nq, Turtle(bool), Trig(bool), Xml(usize), JsonLd(u16) }
    impl Ser { fn quads(self) -> bool { matches!(self, Ser::Nq | Ser::Trig(_) | Ser::JsonLd(_)) }
               fn flushes_at_end(self) -> bool { matches!(self, Ser::Turtle(_) | Ser::Trig(_) | Ser::Xml(_)) } }

    /// the original error value, wherever the error type of the serializer keeps it
    fn find_code(e: &(dyn std::error::Error + 'static)) -> Option<u64> {
        if let Some(m) = e.downcast_ref::<MyErr>() { return Some(m.0); }
        if let Some(i) = e.downcast_ref::<io::Error>() { if let Some(inner) = i.get_ref() { let inner: &(dyn std::error::Error + 'static) = inner; if let Some(c) = find_code(inner) { return Some(c); } } }
        // quick-xml hands io errors over as Arc<io::Error>
        if let Some(i) = e.downcast_ref::<std::sync::Arc<io::Error>>() { let inner: &(dyn std::error::Error + 'static) = &**i; if let Some(c) = find_code(inner) { return Some(c); } }
        e.source().and_then(find_code)
    }
    #[derive(Clone, Debug, PartialEq)] pub enum Out { Done, Source(u64), Sink(Option<u64>, String) }
    fn conv<E: std::error::Error + 'static>(r: Result<(), StreamError<MyErr, E>>) -> Out { match r { Ok(()) => Out::Done, Err(StreamError::SourceError(e)) => Out::Source(e.0), Err(StreamError::SinkError(e)) => Out::Sink(find_code(&e), format!("{e:?}")) } }

    /// run one serializer over `w`; returns the outcome and the length of the log when the serializer returned
    fn ser_run<W: Write, S>(w: W, ser: Ser, src: S, log: &Log) -> (Out, usize) where S: QuadSource<Error = MyErr> {
        macro_rules! fin { ($s:ident, $call:expr) => {{ let mut $s = $s; let o = conv($call.map(|_| ())); let n = log.borrow().len(); drop($s); (o, n) }}; }
        match ser {
            Ser::Nt => { let s = NtSerializer::new(w); fin!(s, s.serialize_triples(src.to_triples())) }
            Ser::Nq => { let s = NqSerializer::new(w); fin!(s, s.serialize_quads(src)) }
            Ser::Turtle(pretty) => { let s = TurtleSerializer::new_with_config(w, TurtleConfig::new().with_pretty(pretty)); fin!(s, s.serialize_triples(src.to_triples())) }
            Ser::Trig(pretty) => { let s = TrigSerializer::new_with_config(w, TrigConfig::new().with_pretty(pretty)); fin!(s, s.serialize_quads(src)) }
            Ser::Xml(ind) => { let s = RdfXmlSerializer::new_with_config(w, RdfXmlConfig::new().with_indentation(ind)); fin!(s, s.serialize_triples(src.to_triples())) }
            Ser::JsonLd(sp) => { let s = JsonLdSerializer::new_with_options(w, JsonLdOptions::new().with_spaces(sp)); fin!(s, s.serialize_quads(src)) }
        }
    }
    fn reference(ser: Ser, items: &[Q]) -> Vec<u8> {
        let log: Log = Rc::new(RefCell::new(vec![]));
        let mut out: Vec<u8> = vec![];
        let (o, _) = ser_run(&mut out, ser, items.to_vec().into_iter().map(Ok::<Q, MyErr>), &log);
        assert_eq!(o, Out::Done, "reference run");
        out
    }

    pub fn case(idx: usize, r: &mut Rng, verbose: bool, sum: &mut Summary, cases: &mut Vec<(usize, String)>, seen: &mut std::collections::HashSet<String>) {
        sum.evaluations += 1;
        let xs = format!("{XSD}string");
        let subj = [iri("http://e/a"), iri("http://e/b"), bnode("x")];
        let pred = [iri("http://e/p1"), iri("http://e/p2"), iri(&format!("{RDF}type"))];
        let obj = [iri("http://e/o"), bnode("y"), lit_dt("plain", &xs), lit_dt("7", &format!("{XSD}integer")), lit_lang("x", "en"), lit_dt("line\nbreak \"q\"", &xs)];
        let gn = [None, None, Some(iri("http://e/g1")), Some(bnode("gb"))];
        let ser = *r.pick(&[Ser::Nt, Ser::Nt, Ser::Nq, Ser::Nq, Ser::Turtle(false), Ser::Turtle(true), Ser::Trig(false), Ser::Trig(true), Ser::Xml(0), Ser::Xml(2), Ser::JsonLd(0), Ser::JsonLd(2)]);
        let len = r.below(6);
        let items: Vec<Q> = (0..len).map(|_| ([r.pick(&subj).clone(), r.pick(&pred).clone(), r.pick(&obj).clone()], if ser.quads() { r.pick(&gn).clone() } else { None })).collect();
        let src_err: Option<(usize, u64)> = if r.chance(3, 5) { Some((r.below(len + 1), 100 + r.below(50) as u64)) } else { None };
        // an adapter between the source and the serializer
        let filter = r.chance(1, 3);
        let passes = |q: &Q| !filter || !Term::eq(&q.0[1], iri("http://e/p2"));
        let before: Vec<Q> = items.iter().take(src_err.map_or(len, |x| x.0)).filter(|q| passes(q)).cloned().collect();
        let ref_prefix = reference(ser, &before);
        let wrap = *r.pick(&[Wrap::Bare, Wrap::Bare, Wrap::ByRef, Wrap::Buf(8), Wrap::Buf(64), Wrap::Buf(8192), Wrap::Line]);
        let wp = WP {
            budget: match r.below(5) { 0 | 1 => None, 2 => Some(r.below(ref_prefix.len() + 10)), 3 => Some(ref_prefix.len()), _ => Some(r.below(ref_prefix.len().max(1))) },
            cap: *r.pick(&[1usize, 3, 1000, 1000]), wcode: 300 + r.below(50) as u64,
            flush: *r.pick(&[FP::Never, FP::Always, FP::Always, FP::FirstOnly, FP::AfterFirst]), fcode: 500 + r.below(50) as u64 };
        let log: Log = Rc::new(RefCell::new(vec![]));
        let mk = |log: &Log| { let mut v: VecDeque<Result<Q, u64>> = items.iter().cloned().map(Ok).collect(); if let Some((k, e)) = src_err { v.insert(k, Err(e)); } LoggedIter { items: v, i: 0, log: log.clone() } };
        let mut probe = Probe { wp, acc: vec![], log: log.clone(), flushes: 0 };
        macro_rules! with_src { ($w:expr) => { if filter { ser_run($w, ser, mk(&log).filter_quads(|q: &Q| !Term::eq(&q.0[1], iri("http://e/p2"))), &log) } else { ser_run($w, ser, mk(&log), &log) } }; }
        let (out, n_ret) = match wrap {
            Wrap::Bare => { let r = with_src!(&mut probe); r }
            Wrap::ByRef => { let mut w = &mut probe; with_src!(&mut w) }
            Wrap::Buf(c) => with_src!(io::BufWriter::with_capacity(c, &mut probe)),
            Wrap::Line => with_src!(io::LineWriter::new(&mut probe)),
        };
        let events: Vec<Ev> = log.borrow()[..n_ret].to_vec();
        let acc_at_return_unknown = matches!(wrap, Wrap::Buf(_) | Wrap::Line); // the wrapper is dropped (and flushes what it holds) after the serializer has returned
        let acc = probe.acc.clone();
        let text = format!("flush: serializer={ser:?} writer={wp:?} behind {wrap:?} items={} source_fails_at={src_err:?} adapter={}", items.iter().map(|q| format!("{q:?}")).collect::<Vec<_>>().join(" | "), if filter { "filter(p != p2)" } else { "none" });
        // ----- the oracle -----
        let mut problems: Vec<String> = vec![];
        let is_fail = |e: &Ev| matches!(e, Ev::PullErr(_) | Ev::Write { res: Err(_), .. } | Ev::Flush(Err(_)));
        let first = events.iter().position(is_fail);
        let exp: Out = match first.map(|i| &events[i]) { None => Out::Done, Some(Ev::PullErr(e)) => Out::Source(*e), Some(Ev::Write { res: Err(c), .. }) | Some(Ev::Flush(Err(c))) => Out::Sink(Some(*c), String::new()), _ => unreachable!() };
        match (&out, &exp) {
            (Out::Done, Out::Done) => {}
            (Out::Source(a), Out::Source(b)) if a == b => {}
            (Out::Sink(Some(a), _), Out::Sink(Some(b), _)) if a == b => {}
            (Out::Sink(None, s), Out::Sink(_, _)) => problems.push(format!("the sink error does not carry the writer's error value: {s}")),
            _ => problems.push(format!("outcome {out:?}, but the first failure in the order of events is {:?} (events: {events:?})", first.map(|i| &events[i]))),
        }
        if let Some(i) = first {
            if events[i + 1..].iter().any(|e| matches!(e, Ev::Pull(_) | Ev::PullErr(_) | Ev::PullEnd)) { problems.push(format!("the source was pulled again after the first failure (events: {events:?})")); }
            if !matches!(events[i], Ev::PullErr(_)) && matches!(wrap, Wrap::Bare | Wrap::ByRef) && events[i + 1..].iter().any(|e| matches!(e, Ev::Write { .. } | Ev::Flush(_))) { problems.push(format!("the writer was called again after it had reported an error (events: {events:?})")); }
        }
        if src_err.is_none() && out == Out::Done && !events.contains(&Ev::PullEnd) { problems.push("success reported although the source was not exhausted".into()); }
        if events.iter().filter(|e| matches!(e, Ev::Pull(_))).count() > items.len() { problems.push("more pulls than items".into()); }
        // what the writer accepted is the beginning of the serialization of exactly the items before the failure
        // (the JSON-LD serializer orders the keys of its objects by hash: only the size of its output is reproducible)
        let unordered = matches!(ser, Ser::JsonLd(_));
        if unordered { if acc.len() > ref_prefix.len() { problems.push(format!("the writer accepted {} bytes, more than the serialization of the items before the failure ({})", acc.len(), ref_prefix.len())); } }
        else if !ref_prefix.starts_with(&acc) { problems.push(format!("the writer accepted {:?}, which is not a prefix of the serialization of the items before the failure {:?}", String::from_utf8_lossy(&acc), String::from_utf8_lossy(&ref_prefix))); }
        let writer_silent = wp.budget.map_or(true, |b| b > ref_prefix.len()) ;
        if writer_silent && !acc_at_return_unknown {
            if out == Out::Done && (if unordered { acc.len() != ref_prefix.len() } else { acc != ref_prefix }) { problems.push("success, but the writer did not receive the whole serialization".into()); }
            if matches!(ser, Ser::Nt | Ser::Nq) && acc != ref_prefix { problems.push(format!("the writer accepts everything, but it received {:?} instead of the statements before the failure {:?}", String::from_utf8_lossy(&acc), String::from_utf8_lossy(&ref_prefix))); }
        }
        for p in &problems { sum.oracle_failures.push((idx.to_string(), format!("{text}: {p}"))); }
        if verbose { println!("CASE {idx}: {text}\nIMPL out={out:?} accepted={:?}\nEVENTS {events:?}\nORACLE {exp:?} prefix={:?}", String::from_utf8_lossy(&acc), String::from_utf8_lossy(&ref_prefix)); }
        sum.bump(&format!("flush:ser:{}", format!("{ser:?}").split('(').next().unwrap()));
        sum.bump(&format!("flush:outcome:{}", match (&exp, first.map(|i| &events[i])) { (Out::Done, _) => "done", (Out::Source(_), _) => "source-error", (_, Some(Ev::Flush(_))) => "sink-error(flush)", _ => "sink-error(write)" }));
        let n_fail = events.iter().filter(|e| is_fail(e)).count() + log.borrow()[n_ret..].iter().filter(|e| is_fail(e)).count();
        let both = src_err.is_some() && wp.flush != FP::Never;
        if both { sum.bump("flush:source-fails-and-flush-would-fail"); }
        let _ = n_fail;
        if seen.insert(text.clone()) && exp != Out::Done && !acc.is_empty() { sum.distinct_nontrivial += 1; }
        if both && exp != Out::Done && sum.samples.iter().filter(|s| s.contains("flush:")).count() < 2 { sum.samples.push(format!("case {idx}: {text} => {out:?}")); }
        // ----- the Coq case (writers reached directly; a BufWriter decides by itself when the inner writer is called) -----
        if !matches!(wrap, Wrap::Bare | Wrap::ByRef) { return; }
        let flushes = events.iter().filter(|e| matches!(e, Ev::Flush(_))).count();
        let c_mode = if ser.flushes_at_end() { "FlushAtEnd" } else { "NoFlush" };
        let c_ffail = match wp.flush { FP::Always | FP::FirstOnly => format!("(Some {})", wp.fcode), _ => "None".into() };
        let c_out = match &out { Out::Done => "KDone".to_string(), Out::Source(e) => format!("(KSource {e})"), Out::Sink(c, _) => format!("(KSink {})", c.unwrap_or(0)) };
        if matches!(ser, Ser::Nt | Ser::Nq) {
            // statement level: item i is the number 2 i (+ 1 if the adapter drops it); the writer fails during the first line that does not fit
            let codes: Vec<u64> = items.iter().enumerate().map(|(i, q)| 2 * i as u64 + if passes(q) { 0 } else { 1 }).collect();
            let mut c_src: Vec<String> = codes.iter().map(|c| format!("inl {c}")).collect(); if let Some((k, e)) = src_err { c_src.insert(k, format!("inr {e}")); }
            let all_passing: Vec<&Q> = items.iter().filter(|q| passes(q)).collect();
            let mut end = 0usize; let mut wfault = "None".to_string();
            if let Some(b) = wp.budget { for (j, q) in all_passing.iter().enumerate() { end += super::concrete::canon_quad(&((*q).clone())).len(); if end > b { wfault = format!("(Some ({j}%nat, {}))", wp.wcode); break; } } }
            let n_lines = acc.iter().filter(|c| **c == b'\n').count();
            let trace: Vec<u64> = codes.iter().filter(|c| *c % 2 == 0).take(n_lines).cloned().collect();
            cases.push((idx, format!("run_flush_lines_ok {c_mode} (of_results {}) [DFilterEven] {wfault} {c_ffail} {} {c_out} {flushes}%nat", coq_list(c_src), coq_list(trace.iter().map(|x| x.to_string())))));
        } else {
            // document level: does a write fail before the source does?  the bytes this serializer emits for this very source, on a writer that accepts everything
            let log2: Log = Rc::new(RefCell::new(vec![]));
            let mut all: Vec<u8> = vec![];
            let _ = if filter { ser_run(&mut all, ser, mk(&log2).filter_quads(|q: &Q| !Term::eq(&q.0[1], iri("http://e/p2"))), &log2) } else { ser_run(&mut all, ser, mk(&log2), &log2) };
            let c_wfail = match wp.budget { Some(b) if all.len() > b => format!("(Some {})", wp.wcode), _ => "None".into() };
            // a serializer that buffers the whole source first meets the source error before any write
            let c_src_err = match src_err { Some((_, e)) => format!("(Some {e})"), None => "None".into() };
            cases.push((idx, format!("run_flush_ok {c_mode} {c_src_err} {c_wfail} {c_ffail} {c_out} {flushes}%nat")));
        }
    }

    // ---------- one serializer, several calls ----------
    /// the writer of the reuse cases: the serializer owns one handle, the harness keeps another one to open a new round
    /// (new policy, counters reset; what was accepted in the round is taken out)
    #[derive(Clone, Copy, Debug, PartialEq)] pub enum RK { Budget, Atomic }
    #[derive(Clone, Copy, Debug, PartialEq)] pub struct RW { kind: RK, budget: Option<usize>, cap: usize, code: u64 }
    struct RState { rw: RW, acc: Vec<u8>, calls: usize, failed: bool, after: usize, log: Log }
    #[derive(Clone)] struct SharedW(Rc<RefCell<RState>>);
    impl Write for SharedW {
        fn write(&mut self, buf: &[u8]) -> io::Result<usize> {
            let mut s = self.0.borrow_mut();
            if buf.is_empty() { s.log.borrow_mut().push(Ev::Write { asked: 0, res: Ok(0) }); return Ok(0); }
            s.calls += 1; if s.failed { s.after += 1; }
            let refuse = match (s.rw.kind, s.rw.budget) { (_, None) => false, (RK::Budget, Some(b)) => s.acc.len() >= b, (RK::Atomic, Some(b)) => s.acc.len() + buf.len() > b };
            if refuse { s.failed = true; let c = s.rw.code; s.log.borrow_mut().push(Ev::Write { asked: buf.len(), res: Err(c) }); return Err(io::Error::new(io::ErrorKind::Other, MyErr(c))); }
            let n = match s.rw.kind { RK::Atomic => buf.len(), RK::Budget => buf.len().min(s.rw.cap).min(s.rw.budget.map_or(usize::MAX, |b| b - s.acc.len())) };
            s.acc.extend_from_slice(&buf[..n]); s.log.borrow_mut().push(Ev::Write { asked: buf.len(), res: Ok(n) }); Ok(n)
        }
        fn flush(&mut self) -> io::Result<()> { let mut s = self.0.borrow_mut(); if s.failed { s.after += 1; } s.log.borrow_mut().push(Ev::Flush(Ok(()))); Ok(()) }
    }
    #[derive(Clone, Debug)]
    struct Round { items: Vec<Q>, src_err: Option<(usize, u64)>, filter: bool, rw: RW }
    #[derive(Clone, Debug)]
    struct RoundObs { out: Out, acc: Vec<u8>, calls: usize, after: usize, events: Vec<Ev> }

    /// 2..3 `serialize_*` calls on ONE serializer; between two calls the writer recovers.  Every round on its own must
    /// look like the work of a fresh serializer: the writer receives a prefix of the serialization of the items of THAT
    /// round's source before its failure (all of it when nothing fails), nothing left over from an earlier round.
    pub fn reuse_case(idx: usize, r: &mut Rng, verbose: bool, sum: &mut Summary, cases: &mut Vec<(usize, String)>, seen: &mut std::collections::HashSet<String>) {
        sum.evaluations += 1;
        let xs = format!("{XSD}string");
        let subj = [iri("http://e/a"), iri("http://e/b"), bnode("x"), iri("tag:s")];
        let pred = [iri("http://e/p1"), iri("http://e/p2"), iri(&format!("{RDF}type"))];
        let obj = [iri("http://e/o"), bnode("y"), lit_dt("plain", &xs), lit_dt("7", &format!("{XSD}integer")), lit_lang("x", "en"), lit_dt("line\nbreak \"q\"", &xs)];
        let gn = [None, None, Some(iri("http://e/g1")), Some(bnode("gb"))];
        let ser = *r.pick(&[Ser::Nt, Ser::Nt, Ser::Nt, Ser::Nq, Ser::Nq, Ser::Turtle(false), Ser::Turtle(true), Ser::Trig(false), Ser::Trig(true), Ser::Xml(0), Ser::Xml(2), Ser::JsonLd(0), Ser::JsonLd(2)]);
        let by_ref = r.chance(1, 4);
        let n_rounds = 2 + r.below(2);
        let passes = |filter: bool, q: &Q| !filter || !Term::eq(&q.0[1], iri("http://e/p2"));
        let mut rounds: Vec<Round> = vec![];
        for i in 0..n_rounds {
            let len = if i + 1 < n_rounds { 1 + r.below(4) } else { r.below(4) };
            let items: Vec<Q> = (0..len).map(|_| ([r.pick(&subj).clone(), r.pick(&pred).clone(), r.pick(&obj).clone()], if ser.quads() { r.pick(&gn).clone() } else { None })).collect();
            let src_err = if r.chance(1, 5) { Some((r.below(len + 1), 100 + r.below(50) as u64)) } else { None };
            let filter = r.chance(1, 4);
            let before: Vec<Q> = items.iter().take(src_err.map_or(len, |x| x.0)).filter(|q| passes(filter, q)).cloned().collect();
            let ref_len = reference(ser, &before).len();
            // all rounds but the last fail in the writer most of the time; the last one mostly succeeds
            let fail_here = if i + 1 < n_rounds { r.chance(3, 4) } else { r.chance(1, 4) };
            let budget = if fail_here { Some(r.below(ref_len.max(1))) } else { match r.below(3) { 0 => None, 1 => Some(ref_len), _ => Some(ref_len + r.below(10)) } };
            rounds.push(Round { items, src_err, filter, rw: RW { kind: if r.chance(1, 2) { RK::Budget } else { RK::Atomic }, budget, cap: *r.pick(&[1usize, 3, 1000, 1000]), code: 300 + 10 * i as u64 + r.below(10) as u64 } });
        }
        // ----- the real run -----
        let log: Log = Rc::new(RefCell::new(vec![]));
        let state = Rc::new(RefCell::new(RState { rw: rounds[0].rw, acc: vec![], calls: 0, failed: false, after: 0, log: log.clone() }));
        let mk = |rd: &Round| { let mut v: VecDeque<Result<Q, u64>> = rd.items.iter().cloned().map(Ok).collect(); if let Some((k, e)) = rd.src_err { v.insert(k, Err(e)); } LoggedIter { items: v, i: 0, log: log.clone() } };
        let mut obs: Vec<RoundObs> = vec![];
        macro_rules! session { ($s:expr, $call:ident, $tr:ident) => {{
            let mut s = $s;
            for rd in &rounds {
                { let mut st = state.borrow_mut(); st.rw = rd.rw; st.acc.clear(); st.calls = 0; st.failed = false; st.after = 0; }
                let start = log.borrow().len();
                let out = if rd.filter { conv(s.$call(mk(rd).filter_quads(|q: &Q| !Term::eq(&q.0[1], iri("http://e/p2"))).$tr()).map(|_| ())) } else { conv(s.$call(mk(rd).$tr()).map(|_| ())) };
                let st = state.borrow();
                obs.push(RoundObs { out, acc: st.acc.clone(), calls: st.calls, after: st.after, events: log.borrow()[start..].to_vec() });
            }
        }}; }
        trait Same: Sized { fn same(self) -> Self { self } }
        impl<T> Same for T {}
        let w = SharedW(state.clone());
        let mut w2 = SharedW(state.clone());
        macro_rules! on_writer { ($mk:expr, $call:ident, $tr:ident) => { if by_ref { let wr = &mut w2; session!($mk(wr), $call, $tr) } else { session!($mk(w), $call, $tr) } }; }
        match ser {
            Ser::Nt => on_writer!(|w| NtSerializer::new(w), serialize_triples, to_triples),
            Ser::Nq => on_writer!(|w| NqSerializer::new(w), serialize_quads, same),
            Ser::Turtle(pretty) => on_writer!(|w| TurtleSerializer::new_with_config(w, TurtleConfig::new().with_pretty(pretty)), serialize_triples, to_triples),
            Ser::Trig(pretty) => on_writer!(|w| TrigSerializer::new_with_config(w, TrigConfig::new().with_pretty(pretty)), serialize_quads, same),
            Ser::Xml(ind) => on_writer!(|w| RdfXmlSerializer::new_with_config(w, RdfXmlConfig::new().with_indentation(ind)), serialize_triples, to_triples),
            Ser::JsonLd(sp) => on_writer!(|w| JsonLdSerializer::new_with_options(w, JsonLdOptions::new().with_spaces(sp)), serialize_quads, same),
        }
        // ----- the oracle, round by round -----
        let text = format!("ONE serializer={ser:?}{} used for {n_rounds} calls; {}", if by_ref { " (on &mut writer)" } else { "" },
            rounds.iter().enumerate().map(|(i, rd)| format!("call #{}: items={} source_fails_at={:?} adapter={} writer={:?}", i + 1, rd.items.iter().map(|q| String::from_utf8_lossy(&super::concrete::canon_quad(q)).trim_end().to_string()).collect::<Vec<_>>().join(" | "), rd.src_err, if rd.filter { "filter(p != p2)" } else { "none" }, rd.rw)).collect::<Vec<_>>().join("; "));
        let mut problems: Vec<String> = vec![];
        let is_fail = |e: &Ev| matches!(e, Ev::PullErr(_) | Ev::Write { res: Err(_), .. } | Ev::Flush(Err(_)));
        let unordered = matches!(ser, Ser::JsonLd(_));
        let mut any_failed_before = false; let mut nontrivial = false;
        for (i, (rd, ob)) in rounds.iter().zip(&obs).enumerate() {
            let before: Vec<Q> = rd.items.iter().take(rd.src_err.map_or(rd.items.len(), |x| x.0)).filter(|q| passes(rd.filter, q)).cloned().collect();
            let fresh = reference(ser, &before);
            let first = ob.events.iter().position(is_fail);
            let exp: Out = match first.map(|j| &ob.events[j]) { None => Out::Done, Some(Ev::PullErr(e)) => Out::Source(*e), Some(Ev::Write { res: Err(c), .. }) | Some(Ev::Flush(Err(c))) => Out::Sink(Some(*c), String::new()), _ => unreachable!() };
            let n = i + 1;
            match (&ob.out, &exp) {
                (Out::Done, Out::Done) => {}
                (Out::Source(a), Out::Source(b)) if a == b => {}
                (Out::Sink(Some(a), _), Out::Sink(Some(b), _)) if a == b => {}
                (Out::Sink(None, s), Out::Sink(_, _)) => problems.push(format!("call #{n}: the sink error does not carry the writer's error value: {s}")),
                _ => problems.push(format!("call #{n}: outcome {:?}, but the first failure in the order of events of this call is {:?} (events: {:?})", ob.out, first.map(|j| &ob.events[j]), ob.events)),
            }
            if let Some(j) = first {
                if ob.events[j + 1..].iter().any(|e| matches!(e, Ev::Pull(_) | Ev::PullErr(_) | Ev::PullEnd)) { problems.push(format!("call #{n}: the source was pulled again after the first failure (events: {:?})", ob.events)); }
                if !matches!(ob.events[j], Ev::PullErr(_)) && ob.after > 0 { problems.push(format!("call #{n}: the writer was called again after it had reported an error (events: {:?})", ob.events)); }
            }
            if rd.src_err.is_none() && ob.out == Out::Done && !ob.events.contains(&Ev::PullEnd) { problems.push(format!("call #{n}: success reported although the source was not exhausted")); }
            let stale = if any_failed_before { " -- bytes left over from an earlier, failed call?" } else { "" };
            if unordered { if ob.acc.len() > fresh.len() { problems.push(format!("call #{n}: the writer accepted {} bytes, more than a fresh serializer writes for the items of this call before the failure ({}){stale}", ob.acc.len(), fresh.len())); } }
            else if !fresh.starts_with(&ob.acc) { problems.push(format!("call #{n}: the writer accepted {:?}, which is not a prefix of what a fresh serializer writes for the items of this call before the failure, {:?}{stale}", String::from_utf8_lossy(&ob.acc), String::from_utf8_lossy(&fresh))); }
            let silent = rd.rw.budget.map_or(true, |b| b >= fresh.len()) && !ob.events.iter().any(|e| matches!(e, Ev::Write { res: Err(_), .. }));
            if silent {
                if ob.out == Out::Done && (if unordered { ob.acc.len() != fresh.len() } else { ob.acc != fresh }) { problems.push(format!("call #{n}: success, but the writer received {:?} instead of {:?}{stale}", String::from_utf8_lossy(&ob.acc), String::from_utf8_lossy(&fresh))); }
                if matches!(ser, Ser::Nt | Ser::Nq) && ob.acc != fresh { problems.push(format!("call #{n}: the writer accepts everything, but it received {:?} instead of the statements of this call before the failure {:?}{stale}", String::from_utf8_lossy(&ob.acc), String::from_utf8_lossy(&fresh))); }
            }
            if any_failed_before && !fresh.is_empty() { nontrivial = true; }
            if matches!(ob.out, Out::Sink(..)) && !ob.acc.is_empty() { any_failed_before = true; }
        }
        for p in &problems { sum.oracle_failures.push((idx.to_string(), format!("reuse: {p} -- in the session: {text}"))); }
        if verbose { println!("CASE {idx}: reuse: {text}"); for (i, ob) in obs.iter().enumerate() { println!("IMPL call #{}: out={:?} accepted={:?} calls={} after={}\n  EVENTS {:?}", i + 1, ob.out, String::from_utf8_lossy(&ob.acc), ob.calls, ob.after, ob.events); } }
        sum.bump(&format!("reuse:ser:{}", format!("{ser:?}").split('(').next().unwrap()));
        sum.bump(&format!("reuse:history:{}", obs.iter().map(|o| match o.out { Out::Done => "ok", Out::Source(_) => "source-error", Out::Sink(..) => "sink-error" }).collect::<Vec<_>>().join(",")));
        if nontrivial { sum.bump("reuse:call-after-a-call-that-failed-mid-stream"); }
        if seen.insert(text.clone()) && nontrivial { sum.distinct_nontrivial += 1; }
        if nontrivial && sum.samples.iter().filter(|s| s.contains("reuse:")).count() < 2 { sum.samples.push(format!("case {idx}: reuse: {text} => {:?}", obs.iter().map(|o| (format!("{:?}", o.out), String::from_utf8_lossy(&o.acc).to_string())).collect::<Vec<_>>())); }
        // ----- the Coq case: the statement-by-statement serializers on one writer that recovers between the calls -----
        if !matches!(ser, Ser::Nt | Ser::Nq) || rounds.iter().any(|rd| rd.src_err.is_some()) { return; }
        let c_rounds = coq_list(rounds.iter().map(|rd| { let qs: Vec<&Q> = rd.items.iter().filter(|q| passes(rd.filter, q)).collect();
            let wd = match rd.rw.kind { RK::Budget => format!("(WBudget {}%nat {}%nat {})", rd.rw.budget.unwrap_or(1_000_000), rd.rw.cap, rd.rw.code), RK::Atomic => format!("(WAtomic {}%nat {})", rd.rw.budget.unwrap_or(1_000_000), rd.rw.code) };
            format!("({}, {wd})", coq_list(qs.iter().map(|q| super::concrete::c_quad(q)))) }));
        let c_obs = coq_list(obs.iter().map(|ob| format!("({}, {}%nat, {}%nat, {})", coq_bytes(&ob.acc), ob.calls, ob.after, match &ob.out { Out::Done => "None".to_string(), Out::Sink(Some(c), _) => format!("(Some (EDev {c}))"), _ => "(Some EWriteZero)".into() })));
        cases.push((idx, format!("ser_rounds_ok {c_rounds} {c_obs}")));
    }
}


// =====================================================================================================================
/// Case ids from 2_000_000 on (`case_a`, `case_b`; the reuse cases are in `flushy`).
///  * `case_a`: ITERATORS as sources.  A base source (an iterator of results, a user-defined source handing over several
///    items per step, or the Turtle parser over object / predicate lists) announces its length with every kind of size
///    hint: exact, unknown, (0, Some(0)) although items remain, too small, too large, one-sided.  Over it 0..4 layers, each
///    either a Source adapter (filter / map / filter_map) or `map_*(..).into_iter()` / `filter_map_*(..).into_iter()`, whose
///    iterator is a Source again through the blanket impl; then a consumer of the Source API.  Whatever the hints say and
///    however often the stream goes from Source to Iterator and back, the consumer must see the filter_map image of the
///    items before the first fault, once, in order.
///  * `case_b`: the methods of the Iterator trait on the iterators of `map_*(..).into_iter()` / `filter_map_*(..).into_iter()`
///    after k manual `next()` calls (which may stop in the middle of a multi-item step), against the same calls on a Vec
///    iterator over the expected remaining sequence.
mod iters {
    use super::bulk::{spo_of, Call, Core, Pol, JD, JG};
    use super::{c_ad, c_outc, c_steps, filt, fmf, kind, mapf, of_results, oracle, oracle_drain, through, Outc, Steps, AD, K};
    use sophia_api::prelude::*;
    use sophia_api::source::{QuadSource, Source, StreamError, StreamResult, TripleSource};
    use sophia_turtle::serializer::nq::NqSerializer;
    use sophia_turtle::serializer::nt::NtSerializer;
    use std::cell::{Cell, RefCell};
    use std::collections::{BTreeSet, VecDeque};
    use std::rc::Rc;
    use verif_harness::*;

    // ---------- size hints ----------
    #[derive(Clone, Copy, Debug, PartialEq)]
    pub enum Hint { Exact, Unknown, Zero, TooSmall, TooLarge, LowerOnly, UpperOnly }
    fn hint_of(h: Hint, rem: usize) -> (usize, Option<usize>) {
        match h { Hint::Exact => (rem, Some(rem)), Hint::Unknown => (0, None), Hint::Zero => (0, Some(0)), Hint::TooSmall => (rem / 2, Some(rem / 2)), Hint::TooLarge => (rem + 1, Some(rem + 3)), Hint::LowerOnly => (rem, None), Hint::UpperOnly => (0, Some(rem)) }
    }
    /// a user-level Source: several items per step, an error at the end of a step, and a size hint
    struct HintedBatch { steps: VecDeque<(Vec<u64>, Option<u64>)>, hint: Hint, pulls: Rc<Cell<usize>> }
    impl Source for HintedBatch {
        type Item<'x> = u64;
        type Error = MyErr;
        fn try_for_some_item<E, F>(&mut self, mut f: F) -> StreamResult<bool, MyErr, E> where E: std::error::Error + Send + Sync + 'static, F: FnMut(u64) -> Result<(), E> {
            let Some((items, oe)) = self.steps.pop_front() else { return Ok(false) };
            self.pulls.set(self.pulls.get() + 1);
            for x in items { f(x).map_err(StreamError::SinkError)?; }
            match oe { Some(e) => Err(StreamError::SourceError(MyErr(e))), None => Ok(true) }
        }
        fn size_hint_items(&self) -> (usize, Option<usize>) { hint_of(self.hint, self.steps.iter().map(|s| s.0.len()).sum()) }
    }
    /// an iterator of results with a size hint (a Source through the blanket impl)
    struct HintedIter { items: VecDeque<Result<u64, MyErr>>, hint: Hint, pulls: Rc<Cell<usize>> }
    impl Iterator for HintedIter {
        type Item = Result<u64, MyErr>;
        fn next(&mut self) -> Option<Self::Item> { let x = self.items.pop_front(); if x.is_some() { self.pulls.set(self.pulls.get() + 1); } x }
        fn size_hint(&self) -> (usize, Option<usize>) { hint_of(self.hint, self.items.len()) }
    }
    /// the numbers of the triples a parser delivers (the parser's own error becomes MyErr(7))
    struct ParserNums<S>(S);
    impl<S: TripleSource> Source for ParserNums<S> {
        type Item<'x> = u64;
        type Error = MyErr;
        fn try_for_some_item<E, F>(&mut self, mut f: F) -> StreamResult<bool, MyErr, E> where E: std::error::Error + Send + Sync + 'static, F: FnMut(u64) -> Result<(), E> {
            self.0.try_for_some_triple(|t| f(super::tr_through(t))).map_err(|e| match e { StreamError::SourceError(_) => StreamError::SourceError(MyErr(7)), StreamError::SinkError(e) => StreamError::SinkError(e) })
        }
    }

    // ---------- a type-erased source that passes the size hint on ----------
    #[derive(Debug)]
    struct Carrier(Box<dyn std::any::Any + Send + Sync>);
    impl std::fmt::Display for Carrier { fn fmt(&self, f: &mut std::fmt::Formatter<'_>) -> std::fmt::Result { write!(f, "carried sink error") } }
    impl std::error::Error for Carrier {}
    trait DynSrc { fn step(&mut self, f: &mut dyn FnMut(u64) -> Result<(), Carrier>) -> Result<bool, StreamError<MyErr, Carrier>>; fn hint(&self) -> (usize, Option<usize>); }
    impl<S> DynSrc for S where S: Source<Error = MyErr>, for<'x> S: Source<Item<'x> = u64> {
        fn step(&mut self, f: &mut dyn FnMut(u64) -> Result<(), Carrier>) -> Result<bool, StreamError<MyErr, Carrier>> { self.try_for_some_item(|x| f(x)) }
        fn hint(&self) -> (usize, Option<usize>) { self.size_hint_items() }
    }
    pub struct Bx(Box<dyn DynSrc>);
    impl Source for Bx {
        type Item<'x> = u64;
        type Error = MyErr;
        fn try_for_some_item<E, F>(&mut self, mut f: F) -> StreamResult<bool, MyErr, E> where E: std::error::Error + Send + Sync + 'static, F: FnMut(u64) -> Result<(), E> {
            let mut g = |x: u64| f(x).map_err(|e| Carrier(Box::new(e)));
            match self.0.step(&mut g) { Ok(b) => Ok(b), Err(StreamError::SourceError(e)) => Err(StreamError::SourceError(e)), Err(StreamError::SinkError(c)) => Err(StreamError::SinkError(*c.0.downcast::<E>().unwrap())) }
        }
        fn size_hint_items(&self) -> (usize, Option<usize>) { self.0.hint() }
    }

    // ---------- layers ----------
    #[derive(Clone, Copy, Debug, PartialEq)]
    pub enum Layer { Ad(AD), IntoIterMap(AD), IntoIterFm(AD) }
    impl Layer { fn ad(self) -> AD { match self { Layer::Ad(a) | Layer::IntoIterMap(a) | Layer::IntoIterFm(a) => a } } fn is_iter(self) -> bool { !matches!(self, Layer::Ad(_)) } }
    fn apply(s: Bx, l: Layer) -> Bx {
        match l {
            Layer::Ad(a) => match kind(a) {
                K::F => Bx(Box::new(s.filter_items(move |x: &u64| filt(a, *x)))),
                K::M => Bx(Box::new(s.map_items(move |x: u64| mapf(a, x)))),
                K::FM => Bx(Box::new(s.filter_map_items(move |x: u64| fmf(a, x)))),
            },
            // the iterator of the adapter, used as a source again (blanket impl of Source for iterators of results)
            Layer::IntoIterMap(a) => Bx(Box::new(s.map_items(move |x: u64| mapf(a, x)).into_iter())),
            Layer::IntoIterFm(a) => Bx(Box::new(s.filter_map_items(move |x: u64| fmf(a, x)).into_iter())),
        }
    }
    #[derive(Clone, Copy, Debug, PartialEq)]
    pub enum Base { Iter, Batch, Turtle }
    fn turtle_doc(steps: &Steps) -> String {
        let lit = |n: &u64| format!("\"{n}\"^^<{XSD}integer>");
        let mut text = String::new();
        for (i, (items, oe)) in steps.iter().enumerate() {
            if i == 0 { text.push_str("@prefix e: <http://e/> .\n"); continue; }
            if !items.is_empty() { if i % 2 == 0 { text.push_str(&format!("e:s e:p {} .\n", items.iter().map(lit).collect::<Vec<_>>().join(" , "))); } else { text.push_str(&format!("e:s {} .\n", items.iter().map(|n| format!("e:p {}", lit(n))).collect::<Vec<_>>().join(" ; "))); } }
            if oe.is_some() { text.push_str("e:s e:p oops oops .\n"); }
        }
        text
    }
    fn build(base: Base, steps: &Steps, hint: Hint, pulls: &Rc<Cell<usize>>, layers: &[Layer]) -> Bx {
        let mut s = match base {
            Base::Batch => Bx(Box::new(HintedBatch { steps: steps.clone().into(), hint, pulls: pulls.clone() })),
            Base::Iter => Bx(Box::new(HintedIter { items: steps.iter().map(|(i, e)| match e { Some(e) => Err(MyErr(*e)), None => Ok(i[0]) }).collect(), hint, pulls: pulls.clone() })),
            Base::Turtle => Bx(Box::new(ParserNums(sophia_turtle::parser::turtle::parse_bufread(std::io::Cursor::new(turtle_doc(steps).into_bytes()))))),
        };
        for l in layers { s = apply(s, *l); }
        s
    }
    /// the generated stream: base, steps, hint, layers
    struct Gen { base: Base, steps: Steps, hint: Hint, layers: Vec<Layer> }
    fn gen_stream(r: &mut Rng, multi: bool, errors: bool, max_layers: usize, only_ads: bool) -> Gen {
        let base = if multi { *r.pick(&[Base::Batch, Base::Batch, Base::Batch, Base::Turtle]) } else { *r.pick(&[Base::Iter, Base::Iter, Base::Batch, Base::Batch, Base::Batch, Base::Turtle]) };
        let err = |r: &mut Rng| 100 + r.below(50) as u64;
        let steps: Steps = match base {
            Base::Iter => { let len = r.below(8); let mut src: Vec<Result<u64, u64>> = (0..len).map(|_| Ok(r.below(10) as u64)).collect(); if errors && r.chance(1, 3) { let k = r.below(len + 1); src.insert(k, Err(err(r))); } of_results(&src) }
            Base::Batch => (0..r.below(5)).map(|_| ((0..if multi { 1 + r.below(4) } else { r.below(4) }).map(|_| r.below(10) as u64).collect(), if errors && r.chance(1, 7) { Some(err(r)) } else { None })).collect(),
            // one step for the prefix declaration, then one statement per step (never empty); the parser's error ends the document
            Base::Turtle => { let mut v: Steps = vec![(vec![], None)]; for _ in 0..r.below(4) { v.push(((0..1 + r.below(4)).map(|_| r.below(10) as u64).collect(), None)); } if errors && r.chance(1, 4) { v.push((vec![], Some(7))); } v }
        };
        let hint = *r.pick(&[Hint::Exact, Hint::Exact, Hint::Exact, Hint::Unknown, Hint::Zero, Hint::TooSmall, Hint::TooLarge, Hint::LowerOnly, Hint::UpperOnly]);
        let ads = [AD::FilterEven, AD::FilterLt(7), AD::FilterNone, AD::FilterAll, AD::FilterAll, AD::MapSucc, AD::MapSucc, AD::MapDouble, AD::MapConst(4), AD::FilterMapHalf, AD::FilterMapLtSucc(8)];
        let maps = [AD::MapSucc, AD::MapSucc, AD::MapDouble, AD::MapConst(4)]; let fms = [AD::FilterMapHalf, AD::FilterMapLtSucc(8), AD::FilterMapLtSucc(30)];
        let layers: Vec<Layer> = (0..r.below(max_layers + 1)).map(|_| if only_ads || r.chance(2, 5) { Layer::Ad(*r.pick(&ads)) } else if r.chance(1, 2) { Layer::IntoIterMap(*r.pick(&maps)) } else { Layer::IntoIterFm(*r.pick(&fms)) }).collect();
        Gen { base, steps, hint, layers }
    }
    /// the layers as the segments between two into_iter() (each closed by the adapter that was turned into an iterator), and the adapters after the last one
    fn segments(layers: &[Layer]) -> (Vec<Vec<AD>>, Vec<AD>) {
        let mut segs = vec![]; let mut cur = vec![];
        for l in layers { cur.push(l.ad()); if l.is_iter() { segs.push(std::mem::take(&mut cur)); } }
        (segs, cur)
    }
    fn c_segs(segs: &[Vec<AD>]) -> String { coq_list(segs.iter().map(|s| coq_list(s.iter().map(c_ad)))) }

    // ---------- consumers of the Source API ----------
    #[derive(Clone, Copy, Debug, PartialEq)]
    pub enum ConsA { TryEach, Stepwise, ForEach, ForSomeLoop, AddToGraph, GraphInsertAll, AddToDataset, DatasetInsertAll, CollectVec, CollectSetGraph, SerNt, SerNq }
    fn stream_out<E: std::error::Error>(r: Result<(), StreamError<MyErr, E>>, code: impl Fn(&E) -> u64) -> Outc { match r { Ok(()) => Outc::Done, Err(StreamError::SourceError(e)) => Outc::Source(e.0), Err(StreamError::SinkError(e)) => Outc::Sink(code(&e)) } }
    /// (the items the consumer received, if that can be observed; outcome; the count the consumer returned)
    fn run_a(s: Bx, cons: ConsA, fault: Option<(usize, u64)>, via_iter: bool) -> (Option<Vec<u64>>, Outc, Option<usize>) {
        let mut s = s;
        let mut trace: Vec<u64> = vec![];
        let pol = Pol { set: false, rm_all: false, fail_ins: fault, fail_rem: None, bad: None };
        let core = Rc::new(RefCell::new(Core { content: vec![], journal: vec![], changed: 0, pol }));
        let journal = |core: &Rc<RefCell<Core>>| -> Vec<u64> { core.borrow().journal.iter().map(|c| match c { Call::Ins(x) | Call::Rem(x) => *x }).collect() };
        match cons {
            ConsA::TryEach => { let res = s.try_for_each_item(|x| { trace.push(x); match fault { Some((j, e)) if trace.len() == j + 1 => Err(MyErr(e)), _ => Ok(()) } }); (Some(trace), stream_out(res, |e: &MyErr| e.0), None) }
            ConsA::Stepwise => { let res = loop { match s.try_for_some_item(|x| { trace.push(x); match fault { Some((j, e)) if trace.len() == j + 1 => Err(MyErr(e)), _ => Ok(()) } }) { Ok(true) => continue, Ok(false) => break Ok(()), Err(e) => break Err(e) } }; (Some(trace), stream_out(res, |e: &MyErr| e.0), None) }
            ConsA::ForEach => { let res = s.for_each_item(|x| trace.push(x)).map_err(StreamError::<MyErr, MyErr>::SourceError); (Some(trace), stream_out(res, |e| e.0), None) }
            ConsA::ForSomeLoop => { let res = loop { match s.for_some_item(|x| trace.push(x)) { Ok(true) => continue, Ok(false) => break Ok(()), Err(e) => break Err(StreamError::<MyErr, MyErr>::SourceError(e)) } }; (Some(trace), stream_out(res, |e| e.0), None) }
            ConsA::AddToGraph | ConsA::GraphInsertAll => {
                let mut g = JG(core.clone());
                let ts = s.map_items(|x: u64| spo_of(x));
                let res = match (cons == ConsA::AddToGraph, via_iter) { (true, true) => ts.map_triples(|t: [ST; 3]| t).into_iter().add_to_graph(&mut g), (true, false) => ts.add_to_graph(&mut g), (false, true) => g.insert_all(ts.filter_map_triples(|t: [ST; 3]| Some(t)).into_iter()), (false, false) => g.insert_all(ts) };
                let n = res.as_ref().ok().copied();
                (Some(journal(&core)), stream_out(res.map(|_| ()), |e: &MyErr| e.0), n)
            }
            ConsA::AddToDataset | ConsA::DatasetInsertAll => {
                let mut d = JD(core.clone());
                let qs = s.map_items(|x: u64| (spo_of(x), None::<ST>));
                let res = match (cons == ConsA::AddToDataset, via_iter) { (true, true) => qs.map_quads(|q: ([ST; 3], Option<ST>)| q).into_iter().add_to_dataset(&mut d), (true, false) => qs.add_to_dataset(&mut d), (false, true) => d.insert_all(qs.filter_map_quads(|q: ([ST; 3], Option<ST>)| Some(q)).into_iter()), (false, false) => d.insert_all(qs) };
                let n = res.as_ref().ok().copied();
                (Some(journal(&core)), stream_out(res.map(|_| ()), |e: &MyErr| e.0), n)
            }
            ConsA::CollectVec => {
                let ts = s.map_items(|x: u64| super::tr(x));
                let res: Result<Vec<[ST; 3]>, _> = if via_iter { ts.map_triples(|t: [ST; 3]| t).into_iter().collect_triples() } else { ts.collect_triples() };
                match res { Ok(v) => (Some(v.iter().map(super::num).collect()), Outc::Done, Some(v.len())), Err(StreamError::SourceError(e)) => (None, Outc::Source(e.0), None), Err(StreamError::SinkError(_)) => (None, Outc::Sink(0), None) }
            }
            ConsA::CollectSetGraph => {
                let ts = s.map_items(|x: u64| super::tr(x));
                let res: Result<BTreeSet<[ST; 3]>, _> = if via_iter { ts.map_triples(|t: [ST; 3]| t).into_iter().collect_triples() } else { ts.collect_triples() };
                match res { Ok(v) => { let mut t: Vec<u64> = v.iter().map(super::num).collect(); t.sort(); (Some(t), Outc::Done, None) } Err(StreamError::SourceError(e)) => (None, Outc::Source(e.0), None), Err(StreamError::SinkError(_)) => (None, Outc::Sink(0), None) }
            }
            ConsA::SerNt | ConsA::SerNq => {
                // the writer accepts the lines of the first j items and 3 more bytes
                let line_len = |n: u64| format!("<http://e/s> <http://e/p> \"{n}\"^^<{XSD}integer>.\n").len();
                let budget = match fault { Some((_, b)) => b as usize, None => usize::MAX };
                let _ = line_len;
                let mut fw = super::FailingWriter { budget, written: vec![], failed: false, calls_after_failure: 0 };
                let res = if cons == ConsA::SerNt {
                    let ts = s.map_items(|x: u64| super::tr(x));
                    if via_iter { NtSerializer::new(&mut fw).serialize_triples(ts.map_triples(|t: [ST; 3]| t).into_iter()).map(|_| ()) } else { NtSerializer::new(&mut fw).serialize_triples(ts).map(|_| ()) }
                } else {
                    let qs = s.map_items(|x: u64| (super::tr(x), None::<ST>));
                    if via_iter { NqSerializer::new(&mut fw).serialize_quads(qs.map_quads(|q: ([ST; 3], Option<ST>)| q).into_iter()).map(|_| ()) } else { NqSerializer::new(&mut fw).serialize_quads(qs).map(|_| ()) }
                };
                let text_out = String::from_utf8(fw.written).unwrap();
                let lines: Vec<u64> = text_out.split_inclusive('\n').filter(|l| l.ends_with(">.\n")).map(|l| l.split('"').nth(1).unwrap().parse().unwrap()).collect();
                let out = stream_out(res, |_| 997);
                (Some(lines), if fw.calls_after_failure > 0 { Outc::Sink(u64::MAX) } else { out }, None)
            }
        }
    }

    pub fn case_a(idx: usize, r: &mut Rng, verbose: bool, sum: &mut Summary, cases: &mut Vec<(usize, String)>, seen: &mut std::collections::HashSet<String>) {
        sum.evaluations += 1;
        let g = gen_stream(r, false, true, 4, false);
        let cons = *r.pick(&[ConsA::TryEach, ConsA::TryEach, ConsA::Stepwise, ConsA::ForEach, ConsA::ForSomeLoop, ConsA::AddToGraph, ConsA::GraphInsertAll, ConsA::AddToDataset, ConsA::DatasetInsertAll, ConsA::CollectVec, ConsA::CollectSetGraph, ConsA::SerNt, ConsA::SerNq]);
        let via_iter = r.chance(1, 2) && !matches!(cons, ConsA::TryEach | ConsA::Stepwise | ConsA::ForEach | ConsA::ForSomeLoop);
        let flat: Vec<AD> = g.layers.iter().map(|l| l.ad()).collect();
        let can_fail = matches!(cons, ConsA::TryEach | ConsA::Stepwise | ConsA::AddToGraph | ConsA::GraphInsertAll | ConsA::AddToDataset | ConsA::DatasetInsertAll | ConsA::SerNt | ConsA::SerNq);
        let fault: Option<(usize, u64)> = if can_fail && r.chance(2, 5) { Some((r.below(5), 200 + r.below(50) as u64)) } else { None };
        let ser = matches!(cons, ConsA::SerNt | ConsA::SerNq);
        // ----- the oracle: filter_map over the prefix before the first fault -----
        let exp = oracle(&g.steps, &flat, fault);
        // for the serializers the fault is a writer that accepts the lines of the first j items (and 3 bytes more)
        let all = oracle(&g.steps, &flat, None).trace;
        let line_len = |n: u64| format!("<http://e/s> <http://e/p> \"{n}\"^^<{XSD}integer>.\n").len();
        let real_fault = if ser { fault.map(|(j, _)| (j, (all.iter().take(j).map(|n| line_len(*n)).sum::<usize>() + 3) as u64)) } else { fault };
        let (exp_trace, exp_out): (Vec<u64>, Outc) = if ser { match (&exp.out, fault) { (Outc::Sink(_), Some((j, _))) => (exp.trace[..j].to_vec(), Outc::Sink(997)), _ => (exp.trace.clone(), exp.out.clone()) } } else { (exp.trace.clone(), exp.out.clone()) };
        // ----- the real run -----
        let pulls = Rc::new(Cell::new(0usize));
        let (trace, out, count) = run_a(build(g.base, &g.steps, g.hint, &pulls, &g.layers), cons, real_fault, via_iter);
        let text = format!("iterator-as-source: base={:?} size-hint={:?} steps={:?} layers={:?} consumer={cons:?}{} sink_fault={fault:?}", g.base, g.hint, g.steps, g.layers, if via_iter { " [behind one more map_*/filter_map_*(..).into_iter()]" } else { "" });
        let mut problems: Vec<String> = vec![];
        if out != exp_out { problems.push(format!("outcome {out:?}, expected {exp_out:?}")); }
        match &trace {
            Some(t) => { let mut e = exp_trace.clone(); if cons == ConsA::CollectSetGraph { e.sort(); e.dedup(); } if *t != e && !(matches!(cons, ConsA::CollectVec | ConsA::CollectSetGraph) && exp_out != Outc::Done) { problems.push(format!("the consumer received {t:?}, expected {e:?} (every item that passes, once, in source order, none after the fault)")); } }
            None => {}
        }
        if let (Some(n), Outc::Done) = (count, &exp_out) { if n != exp_trace.len() { problems.push(format!("the consumer returned the count {n}, expected {}", exp_trace.len())); } }
        if g.base != Base::Turtle && pulls.get() != exp.pulled { problems.push(format!("{} steps pulled from the base source, expected {}", pulls.get(), exp.pulled)); }
        for p in &problems { sum.oracle_failures.push((idx.to_string(), format!("{text}: {p}"))); }
        if verbose { println!("CASE {idx}: {text}\nIMPL   trace={trace:?} out={out:?} count={count:?} pulled={}\nORACLE trace={exp_trace:?} out={exp_out:?} pulled={}", pulls.get(), exp.pulled); }
        let n_iter = g.layers.iter().filter(|l| l.is_iter()).count() + via_iter as usize;
        sum.bump(&format!("iter:base:{:?}", g.base)); sum.bump(&format!("iter:hint:{:?}", g.hint)); sum.bump(&format!("iter:into_iter-layers:{n_iter}")); sum.bump(&format!("iter:consumer:{cons:?}"));
        sum.bump(&format!("iter:outcome:{}", match exp_out { Outc::Done => "done", Outc::Source(_) => "source-error", Outc::Sink(_) => "sink-error" }));
        let nontrivial = n_iter > 0 && exp_trace.len() >= 2;
        if seen.insert(text.clone()) && nontrivial { sum.distinct_nontrivial += 1; }
        if nontrivial && exp_out != Outc::Done && sum.samples.iter().filter(|s| s.contains("iterator-as-source")).count() < 2 { sum.samples.push(format!("case {idx}: {text} => {trace:?} {out:?}")); }
        // ----- the Coq case: the nesting of iterators as the model writes it -----
        let Some(t) = trace else { return };
        if ser || cons == ConsA::CollectSetGraph { return; }
        let (segs, last) = segments(&g.layers);
        let c_fault = match fault { None => "None".to_string(), Some((j, e)) => format!("(Some ({j}%nat, {e}))") };
        cases.push((idx, format!("run_nested_ok {} {} {} {c_fault} {} {}", c_steps(&g.steps), c_segs(&segs), coq_list(last.iter().map(c_ad)), coq_list(t.iter().map(|x| x.to_string())), c_outc(&out))));
    }

    // ---------- the methods of the Iterator trait ----------
    type R = Result<u64, u64>;
    #[derive(Clone, Debug, Default, PartialEq)]
    pub struct PObs { first: Vec<R>, seq: Vec<R>, scalar: Option<i64>, rest: Vec<R>, panicked: Option<String> }
    #[derive(Clone, Copy, Debug, PartialEq)]
    pub enum Meth { Next, ForLoop, Fold, ForEach, Count, Last, SumResult, MaxByKey, MinBy, Reduce, CollectVec, CollectSet, CollectResultByRef, ExtendVec, ExtendSet, Partition, Unzip,
        TryFoldAll, TryFoldBreak(usize), TryForEachBreak(usize), Nth(usize), Find, Any, All, Position, ByRefTake(usize), ByRefForEach, ByRefCount, SizeHint, SizeHintBetween,
        SkipFold(usize), StepByCollect(usize), ChainFold, PeekableFold, FuseLast, EnumerateCount, TakeForEach(usize), TakeWhileFold, FilterCount, InspectForEach, ZipCollect, FlatMapCollect, EqExpected, MapSum }
    fn cv(r: Result<u64, MyErr>) -> R { r.map_err(|e| e.0) }
    /// k manual next() calls, then the method; for the methods that take the iterator by reference, what next() still delivers afterwards
    fn probe<I: Iterator<Item = Result<u64, MyErr>>>(it: I, k: usize, m: Meth, exp_rest: &[R]) -> PObs {
        let hook = std::panic::take_hook(); std::panic::set_hook(Box::new(|_| {}));
        let res = std::panic::catch_unwind(std::panic::AssertUnwindSafe(|| probe0(it, k, m, exp_rest)));
        std::panic::set_hook(hook);
        match res { Ok(o) => o, Err(p) => PObs { panicked: Some(p.downcast_ref::<String>().cloned().or_else(|| p.downcast_ref::<&str>().map(|s| s.to_string())).unwrap_or_else(|| "panic".into())), ..PObs::default() } }
    }
    fn probe0<I: Iterator<Item = Result<u64, MyErr>>>(mut it: I, k: usize, m: Meth, exp_rest: &[R]) -> PObs {
        let mut o = PObs::default();
        for _ in 0..k { match it.next() { Some(x) => o.first.push(cv(x)), None => break } }
        let push = |mut v: Vec<R>, x: Result<u64, MyErr>| { v.push(cv(x)); v };
        match m {
            Meth::Next => {}
            Meth::ForLoop => { for x in it { o.seq.push(cv(x)); } return o }
            Meth::Fold => { o.seq = it.fold(vec![], push); return o }
            Meth::ForEach => { let mut v = vec![]; it.for_each(|x| v.push(cv(x))); o.seq = v; return o }
            Meth::Count => { o.scalar = Some(it.count() as i64); return o }
            Meth::Last => { o.seq = it.last().map(cv).into_iter().collect(); return o }
            Meth::SumResult => { let s: Result<u64, MyErr> = it.sum(); o.seq = vec![cv(s)]; return o }
            Meth::MapSum => { o.scalar = Some(it.map(|r| match r { Ok(x) => x as i64, Err(e) => 1000 * e.0 as i64 }).sum()); return o }
            Meth::MaxByKey => { o.seq = it.max_by_key(|r| r.as_ref().ok().copied()).map(cv).into_iter().collect(); return o }
            Meth::MinBy => { o.seq = it.min_by(|a, b| a.as_ref().ok().cmp(&b.as_ref().ok())).map(cv).into_iter().collect(); return o }
            Meth::Reduce => { o.seq = it.reduce(|a, b| match (a, b) { (Ok(x), Ok(y)) => Ok(x + y), (Err(e), _) | (_, Err(e)) => Err(e) }).map(cv).into_iter().collect(); return o }
            Meth::CollectVec => { o.seq = it.collect::<Vec<_>>().into_iter().map(cv).collect(); return o }
            Meth::CollectSet => { o.seq = it.map(cv).collect::<BTreeSet<R>>().into_iter().collect(); return o }
            Meth::ExtendVec => { let mut v: Vec<Result<u64, MyErr>> = vec![]; v.extend(it); o.seq = v.into_iter().map(cv).collect(); return o }
            Meth::ExtendSet => { let mut v: BTreeSet<R> = BTreeSet::new(); v.extend(it.map(cv)); o.seq = v.into_iter().collect(); return o }
            Meth::Partition => { let (a, b): (Vec<_>, Vec<_>) = it.partition(|r| r.is_ok()); o.seq = a.into_iter().chain(b).map(cv).collect(); return o }
            Meth::Unzip => { let (a, b): (Vec<bool>, Vec<R>) = it.map(|r| (r.is_ok(), cv(r))).unzip(); o.scalar = Some(a.iter().filter(|x| **x).count() as i64); o.seq = b; return o }
            Meth::SkipFold(n) => { o.seq = it.skip(n).fold(vec![], push); return o }
            Meth::StepByCollect(n) => { o.seq = it.step_by(n + 1).map(cv).collect(); return o }
            Meth::ChainFold => { o.seq = it.chain(std::iter::once(Ok(4242))).fold(vec![], push); return o }
            Meth::PeekableFold => { let mut p = it.peekable(); let first = p.peek().cloned(); o.scalar = Some(match first { None => -1, Some(Ok(x)) => x as i64, Some(Err(e)) => 1000 * e.0 as i64 }); o.seq = p.fold(vec![], push); return o }
            Meth::FuseLast => { o.seq = it.fuse().last().map(cv).into_iter().collect(); return o }
            Meth::EnumerateCount => { o.scalar = Some(it.enumerate().count() as i64); return o }
            Meth::TakeForEach(n) => { let mut v = vec![]; it.take(n).for_each(|x| v.push(cv(x))); o.seq = v; return o }
            Meth::TakeWhileFold => { o.seq = it.take_while(|r| !matches!(r, Ok(x) if *x % 5 == 4)).fold(vec![], push); return o }
            Meth::FilterCount => { o.scalar = Some(it.filter(|r| r.is_ok()).count() as i64); return o }
            Meth::InspectForEach => { let mut seen = 0i64; let mut v = vec![]; it.inspect(|_| seen += 1).for_each(|x| v.push(cv(x))); o.seq = v; o.scalar = Some(seen); return o }
            Meth::ZipCollect => { o.seq = it.zip(0u64..).map(|(r, i)| cv(r).map(|x| 100 * i + x)).collect(); return o }
            Meth::FlatMapCollect => { o.seq = it.flat_map(|r| [r, r]).fold(vec![], push); return o }
            Meth::EqExpected => { o.scalar = Some(it.map(cv).eq(exp_rest.iter().cloned()) as i64); return o }
            // ----- the methods that leave the iterator usable -----
            Meth::TryFoldAll => { o.seq = it.try_fold(vec![], |v, x| Some(push(v, x))).unwrap(); }
            Meth::TryFoldBreak(p) => { let mut v = vec![]; let _ = it.try_fold((), |(), x| { v.push(cv(x)); if v.len() > p { Err(()) } else { Ok(()) } }); o.seq = v; }
            Meth::TryForEachBreak(p) => { let mut v = vec![]; let _ = it.try_for_each(|x| { v.push(cv(x)); if v.len() > p { None } else { Some(()) } }); o.seq = v; }
            Meth::Nth(n) => { o.seq = it.nth(n).map(cv).into_iter().collect(); }
            Meth::Find => { o.seq = it.find(|r| matches!(r, Ok(x) if *x % 3 == 0)).map(cv).into_iter().collect(); }
            Meth::Any => { o.scalar = Some(it.any(|r| r.is_err()) as i64); }
            Meth::All => { o.scalar = Some(it.all(|r| matches!(r, Ok(x) if x < 9)) as i64); }
            Meth::Position => { o.scalar = Some(it.position(|r| matches!(r, Ok(x) if x % 2 == 1)).map_or(-1, |p| p as i64)); }
            Meth::ByRefTake(n) => { o.seq = it.by_ref().take(n).map(cv).collect(); }
            Meth::ByRefForEach => { let mut v = vec![]; it.by_ref().for_each(|x| v.push(cv(x))); o.seq = v; }
            Meth::ByRefCount => { o.scalar = Some(it.by_ref().count() as i64); }
            Meth::CollectResultByRef => { let res: Result<Vec<u64>, MyErr> = it.by_ref().collect(); o.seq = match res { Ok(v) => v.into_iter().map(Ok).collect(), Err(e) => vec![Err(e.0)] }; }
            Meth::SizeHint => { let _ = it.size_hint(); let _ = it.size_hint(); }
            Meth::SizeHintBetween => { loop { let _ = it.size_hint(); match it.next() { Some(x) => o.seq.push(cv(x)), None => break } if o.seq.len() > 10_000 { break } } }
        }
        let mut guard = 0;
        while let Some(x) = it.next() { o.rest.push(cv(x)); guard += 1; if guard > 10_000 { break } }
        o
    }
    #[derive(Clone, Copy, Debug, PartialEq)]
    pub enum Fin { MapId, Map(AD), FmSome, Fm(AD), MapTriples, FmTriples, MapQuads, FmQuads }
    impl Fin { fn ad(self) -> Option<AD> { match self { Fin::Map(a) | Fin::Fm(a) => Some(a), _ => None } } }

    pub fn case_b(idx: usize, r: &mut Rng, verbose: bool, sum: &mut Summary, cases: &mut Vec<(usize, String)>, seen: &mut std::collections::HashSet<String>) {
        sum.evaluations += 1;
        // mostly: a multi-item-per-step source under Source adapters only, so that next() leaves items pending in the iterator under test
        let plain = r.chance(3, 4);
        let mut g = gen_stream(r, plain, true, if plain { 2 } else { 3 }, plain);
        // the Turtle parser cannot be pulled on after its error
        if g.base == Base::Turtle { if let Some((_, Some(_))) = g.steps.last() { g.steps.pop(); } }
        let fin = match r.below(10) { 0 | 1 => Fin::MapId, 2 | 3 => Fin::Map(*r.pick(&[AD::MapSucc, AD::MapDouble])), 4 => Fin::FmSome, 5 | 6 => Fin::Fm(*r.pick(&[AD::FilterMapHalf, AD::FilterMapLtSucc(8), AD::FilterMapLtSucc(30)])), 7 => *r.pick(&[Fin::MapTriples, Fin::MapQuads]), _ => *r.pick(&[Fin::FmTriples, Fin::FmQuads]) };
        let k = *r.pick(&[0usize, 1, 1, 1, 2, 2, 3, 4]);
        let small = |r: &mut Rng| r.below(4);
        let m = match r.below(44) {
            0 => Meth::Next, 1 => Meth::ForLoop, 2 | 3 => Meth::Fold, 4 | 5 => Meth::ForEach, 6 | 7 => Meth::Count, 8 | 9 => Meth::Last, 10 => Meth::SumResult, 11 => Meth::MaxByKey, 12 => Meth::MinBy, 13 => Meth::Reduce, 14 => Meth::CollectVec, 15 => Meth::CollectSet,
            16 => Meth::CollectResultByRef, 17 => Meth::ExtendVec, 18 => Meth::ExtendSet, 19 => Meth::Partition, 20 => Meth::Unzip, 21 => Meth::TryFoldAll, 22 => Meth::TryFoldBreak(small(r)), 23 => Meth::TryForEachBreak(small(r)), 24 => Meth::Nth(small(r)),
            25 => Meth::Find, 26 => Meth::Any, 27 => Meth::All, 28 => Meth::Position, 29 => Meth::ByRefTake(small(r)), 30 => Meth::ByRefForEach, 31 => Meth::ByRefCount, 32 => Meth::SizeHint, 33 => Meth::SizeHintBetween, 34 => Meth::SkipFold(small(r)),
            35 => Meth::StepByCollect(small(r)), 36 => Meth::ChainFold, 37 => Meth::PeekableFold, 38 => Meth::FuseLast, 39 => Meth::EnumerateCount, 40 => Meth::TakeForEach(small(r)), 41 => *r.pick(&[Meth::TakeWhileFold, Meth::FilterCount, Meth::InspectForEach]), 42 => *r.pick(&[Meth::ZipCollect, Meth::FlatMapCollect, Meth::MapSum]), _ => Meth::EqExpected,
        };
        let mut flat: Vec<AD> = g.layers.iter().map(|l| l.ad()).collect(); if let Some(a) = fin.ad() { flat.push(a); }
        // ----- the oracle: the sequence the iterator must deliver, and the same calls on a Vec iterator over it -----
        let full: Vec<R> = oracle_drain(&g.steps, &flat);
        let exp_rest: Vec<R> = full.iter().skip(k).cloned().collect();
        let exp = probe(full.clone().into_iter().map(|r| r.map_err(MyErr)), k, m, &exp_rest);
        // ----- the real run -----
        let pulls = Rc::new(Cell::new(0usize));
        let s = build(g.base, &g.steps, g.hint, &pulls, &g.layers);
        let obs = match fin {
            Fin::MapId => probe(s.map_items(|x: u64| x).into_iter(), k, m, &exp_rest),
            Fin::Map(a) => probe(s.map_items(move |x: u64| mapf(a, x)).into_iter(), k, m, &exp_rest),
            Fin::FmSome => probe(s.filter_map_items(|x: u64| Some(x)).into_iter(), k, m, &exp_rest),
            Fin::Fm(a) => probe(s.filter_map_items(move |x: u64| fmf(a, x)).into_iter(), k, m, &exp_rest),
            Fin::MapTriples => probe(s.map_items(|x: u64| super::tr(x)).map_triples(|t: [ST; 3]| super::num(&t)).into_iter(), k, m, &exp_rest),
            Fin::FmTriples => probe(s.map_items(|x: u64| super::tr(x)).filter_map_triples(|t: [ST; 3]| Some(super::num(&t))).into_iter(), k, m, &exp_rest),
            Fin::MapQuads => probe(s.map_items(|x: u64| (super::tr(x), None::<ST>)).map_quads(|q: ([ST; 3], Option<ST>)| super::num(&q.0)).into_iter(), k, m, &exp_rest),
            Fin::FmQuads => probe(s.map_items(|x: u64| (super::tr(x), None::<ST>)).filter_map_quads(|q: ([ST; 3], Option<ST>)| Some(super::num(&q.0))).into_iter(), k, m, &exp_rest),
        };
        // were items pending inside the iterator when the method was called?  (only a step of the source right below it can leave some)
        let inner_iter = g.layers.iter().any(|l| l.is_iter());
        let pending = !inner_iter && { let mut pos = 0usize; let mut inside = false; for stp in &g.steps { let n = oracle_drain(&vec![stp.clone()], &flat).len(); if pos < k && k < pos + n { inside = true; } pos += n; } inside };
        let text = format!("iterator-method: base={:?} size-hint={:?} steps={:?} layers={:?} iterator-under-test={fin:?}(..).into_iter() manual-next-calls={k} then={m:?}", g.base, g.hint, g.steps, g.layers);
        // std's Filter::count checks in debug builds that the upper bound of size_hint() was not too small: a panic there is
        // about the hint (sloppy by construction in these cases, and not maintained by the iterators of map.rs / filter_map.rs
        // while items are pending), not about the items delivered
        let hint_check = m == Meth::FilterCount && obs.panicked.as_deref() == Some("attempt to subtract with overflow");
        if hint_check { sum.bump("itermeth:std-debug-check-of-size_hint-tripped(filter.count)"); }
        if obs != exp && !hint_check { sum.oracle_failures.push((idx.to_string(), format!("{text}{}: the iterator gives {obs:?}; the same calls on a Vec iterator over the expected sequence {full:?} give {exp:?}", if pending { " [items of the current step were still pending in the iterator]" } else { "" }))); }
        if verbose { println!("CASE {idx}: {text}\nIMPL   {obs:?}\nORACLE {exp:?} (full sequence {full:?}, pending={pending})"); }
        sum.bump(&format!("itermeth:{}", format!("{m:?}").split('(').next().unwrap())); sum.bump(&format!("itermeth:iterator:{}", format!("{fin:?}").split('(').next().unwrap())); sum.bump(&format!("itermeth:hint:{:?}", g.hint));
        if pending { sum.bump("itermeth:items-pending-at-the-call"); }
        if seen.insert(text.clone()) && pending && exp_rest.len() >= 2 { sum.distinct_nontrivial += 1; }
        if pending && sum.samples.iter().filter(|s| s.contains("iterator-method")).count() < 2 { sum.samples.push(format!("case {idx}: {text} => {obs:?}")); }
        // ----- the Coq case: k times iter_next, then what the method shows of the rest -----
        let c_res = |v: &[R]| coq_list(v.iter().map(|x| match x { Ok(v) => format!("inl {v}"), Err(e) => format!("inr {e}") }));
        if hint_check { return; }
        let (c_m, c_obs): (String, Vec<R>) = match m {
            Meth::Next | Meth::ForLoop | Meth::Fold | Meth::ForEach | Meth::CollectVec | Meth::ExtendVec | Meth::TryFoldAll | Meth::TryFoldBreak(_) | Meth::TryForEachBreak(_) | Meth::ByRefTake(_) | Meth::ByRefForEach | Meth::SizeHint | Meth::SizeHintBetween
                => ("IAll".into(), obs.seq.iter().chain(obs.rest.iter()).cloned().collect()),
            Meth::Count | Meth::ByRefCount | Meth::EnumerateCount => ("ICount".into(), vec![Ok(obs.scalar.unwrap() as u64)]),
            Meth::Last | Meth::FuseLast => ("ILast".into(), obs.seq.clone()),
            Meth::Nth(n) => (format!("(INth {n}%nat)"), obs.seq.iter().chain(obs.rest.iter()).cloned().collect()),
            Meth::SumResult => ("ISum".into(), obs.seq.clone()),
            _ => return,
        };
        let (segs, mut last) = segments(&g.layers);
        let mut c_last: Vec<String> = last.drain(..).map(|a| c_ad(&a)).collect(); c_last.push(match fin.ad() { Some(a) => c_ad(&a), None => "DFilterAll".into() });
        cases.push((idx, format!("iter_meth_ok {} {} {} {k}%nat {c_m} {} {}", c_steps(&g.steps), c_segs(&segs), coq_list(c_last), c_res(&obs.first), c_res(&c_obs))));
        let _ = through;
    }
}


/// Chains built with DIRECT method syntax on CONCRETE adapter values (ids from 3_000_000): every adapter method of
/// TripleSource / QuadSource / Source called on the concrete result type of every other one (to_quads / to_triples,
/// filter_*, map_*, filter_map_* to the same or to the other flavour, *_items), depth 0..3, followed by every consumer
/// method called directly on the concrete chain; the closures are FnMut with a state (their state is the history of the
/// items they were called with: counters, seen-sets), some are partial (they misbehave on items that an earlier stage
/// should have removed), and every closure records the sequence of items it is called with.
/// The oracle demands: stage k is called exactly on the items that passed the stages before it, in order; the consumer
/// sees what passed every stage; nothing is touched after the fault; the blame is right.  The same chain is built a
/// second time with every intermediate value type-erased (so that only trait methods can be reached) and compared.
mod direct {
    use super::bulk::{gname, quad_of, spo_of, tpart};
    use super::{c_outc, c_steps, Outc, Steps};
    use sophia_api::prelude::*;
    use sophia_api::quad::Spog;
    use sophia_api::source::{QuadSource, Source, StreamError, StreamResult, TripleSource};
    use std::cell::{Cell, RefCell};
    use std::collections::VecDeque;
    use std::rc::Rc;
    use verif_harness::*;

    type T3 = [ST; 3];
    type Q4 = Spog<ST>;
    fn n_of(o: &ST) -> u64 { o.lexical_form().unwrap().parse().unwrap() }
    fn g_of(g: Option<&ST>) -> u64 { match g { None => 0, Some(t) => t.iri().unwrap().as_str().strip_prefix("http://e/g").unwrap().parse().unwrap() } }
    /// the number an item stands for (1000 * graph + object); the subject and predicate must be the ones `spo_of` builds
    fn code_t(t: &T3) -> u64 { let n = n_of(&t[2]); if Term::eq(&t[0], &spo_of(n)[0]) && Term::eq(&t[1], &spo_of(n)[1]) { n } else { 900_000 + n } } // 900000 + n: an item whose subject / predicate was altered on its way
    fn code_q(q: &Q4) -> u64 { 1000 * g_of(q.1.as_ref()) + code_t(&q.0) }

    // ---------- stages ----------
    #[derive(Clone, Copy, Debug, PartialEq)] pub enum Fl { T, Q }
    /// predicates: the state of a closure is the list of the items it has been called with so far
    #[derive(Clone, Copy, Debug, PartialEq)] pub enum FB { Even, Lt(u64), Named, Default, All, Nothing, FirstN(u64), Alternate, Dedup, DedupG, PartialGLt(u64), PartialHalfLt(u64) }
    #[derive(Clone, Copy, Debug, PartialEq)] pub enum MB { Id, Succ, SetGraph(u64), DropGraph, AddCalls }
    #[derive(Clone, Copy, Debug, PartialEq)] pub enum FMB { HalfEven, NamedToDefault, LtSucc(u64), FirstNSucc(u64), DedupSucc }
    pub fn fb(b: FB, log: &[u64], x: u64) -> bool { let (g, n) = (gname(x), tpart(x)); match b {
        FB::Even => n % 2 == 0, FB::Lt(k) => n < k, FB::Named => g != 0, FB::Default => g == 0, FB::All => true, FB::Nothing => false,
        FB::FirstN(k) => (log.len() as u64) < k,                 // take the first k items offered
        FB::Alternate => log.len() % 2 == 0,                     // every other item offered
        FB::Dedup => !log.iter().any(|y| tpart(*y) == n),        // seen-set over the triple part
        FB::DedupG => !log.contains(&x),                         // seen-set over the whole item
        FB::PartialGLt(k) => if g == 0 { true } else { g < k },  // defined on named graphs only (misbehaves elsewhere)
        FB::PartialHalfLt(k) => if n % 2 == 1 { true } else { n / 2 < k }, // defined on even objects only
    } }
    pub fn mb(b: MB, log: &[u64], x: u64) -> u64 { let n = tpart(x); match b { MB::Id => x, MB::Succ => x + 1, MB::SetGraph(k) => 1000 * k + n, MB::DropGraph => n, MB::AddCalls => x + log.len() as u64 } }
    pub fn fmb(b: FMB, log: &[u64], x: u64) -> Option<u64> { let (g, n) = (gname(x), tpart(x)); match b {
        FMB::HalfEven => (n % 2 == 0).then_some(1000 * g + n / 2), FMB::NamedToDefault => (g != 0).then_some(n), FMB::LtSucc(k) => (n < k).then_some(x + 1),
        FMB::FirstNSucc(k) => ((log.len() as u64) < k).then_some(x + 1), FMB::DedupSucc => (!log.iter().any(|y| tpart(*y) == n)).then_some(x + 1) } }
    #[derive(Clone, Copy, Debug, PartialEq)] pub enum Meth { Conv, FilterX, MapX, FmX, MapCross, FmCross, FilterI, MapI, FmI }
    pub const ALL_METHS: [Meth; 9] = [Meth::Conv, Meth::FilterX, Meth::MapX, Meth::FmX, Meth::MapCross, Meth::FmCross, Meth::FilterI, Meth::MapI, Meth::FmI];
    #[derive(Clone, Copy, Debug, PartialEq)] pub enum Beh { C, F(FB), M(MB), FM(FMB) }
    #[derive(Clone, Copy, Debug, PartialEq)] pub struct Stage { pub meth: Meth, pub beh: Beh, pub from: Fl, pub to: Fl }
    impl Stage {
        fn name(&self) -> String { let x = if self.from == Fl::T { "triples" } else { "quads" }; match self.meth {
            Meth::Conv => if self.from == Fl::T { "to_quads()".into() } else { "to_triples()".into() },
            Meth::FilterX => format!("filter_{x}({:?})", self.beh), Meth::MapX => format!("map_{x}({:?})", self.beh), Meth::FmX => format!("filter_map_{x}({:?})", self.beh),
            Meth::MapCross => format!("map_{x}({:?} -> {:?})", self.beh, self.to), Meth::FmCross => format!("filter_map_{x}({:?} -> {:?})", self.beh, self.to),
            Meth::FilterI => format!("filter_items({:?})", self.beh), Meth::MapI => format!("map_items({:?})", self.beh), Meth::FmI => format!("filter_map_items({:?})", self.beh) } }
    }
    /// what the closure of the stage answers when it is offered x after having been offered `log`
    pub fn apply(st: &Stage, log: &[u64], x: u64) -> Option<u64> {
        let y = match st.beh { Beh::C => Some(x), Beh::F(b) => fb(b, log, x).then_some(x), Beh::M(b) => Some(mb(b, log, x)), Beh::FM(b) => fmb(b, log, x) };
        y.map(|y| if st.to == Fl::T { tpart(y) } else { y })
    }
    fn chain_name(stages: &[Stage]) -> String { let mut s = String::from("source"); for st in stages { s.push('.'); s.push_str(&st.name()); } s }

    /// the closure handed to an adapter: it owns the description of the stage and shares its log with the harness
    #[derive(Clone)]
    pub struct H { st: Stage, log: Rc<RefCell<Vec<u64>>> }
    impl H {
        fn call(&self, x: u64) -> Option<u64> { let r = apply(&self.st, &self.log.borrow(), x); self.log.borrow_mut().push(x); r }
        fn f_t(&self) -> impl FnMut(&T3) -> bool + 'static { let h = self.clone(); move |t: &T3| h.call(code_t(t)).is_some() }
        fn f_q(&self) -> impl FnMut(&Q4) -> bool + 'static { let h = self.clone(); move |q: &Q4| h.call(code_q(q)).is_some() }
        fn m_tt(&self) -> impl FnMut(T3) -> T3 + 'static { let h = self.clone(); move |t: T3| spo_of(h.call(code_t(&t)).unwrap()) }
        fn m_tq(&self) -> impl FnMut(T3) -> Q4 + 'static { let h = self.clone(); move |t: T3| quad_of(h.call(code_t(&t)).unwrap()) }
        fn m_qq(&self) -> impl FnMut(Q4) -> Q4 + 'static { let h = self.clone(); move |q: Q4| quad_of(h.call(code_q(&q)).unwrap()) }
        fn m_qt(&self) -> impl FnMut(Q4) -> T3 + 'static { let h = self.clone(); move |q: Q4| spo_of(h.call(code_q(&q)).unwrap()) }
        fn fm_tt(&self) -> impl FnMut(T3) -> Option<T3> + 'static { let h = self.clone(); move |t: T3| h.call(code_t(&t)).map(spo_of) }
        fn fm_tq(&self) -> impl FnMut(T3) -> Option<Q4> + 'static { let h = self.clone(); move |t: T3| h.call(code_t(&t)).map(quad_of) }
        fn fm_qq(&self) -> impl FnMut(Q4) -> Option<Q4> + 'static { let h = self.clone(); move |q: Q4| h.call(code_q(&q)).map(quad_of) }
        fn fm_qt(&self) -> impl FnMut(Q4) -> Option<T3> + 'static { let h = self.clone(); move |q: Q4| h.call(code_q(&q)).map(spo_of) }
    }

    // ---------- base sources (concrete types) ----------
    /// an iterator of results (a Source through the blanket impl) that counts the elements it hands out
    pub struct CountIter<I> { items: VecDeque<Result<I, MyErr>>, pulls: Rc<Cell<usize>> }
    impl<I> Iterator for CountIter<I> { type Item = Result<I, MyErr>; fn next(&mut self) -> Option<Self::Item> { let x = self.items.pop_front(); if x.is_some() { self.pulls.set(self.pulls.get() + 1); } x } }
    /// a user-level Source: several items per step, an error at the end of a step
    pub struct Batch<I> { steps: VecDeque<(Vec<I>, Option<u64>)>, pulls: Rc<Cell<usize>> }
    impl<I> Source for Batch<I> {
        type Item<'x> = I;
        type Error = MyErr;
        fn try_for_some_item<E, F>(&mut self, mut f: F) -> StreamResult<bool, MyErr, E> where E: std::error::Error + Send + Sync + 'static, F: FnMut(I) -> Result<(), E> {
            let Some((items, oe)) = self.steps.pop_front() else { return Ok(false) };
            self.pulls.set(self.pulls.get() + 1);
            for x in items { f(x).map_err(StreamError::SinkError)?; }
            match oe { Some(e) => Err(StreamError::SourceError(MyErr(e))), None => Ok(true) }
        }
    }
    fn iter_of<I>(steps: &Steps, mk: impl Fn(u64) -> I, pulls: &Rc<Cell<usize>>) -> CountIter<I> { CountIter { items: steps.iter().map(|(i, e)| match e { Some(e) => Err(MyErr(*e)), None => Ok(mk(i[0])) }).collect(), pulls: pulls.clone() } }
    fn batch_of<I>(steps: &Steps, mk: impl Fn(u64) -> I, pulls: &Rc<Cell<usize>>) -> Batch<I> { Batch { steps: steps.iter().map(|(i, e)| (i.iter().map(|x| mk(*x)).collect(), *e)).collect(), pulls: pulls.clone() } }

    // ---------- type erasure: a value of this type can only reach the methods of the traits ----------
    #[derive(Debug)]
    struct Carrier(Box<dyn std::any::Any + Send + Sync>);
    impl std::fmt::Display for Carrier { fn fmt(&self, f: &mut std::fmt::Formatter<'_>) -> std::fmt::Result { write!(f, "carried sink error") } }
    impl std::error::Error for Carrier {}
    trait DynS<I> { fn step(&mut self, f: &mut dyn FnMut(I) -> Result<(), Carrier>) -> Result<bool, StreamError<MyErr, Carrier>>; }
    impl<I, S> DynS<I> for S where S: Source<Error = MyErr>, for<'x> S: Source<Item<'x> = I> {
        fn step(&mut self, f: &mut dyn FnMut(I) -> Result<(), Carrier>) -> Result<bool, StreamError<MyErr, Carrier>> { self.try_for_some_item(|x| f(x)) }
    }
    pub struct Bx<I>(Box<dyn DynS<I>>);
    impl<I> Source for Bx<I> {
        type Item<'x> = I;
        type Error = MyErr;
        fn try_for_some_item<E, F>(&mut self, mut f: F) -> StreamResult<bool, MyErr, E> where E: std::error::Error + Send + Sync + 'static, F: FnMut(I) -> Result<(), E> {
            let mut g = |x: I| f(x).map_err(|e| Carrier(Box::new(e)));
            match self.0.step(&mut g) { Ok(b) => Ok(b), Err(StreamError::SourceError(e)) => Err(StreamError::SourceError(e)), Err(StreamError::SinkError(c)) => Err(StreamError::SinkError(*c.0.downcast::<E>().unwrap())) }
        }
    }
    enum Er { T(Bx<T3>), Q(Bx<Q4>) }
    fn bt<S>(s: S) -> Er where S: Source<Error = MyErr> + 'static, for<'x> S: Source<Item<'x> = T3> { Er::T(Bx(Box::new(s))) }
    fn bq<S>(s: S) -> Er where S: Source<Error = MyErr> + 'static, for<'x> S: Source<Item<'x> = Q4> { Er::Q(Bx(Box::new(s))) }
    fn apply_erased(e: Er, h: &H) -> Er { match e {
        Er::T(s) => match h.st.meth {
            Meth::Conv => bq(s.to_quads()), Meth::FilterX => bt(s.filter_triples(h.f_t())), Meth::MapX => bt(s.map_triples(h.m_tt())), Meth::FmX => bt(s.filter_map_triples(h.fm_tt())),
            Meth::MapCross => bq(s.map_triples(h.m_tq())), Meth::FmCross => bq(s.filter_map_triples(h.fm_tq())),
            Meth::FilterI => bt(s.filter_items(h.f_t())), Meth::MapI => bt(s.map_items(h.m_tt())), Meth::FmI => bt(s.filter_map_items(h.fm_tt())) },
        Er::Q(s) => match h.st.meth {
            Meth::Conv => bt(s.to_triples()), Meth::FilterX => bq(s.filter_quads(h.f_q())), Meth::MapX => bq(s.map_quads(h.m_qq())), Meth::FmX => bq(s.filter_map_quads(h.fm_qq())),
            Meth::MapCross => bt(s.map_quads(h.m_qt())), Meth::FmCross => bt(s.filter_map_quads(h.fm_qt())),
            Meth::FilterI => bq(s.filter_items(h.f_q())), Meth::MapI => bq(s.map_items(h.m_qq())), Meth::FmI => bq(s.filter_map_items(h.fm_qq())) },
    } }

    // ---------- consumers (each one is a method called on the concrete chain) ----------
    #[derive(Clone, Copy, Debug, PartialEq)]
    pub enum CK { TryEachX, StepSomeX, ForEachX, ForSomeX, TryEachI, StepSomeI, ForEachI, Collect, AddTo, Drain }
    pub struct Cx { kind: CK, fault: Option<(usize, u64)> }
    #[derive(Clone, Debug, PartialEq)]
    pub struct Run { trace: Vec<u64>, drained: Vec<Result<u64, u64>>, out: Outc }
    fn rec(trace: &mut Vec<u64>, fault: Option<(usize, u64)>, x: u64) -> Result<(), MyErr> { trace.push(x); match fault { Some((j, e)) if trace.len() == j + 1 => Err(MyErr(e)), _ => Ok(()) } }
    fn conv(r: Result<(), StreamError<MyErr, MyErr>>) -> Outc { match r { Ok(()) => Outc::Done, Err(StreamError::SourceError(e)) => Outc::Source(e.0), Err(StreamError::SinkError(e)) => Outc::Sink(e.0) } }
    fn conv_src(r: Result<(), MyErr>) -> Outc { match r { Ok(()) => Outc::Done, Err(e) => Outc::Source(e.0) } }
    macro_rules! looping { ($call:expr) => { loop { match $call { Ok(true) => continue, Ok(false) => break Ok(()), Err(e) => break Err(e) } } }; }
    macro_rules! drain_arm {
        (I, $s:ident, $code:ident, $drained:ident) => {{ $drained = $s.into_iter().map(|r| r.map(|t| $code(&t)).map_err(|e| e.0)).collect(); Outc::Done }};
        // an erased source polled until it is exhausted, errors included: what the iterators of map_* / filter_map_* do
        (E, $s:ident, $code:ident, $drained:ident) => {{ loop { match $s.for_some_item(|t| $drained.push(Ok($code(&t)))) { Ok(true) => continue, Ok(false) => break, Err(e) => $drained.push(Err(e.0)) } } Outc::Done }};
        (N, $s:ident, $code:ident, $drained:ident) => { unreachable!("drain is only generated behind map_* / filter_map_*") };
    }
    macro_rules! extra_arms {
        (A, T, $s:ident, $cx:ident, $trace:ident) => { match $cx.kind {
            CK::ForSomeX => conv_src(looping!($s.for_some_triple(|t: T3| $trace.push(code_t(&t))))),
            CK::TryEachI => conv($s.try_for_each_item(|t: T3| rec(&mut $trace, $cx.fault, code_t(&t)))),
            CK::StepSomeI => conv(looping!($s.try_for_some_item(|t: T3| rec(&mut $trace, $cx.fault, code_t(&t))))),
            CK::ForEachI => conv_src($s.for_each_item(|t: T3| $trace.push(code_t(&t)))),
            CK::Collect => match $s.collect_triples::<Vec<T3>>() { Ok(v) => { $trace = v.iter().map(code_t).collect(); Outc::Done } Err(StreamError::SourceError(e)) => Outc::Source(e.0), Err(StreamError::SinkError(e)) => match e {} },
            CK::AddTo => { let mut v: Vec<T3> = vec![]; let r = $s.add_to_graph(&mut v); $trace = v.iter().map(code_t).collect(); match r { Ok(n) => { if n != v.len() { $trace.push(777_777); /* the count returned is not the number of items added */ } Outc::Done } Err(StreamError::SourceError(e)) => Outc::Source(e.0), Err(StreamError::SinkError(e)) => match e {} } }
            _ => unreachable!(),
        } };
        (A, Q, $s:ident, $cx:ident, $trace:ident) => { match $cx.kind {
            CK::ForSomeX => conv_src(looping!($s.for_some_quad(|q: Q4| $trace.push(code_q(&q))))),
            CK::TryEachI => conv($s.try_for_each_item(|q: Q4| rec(&mut $trace, $cx.fault, code_q(&q)))),
            CK::StepSomeI => conv(looping!($s.try_for_some_item(|q: Q4| rec(&mut $trace, $cx.fault, code_q(&q))))),
            CK::ForEachI => conv_src($s.for_each_item(|q: Q4| $trace.push(code_q(&q)))),
            CK::Collect => match $s.collect_quads::<Vec<Q4>>() { Ok(v) => { $trace = v.iter().map(code_q).collect(); Outc::Done } Err(StreamError::SourceError(e)) => Outc::Source(e.0), Err(StreamError::SinkError(e)) => match e {} },
            CK::AddTo => { let mut v: Vec<Q4> = vec![]; let r = $s.add_to_dataset(&mut v); $trace = v.iter().map(code_q).collect(); match r { Ok(n) => { if n != v.len() { $trace.push(777_777); /* the count returned is not the number of items added */ } Outc::Done } Err(StreamError::SourceError(e)) => Outc::Source(e.0), Err(StreamError::SinkError(e)) => match e {} } }
            _ => unreachable!(),
        } };
        (B, $fl:tt, $s:ident, $cx:ident, $trace:ident) => { unreachable!("chains of depth 3 are consumed by the basic consumers") };
    }
    /// $it: I = the value is a MapSource / FilterMapSource (into_iter exists), N = it is not, E = it is erased; $cs: A = every consumer, B = the basic ones
    macro_rules! consume {
        (T, $s:ident, $cx:expr, $it:tt, $cs:tt) => {{
            let mut s = $s; let cx: &Cx = $cx; let mut trace: Vec<u64> = vec![]; let mut drained: Vec<Result<u64, u64>> = vec![];
            let out = match cx.kind {
                CK::TryEachX => conv(s.try_for_each_triple(|t: T3| rec(&mut trace, cx.fault, code_t(&t)))),
                CK::StepSomeX => conv(looping!(s.try_for_some_triple(|t: T3| rec(&mut trace, cx.fault, code_t(&t))))),
                CK::ForEachX => conv_src(s.for_each_triple(|t: T3| trace.push(code_t(&t)))),
                CK::Drain => drain_arm!($it, s, code_t, drained),
                _ => extra_arms!($cs, T, s, cx, trace),
            };
            Run { trace, drained, out }
        }};
        (Q, $s:ident, $cx:expr, $it:tt, $cs:tt) => {{
            let mut s = $s; let cx: &Cx = $cx; let mut trace: Vec<u64> = vec![]; let mut drained: Vec<Result<u64, u64>> = vec![];
            let out = match cx.kind {
                CK::TryEachX => conv(s.try_for_each_quad(|q: Q4| rec(&mut trace, cx.fault, code_q(&q)))),
                CK::StepSomeX => conv(looping!(s.try_for_some_quad(|q: Q4| rec(&mut trace, cx.fault, code_q(&q))))),
                CK::ForEachX => conv_src(s.for_each_quad(|q: Q4| trace.push(code_q(&q)))),
                CK::Drain => drain_arm!($it, s, code_q, drained),
                _ => extra_arms!($cs, Q, s, cx, trace),
            };
            Run { trace, drained, out }
        }};
    }
    /// one level of direct method calls per token after the `;` (F = every method, C = the six methods of the triple / quad traits)
    macro_rules! chain {
        ($fl:tt, $s:ident, $hs:expr, $i:expr, $cx:expr, $it:tt, $cs:tt;) => { consume!($fl, $s, $cx, $it, $cs) };
        (T, $s:ident, $hs:expr, $i:expr, $cx:expr, $it:tt, $cs:tt; F $($rest:tt)*) => {
            if $i >= $hs.len() { consume!(T, $s, $cx, $it, $cs) } else { let h: &H = &$hs[$i]; match h.st.meth {
                Meth::Conv => { let s2 = $s.to_quads(); chain!(Q, s2, $hs, $i + 1, $cx, N, $cs; $($rest)*) }
                Meth::FilterX => { let s2 = $s.filter_triples(h.f_t()); chain!(T, s2, $hs, $i + 1, $cx, N, $cs; $($rest)*) }
                Meth::MapX => { let s2 = $s.map_triples(h.m_tt()); chain!(T, s2, $hs, $i + 1, $cx, I, $cs; $($rest)*) }
                Meth::FmX => { let s2 = $s.filter_map_triples(h.fm_tt()); chain!(T, s2, $hs, $i + 1, $cx, I, $cs; $($rest)*) }
                Meth::MapCross => { let s2 = $s.map_triples(h.m_tq()); chain!(Q, s2, $hs, $i + 1, $cx, I, $cs; $($rest)*) }
                Meth::FmCross => { let s2 = $s.filter_map_triples(h.fm_tq()); chain!(Q, s2, $hs, $i + 1, $cx, I, $cs; $($rest)*) }
                Meth::FilterI => { let s2 = $s.filter_items(h.f_t()); chain!(T, s2, $hs, $i + 1, $cx, N, $cs; $($rest)*) }
                Meth::MapI => { let s2 = $s.map_items(h.m_tt()); chain!(T, s2, $hs, $i + 1, $cx, I, $cs; $($rest)*) }
                Meth::FmI => { let s2 = $s.filter_map_items(h.fm_tt()); chain!(T, s2, $hs, $i + 1, $cx, I, $cs; $($rest)*) }
            } }
        };
        (Q, $s:ident, $hs:expr, $i:expr, $cx:expr, $it:tt, $cs:tt; F $($rest:tt)*) => {
            if $i >= $hs.len() { consume!(Q, $s, $cx, $it, $cs) } else { let h: &H = &$hs[$i]; match h.st.meth {
                Meth::Conv => { let s2 = $s.to_triples(); chain!(T, s2, $hs, $i + 1, $cx, N, $cs; $($rest)*) }
                Meth::FilterX => { let s2 = $s.filter_quads(h.f_q()); chain!(Q, s2, $hs, $i + 1, $cx, N, $cs; $($rest)*) }
                Meth::MapX => { let s2 = $s.map_quads(h.m_qq()); chain!(Q, s2, $hs, $i + 1, $cx, I, $cs; $($rest)*) }
                Meth::FmX => { let s2 = $s.filter_map_quads(h.fm_qq()); chain!(Q, s2, $hs, $i + 1, $cx, I, $cs; $($rest)*) }
                Meth::MapCross => { let s2 = $s.map_quads(h.m_qt()); chain!(T, s2, $hs, $i + 1, $cx, I, $cs; $($rest)*) }
                Meth::FmCross => { let s2 = $s.filter_map_quads(h.fm_qt()); chain!(T, s2, $hs, $i + 1, $cx, I, $cs; $($rest)*) }
                Meth::FilterI => { let s2 = $s.filter_items(h.f_q()); chain!(Q, s2, $hs, $i + 1, $cx, N, $cs; $($rest)*) }
                Meth::MapI => { let s2 = $s.map_items(h.m_qq()); chain!(Q, s2, $hs, $i + 1, $cx, I, $cs; $($rest)*) }
                Meth::FmI => { let s2 = $s.filter_map_items(h.fm_qq()); chain!(Q, s2, $hs, $i + 1, $cx, I, $cs; $($rest)*) }
            } }
        };
        (T, $s:ident, $hs:expr, $i:expr, $cx:expr, $it:tt, $cs:tt; C $($rest:tt)*) => {
            if $i >= $hs.len() { consume!(T, $s, $cx, $it, $cs) } else { let h: &H = &$hs[$i]; match h.st.meth {
                Meth::Conv => { let s2 = $s.to_quads(); chain!(Q, s2, $hs, $i + 1, $cx, N, $cs; $($rest)*) }
                Meth::FilterX => { let s2 = $s.filter_triples(h.f_t()); chain!(T, s2, $hs, $i + 1, $cx, N, $cs; $($rest)*) }
                Meth::MapX => { let s2 = $s.map_triples(h.m_tt()); chain!(T, s2, $hs, $i + 1, $cx, I, $cs; $($rest)*) }
                Meth::FmX => { let s2 = $s.filter_map_triples(h.fm_tt()); chain!(T, s2, $hs, $i + 1, $cx, I, $cs; $($rest)*) }
                Meth::MapCross => { let s2 = $s.map_triples(h.m_tq()); chain!(Q, s2, $hs, $i + 1, $cx, I, $cs; $($rest)*) }
                Meth::FmCross => { let s2 = $s.filter_map_triples(h.fm_tq()); chain!(Q, s2, $hs, $i + 1, $cx, I, $cs; $($rest)*) }
                _ => unreachable!("chains of depth 3 use the methods of the triple / quad traits"),
            } }
        };
        (Q, $s:ident, $hs:expr, $i:expr, $cx:expr, $it:tt, $cs:tt; C $($rest:tt)*) => {
            if $i >= $hs.len() { consume!(Q, $s, $cx, $it, $cs) } else { let h: &H = &$hs[$i]; match h.st.meth {
                Meth::Conv => { let s2 = $s.to_triples(); chain!(T, s2, $hs, $i + 1, $cx, N, $cs; $($rest)*) }
                Meth::FilterX => { let s2 = $s.filter_quads(h.f_q()); chain!(Q, s2, $hs, $i + 1, $cx, N, $cs; $($rest)*) }
                Meth::MapX => { let s2 = $s.map_quads(h.m_qq()); chain!(Q, s2, $hs, $i + 1, $cx, I, $cs; $($rest)*) }
                Meth::FmX => { let s2 = $s.filter_map_quads(h.fm_qq()); chain!(Q, s2, $hs, $i + 1, $cx, I, $cs; $($rest)*) }
                Meth::MapCross => { let s2 = $s.map_quads(h.m_qt()); chain!(T, s2, $hs, $i + 1, $cx, I, $cs; $($rest)*) }
                Meth::FmCross => { let s2 = $s.filter_map_quads(h.fm_qt()); chain!(T, s2, $hs, $i + 1, $cx, I, $cs; $($rest)*) }
                _ => unreachable!("chains of depth 3 use the methods of the triple / quad traits"),
            } }
        };
    }
    // one function per (flavour, base, depth budget): the body is the tree of direct calls
    fn direct_t_iter2(s: CountIter<T3>, hs: &[H], cx: &Cx) -> Run { chain!(T, s, hs, 0, cx, N, A; F F) }
    fn direct_q_iter2(s: CountIter<Q4>, hs: &[H], cx: &Cx) -> Run { chain!(Q, s, hs, 0, cx, N, A; F F) }
    fn direct_t_batch2(s: Batch<T3>, hs: &[H], cx: &Cx) -> Run { chain!(T, s, hs, 0, cx, N, A; F F) }
    fn direct_q_batch2(s: Batch<Q4>, hs: &[H], cx: &Cx) -> Run { chain!(Q, s, hs, 0, cx, N, A; F F) }
    fn direct_t_iter3(s: CountIter<T3>, hs: &[H], cx: &Cx) -> Run { chain!(T, s, hs, 0, cx, N, B; C C C) }
    fn direct_q_iter3(s: CountIter<Q4>, hs: &[H], cx: &Cx) -> Run { chain!(Q, s, hs, 0, cx, N, B; C C C) }
    fn erased(e: Er, hs: &[H], cx: &Cx) -> Run { let mut e = e; for h in hs { e = apply_erased(e, h); } match e { Er::T(s) => consume!(T, s, cx, E, A), Er::Q(s) => consume!(Q, s, cx, E, A) } }

    // ---------- the oracle: the property itself, item by item ----------
    #[derive(Clone, Debug, PartialEq)]
    pub struct Exp { logs: Vec<Vec<u64>>, run: Run, pulled: usize }
    pub fn oracle(steps: &Steps, stages: &[Stage], fault: Option<(usize, u64)>, drain: bool) -> Exp {
        let mut logs: Vec<Vec<u64>> = vec![vec![]; stages.len()];
        let mut trace = vec![]; let mut drained = vec![];
        for (i, (items, oe)) in steps.iter().enumerate() {
            for x in items {
                let mut cur = Some(*x);
                for (k, st) in stages.iter().enumerate() { let Some(c) = cur else { break }; let r = apply(st, &logs[k], c); if st.beh != Beh::C { logs[k].push(c); } cur = r; } // to_quads / to_triples take no closure: nothing to log
                if let Some(y) = cur {
                    if drain { drained.push(Ok(y)); continue; }
                    trace.push(y);
                    if let Some((j, e)) = fault { if trace.len() == j + 1 { return Exp { logs, run: Run { trace, drained, out: Outc::Sink(e) }, pulled: i + 1 } } }
                }
            }
            if let Some(e) = oe { if drain { drained.push(Err(*e)); } else { return Exp { logs, run: Run { trace, drained, out: Outc::Source(*e) }, pulled: i + 1 } } }
        }
        Exp { logs, run: Run { trace, drained, out: Outc::Done }, pulled: steps.len() }
    }

    // ---------- generation ----------
    fn gen_fb(r: &mut Rng, prev: Option<&Stage>) -> FB {
        // a partial predicate right behind the stage that establishes its domain
        if let Some(p) = prev { match p.beh { Beh::F(FB::Named) if r.chance(2, 3) => return FB::PartialGLt(1 + r.below(3) as u64), Beh::F(FB::Even) if r.chance(2, 3) => return FB::PartialHalfLt(1 + r.below(4) as u64), _ => {} } }
        match r.below(14) { 0 | 1 => FB::Even, 2 => FB::Lt(2 + r.below(7) as u64), 3 | 4 => FB::Named, 5 => FB::Default, 6 => FB::All, 7 => FB::Nothing, 8 | 9 => FB::FirstN(r.below(4) as u64), 10 => FB::Alternate, 11 => FB::Dedup, 12 => FB::DedupG, _ => if r.chance(1, 2) { FB::PartialGLt(2) } else { FB::PartialHalfLt(3) } }
    }
    fn gen_mb(r: &mut Rng) -> MB { match r.below(6) { 0 => MB::Id, 1 => MB::Succ, 2 => MB::SetGraph(r.below(4) as u64), 3 => MB::DropGraph, _ => MB::AddCalls } }
    fn gen_fmb(r: &mut Rng) -> FMB { match r.below(6) { 0 => FMB::HalfEven, 1 => FMB::NamedToDefault, 2 => FMB::LtSucc(2 + r.below(7) as u64), 3 | 4 => FMB::FirstNSucc(r.below(4) as u64), _ => FMB::DedupSucc } }
    fn gen_stage(r: &mut Rng, meth: Meth, from: Fl, prev: Option<&Stage>) -> Stage {
        let other = if from == Fl::T { Fl::Q } else { Fl::T };
        let (beh, to) = match meth {
            Meth::Conv => (Beh::C, other),
            Meth::FilterX | Meth::FilterI => (Beh::F(gen_fb(r, prev)), from),
            Meth::MapX | Meth::MapI => (Beh::M(gen_mb(r)), from), Meth::MapCross => (Beh::M(gen_mb(r)), other),
            Meth::FmX | Meth::FmI => (Beh::FM(gen_fmb(r)), from), Meth::FmCross => (Beh::FM(gen_fmb(r)), other),
        };
        Stage { meth, beh, from, to }
    }
    fn c_fb(b: FB) -> String { match b { FB::Even => "PEven".into(), FB::Lt(k) => format!("(PLt {k})"), FB::Named => "PNamed".into(), FB::Default => "PDefault".into(), FB::All => "PAll".into(), FB::Nothing => "PNothing".into(), FB::FirstN(k) => format!("(PFirstN {k})"), FB::Alternate => "PAlternate".into(), FB::Dedup => "PDedup".into(), FB::DedupG => "PDedupG".into(), FB::PartialGLt(k) => format!("(PPartialGLt {k})"), FB::PartialHalfLt(k) => format!("(PPartialHalfLt {k})") } }
    fn c_mb(b: MB) -> String { match b { MB::Id => "MId".into(), MB::Succ => "MSucc".into(), MB::SetGraph(k) => format!("(MSetGraph {k})"), MB::DropGraph => "MDropGraph".into(), MB::AddCalls => "MAddCalls".into() } }
    fn c_fmb(b: FMB) -> String { match b { FMB::HalfEven => "XHalfEven".into(), FMB::NamedToDefault => "XNamedToDefault".into(), FMB::LtSucc(k) => format!("(XLtSucc {k})"), FMB::FirstNSucc(k) => format!("(XFirstNSucc {k})"), FMB::DedupSucc => "XDedupSucc".into() } }
    fn c_stage(st: &Stage) -> String { let to = if st.to == Fl::T { "FlT" } else { "FlQ" }; match st.beh { Beh::C => if st.to == Fl::Q { "SToQuads".into() } else { "SToTriples".into() }, Beh::F(b) => format!("(SFilter {})", c_fb(b)), Beh::M(b) => format!("(SMap {} {to})", c_mb(b)), Beh::FM(b) => format!("(SFilterMap {} {to})", c_fmb(b)) } }
    fn c_nums(v: &[u64]) -> String { coq_list(v.iter().map(|x| x.to_string())) }

    pub fn case(idx: usize, r: &mut Rng, verbose: bool, sum: &mut Summary, cases: &mut Vec<(usize, String)>, seen: &mut std::collections::HashSet<String>) {
        let j = idx - 3_000_000;
        // depth: two cases out of three have two stages, and their pair of methods is swept systematically (number q of the sweep)
        let (depth, sweep) = match j % 6 { 0..=3 => (2, true), 4 => (3, false), _ => (r.below(2), false) };
        let q = j / 6 * 4 + j % 6;
        let start = if sweep { if (q / 81) % 2 == 0 { Fl::Q } else { Fl::T } } else if r.chance(1, 2) { Fl::Q } else { Fl::T };
        let core: &[Meth] = &ALL_METHS[..6];
        let mut stages: Vec<Stage> = vec![]; let mut fl = start;
        for k in 0..depth {
            let meth = if sweep { let p = q % 81; if k == 0 { ALL_METHS[p / 9] } else { ALL_METHS[p % 9] } } else if depth == 3 { *r.pick(core) } else { *r.pick(&ALL_METHS) };
            let st = gen_stage(r, meth, fl, stages.last()); fl = st.to; stages.push(st);
        }
        // the source: one item per step (iterator) or several (batching source); named graphs only make sense for quads
        let batch = depth < 3 && r.chance(1, 2);
        let gen_item = |r: &mut Rng| -> u64 { let g = if start == Fl::Q { *r.pick(&[0u64, 0, 1, 1, 2, 3]) } else { 0 }; 1000 * g + r.below(8) as u64 };
        let steps: Steps = if batch {
            (0..r.below(6)).map(|_| ((0..r.below(5)).map(|_| gen_item(r)).collect(), if r.chance(1, 6) { Some(100 + r.below(50) as u64) } else { None })).collect()
        } else {
            let len = 2 + r.below(8);
            let mut v: Steps = (0..len).map(|_| (vec![gen_item(r)], None)).collect();
            if r.chance(1, 2) { let k = r.below(len + 1); v.insert(k, (vec![], Some(100 + r.below(50) as u64))); }
            v
        };
        let last_is_map = stages.last().map_or(false, |s| matches!(s.beh, Beh::M(_) | Beh::FM(_)));
        let kind = if last_is_map && r.chance(1, 5) { CK::Drain } else if depth == 3 { *r.pick(&[CK::TryEachX, CK::StepSomeX, CK::ForEachX]) } else { *r.pick(&[CK::TryEachX, CK::TryEachX, CK::StepSomeX, CK::ForEachX, CK::ForSomeX, CK::TryEachI, CK::StepSomeI, CK::ForEachI, CK::Collect, CK::AddTo]) };
        let fault = if matches!(kind, CK::TryEachX | CK::StepSomeX | CK::TryEachI | CK::StepSomeI) && r.chance(1, 2) { Some((r.below(4), 200 + r.below(50) as u64)) } else { None };
        let cx = Cx { kind, fault };
        let exp = oracle(&steps, &stages, fault, kind == CK::Drain);

        // (1) direct calls on concrete values
        let handles = |stages: &[Stage]| -> Vec<H> { stages.iter().map(|st| H { st: *st, log: Rc::new(RefCell::new(vec![])) }).collect() };
        let hs = handles(&stages); let pulls = Rc::new(Cell::new(0usize));
        let run_d = match (start, batch, depth == 3) {
            (Fl::T, false, false) => direct_t_iter2(iter_of(&steps, spo_of, &pulls), &hs, &cx), (Fl::Q, false, false) => direct_q_iter2(iter_of(&steps, quad_of, &pulls), &hs, &cx),
            (Fl::T, true, _) => direct_t_batch2(batch_of(&steps, spo_of, &pulls), &hs, &cx), (Fl::Q, true, _) => direct_q_batch2(batch_of(&steps, quad_of, &pulls), &hs, &cx),
            (Fl::T, false, true) => direct_t_iter3(iter_of(&steps, spo_of, &pulls), &hs, &cx), (Fl::Q, false, true) => direct_q_iter3(iter_of(&steps, quad_of, &pulls), &hs, &cx),
        };
        let logs_d: Vec<Vec<u64>> = hs.iter().map(|h| h.log.borrow().clone()).collect();
        let pulled_d = pulls.get();
        // (2) the same chain with every intermediate value type-erased
        let hs2 = handles(&stages); let pulls2 = Rc::new(Cell::new(0usize));
        let base2 = match (start, batch) { (Fl::T, false) => bt(iter_of(&steps, spo_of, &pulls2)), (Fl::Q, false) => bq(iter_of(&steps, quad_of, &pulls2)), (Fl::T, true) => bt(batch_of(&steps, spo_of, &pulls2)), (Fl::Q, true) => bq(batch_of(&steps, quad_of, &pulls2)) };
        let run_e = erased(base2, &hs2, &cx);
        let logs_e: Vec<Vec<u64>> = hs2.iter().map(|h| h.log.borrow().clone()).collect();
        let pulled_e = pulls2.get();

        let text = format!("direct chain {} on a {} of {} steps={steps:?} consumer={kind:?} sink_fault={fault:?}", chain_name(&stages), if batch { "batching source" } else { "iterator" }, if start == Fl::T { "triples" } else { "quads (item = 1000 * graph + object)" });
        if verbose { println!("CASE {idx}: {text}\nDIRECT {run_d:?} logs={logs_d:?} pulled={pulled_d}\nERASED {run_e:?} logs={logs_e:?} pulled={pulled_e}\nORACLE {exp:?}"); }
        // a failed collect only returns the error: what was consumed is not observable
        let hide = |mut x: Run| { if kind == CK::Collect && x.out != Outc::Done { x.trace.clear(); } x };
        let exp_run = hide(exp.run.clone());
        // every step handed out is counted; a stream that ends normally is found exhausted without a further count
        let exp_pulled = if kind == CK::Drain { steps.len() } else { exp.pulled };
        let mut problems: Vec<String> = vec![];
        for (what, run, logs, pulled) in [("built with direct method calls on the concrete adapter values", &run_d, &logs_d, pulled_d), ("built with every intermediate value type-erased", &run_e, &logs_e, pulled_e)] {
            let run = hide(run.clone());
            if run != exp_run { problems.push(format!("[{what}] the consumer saw {:?}{} outcome {:?}; expected {:?}{} outcome {:?}", run.trace, if kind == CK::Drain { format!(" / drained {:?}", run.drained) } else { String::new() }, run.out, exp_run.trace, if kind == CK::Drain { format!(" / drained {:?}", exp_run.drained) } else { String::new() }, exp_run.out)); }
            for (k, (l, e)) in logs.iter().zip(exp.logs.iter()).enumerate() { if l != e { problems.push(format!("[{what}] the closure of stage #{k} ({}) was called with {l:?}; the items that passed the stages before it are {e:?}", stages[k].name())); } }
            if pulled != exp_pulled { problems.push(format!("[{what}] {pulled} steps were pulled from the source, expected {exp_pulled}")); }
        }
        if !problems.is_empty() { sum.oracle_failures.push((idx.to_string(), format!("{text}: {}", problems.join("; ")))); }
        sum.evaluations += 1;
        sum.bump(&format!("direct:depth:{depth}")); sum.bump(&format!("direct:consumer:{kind:?}")); sum.bump(if batch { "direct:source:batching" } else { "direct:source:iterator" });
        if depth >= 2 { sum.bump(&format!("direct:pair:{:?}.{:?}", stages[depth - 2].meth, stages[depth - 1].meth)); }
        let n_in: usize = steps.iter().map(|s| s.0.len()).sum();
        let stateful = stages.iter().any(|s| matches!(s.beh, Beh::F(FB::FirstN(_) | FB::Alternate | FB::Dedup | FB::DedupG | FB::PartialGLt(_) | FB::PartialHalfLt(_)) | Beh::M(MB::AddCalls) | Beh::FM(FMB::FirstNSucc(_) | FMB::DedupSucc)));
        if stateful { sum.bump("direct:stateful-or-partial-closure"); }
        let dropped = exp.logs.last().map_or(false, |l| l.len() < n_in) || exp.run.trace.len() + exp.run.drained.len() < n_in;
        let nontrivial = depth >= 1 && (dropped || (exp.run.out != Outc::Done && !exp.run.trace.is_empty()));
        if seen.insert(text.clone()) && nontrivial { sum.distinct_nontrivial += 1; }
        if nontrivial && stateful && sum.samples.len() < 12 && j % 7 == 0 { sum.samples.push(format!("case {idx}: {text} => {:?} logs={logs_d:?}", run_d)); }
        // the model inside Coq: same trace / outcome / logs / pulled steps
        let c_chain = coq_list(stages.iter().map(c_stage));
        let c_logs = coq_list(logs_d.iter().map(|l| c_nums(l)));
        if kind == CK::Drain {
            cases.push((idx, format!("direct_drain_ok {} {c_chain} {} {c_logs}", c_steps(&steps), coq_list(run_d.drained.iter().map(|x| match x { Ok(v) => format!("inl {v}"), Err(e) => format!("inr {e}") })))));
        } else if kind == CK::Collect && run_d.out != Outc::Done {
            cases.push((idx, format!("direct_hidden_ok {} {c_chain} {} {pulled_d} {c_logs}", c_steps(&steps), c_outc(&run_d.out))));
        } else {
            let c_fault = match fault { None => "None".to_string(), Some((j, e)) => format!("(Some ({j}%nat, {e}))") };
            cases.push((idx, format!("direct_ok {} {c_chain} {c_fault} {} {} {pulled_d} {c_logs}", c_steps(&steps), c_nums(&run_d.trace), c_outc(&run_d.out))));
        }
    }
}
