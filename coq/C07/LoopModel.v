(* C07/LoopModel.v -- definitions about the refinement loop of isomorphic_datasets
   (`loop { make_map; make_equivalence_classes; break if both counts unchanged; break if both
   partitions discrete }`, isomorphism/src/dataset.rs): the decidable conditions under which
   the unbounded loop is proved to stop, and an adversarial hash function under which it never
   stops.  Definitions only (proofs in LoopProofs.v). *)
From Sophia.C07 Require Import Model.

Section Loop.
Variable Hv : vquad -> N.
Variable d : list quad.
Variable bn : list str.

(* the colouring after k more rounds of make_map *)
Fixpoint iter_round (k : nat) (c : colouring) : colouring :=
  match k with O => c | S k' => iter_round k' (round Hv d bn c) end.

(* "no collision merges classes" at colouring c: two nodes that receive the same digest from
   make_map had the same colour in c, i.e. the partition induced by [round c] refines the
   partition induced by [c].  (Every view of a quad hashed for b contains b's own colour, so
   this can only fail by a collision of XOR-combined 64-bit hashes -- including the
   cancellation of pairs of EQUAL views, which sends a node to the digest 0.) *)
Definition no_merge_b (c : colouring) : bool :=
  forallb (fun b => forallb (fun b' =>
    implb (N.eqb (new_colour Hv d c b) (new_colour Hv d c b'))
          (N.eqb (look c b) (look c b'))) bn) bn.

(* ... at each of the colourings c^1 .. c^k computed by the loop started at c = c^0 *)
Fixpoint no_merge_run (k : nat) (c : colouring) : bool :=
  match k with
  | O => true
  | S k' => let c' := round Hv d bn c in no_merge_b c' && no_merge_run k' c'
  end.

(* the weaker condition that is really needed: the NUMBER of classes (eqcl.len()) does not
   decrease from c^i to c^(i+1), for i = 1 .. k *)
Fixpoint mono_run (k : nat) (c : colouring) : bool :=
  match k with
  | O => true
  | S k' => let c' := round Hv d bn c in
            Nat.leb (nclasses c') (nclasses (round Hv d bn c')) && mono_run k' c'
  end.
End Loop.

(* the two conditions for the loop that isomorphic_datasets runs on ONE of its arguments: the
   sorted statements, their blank nodes, the initial colouring, 2 * (number of blank nodes)
   rounds (the loop is only entered when both sides have the same number of blank nodes) *)
Definition loop_no_merge (Hv : vquad -> N) (d : list quad) : bool :=
  let s := sort_q iso_cmp d in
  let bn := bn_of s in
  no_merge_run Hv s bn (2 * length bn) (init_colouring s bn).
Definition loop_mono (Hv : vquad -> N) (d : list quad) : bool :=
  let s := sort_q iso_cmp d in
  let bn := bn_of s in
  mono_run Hv s bn (2 * length bn) (init_colouring s bn).

(* the number of rounds proved sufficient under [loop_mono] *)
Definition enough_fuel (d : list quad) : nat := S (2 * length (bn_of d)).

(* ---------- an adversarial "hash function" ----------
   three blank nodes, each in one statement `_:x <p> <i>` (i = 1, 2, 3).  The digest of a node
   is then the hash of one view (own colour, p, i): Hadv sends
     colour 1 (initial, one statement each) -> 5 for every node          (1 class)
     colour 5 -> 6 for the nodes of statements 1 and 2, 7 for the third  (2 classes)
     colours 6 and 7 -> 5                                                 (1 class)
   so the class count oscillates 1, 2, 1, 2, ... and neither break condition ever holds. *)
Definition adv_d : list quad :=
  [ mkQ (Bnode [97]) (Iri [112]) (Iri [49]) None;
    mkQ (Bnode [98]) (Iri [112]) (Iri [50]) None;
    mkQ (Bnode [99]) (Iri [112]) (Iri [51]) None ].
Definition Hadv (v : vquad) : N :=
  match v with
  | (VB col _, _, VA (Iri [o]), _) =>
      if col =? 5 then (if o =? 51 then 7 else 6) else 5
  | _ => 0
  end.
Definition adv_s : list quad := sort_q iso_cmp adv_d.
Definition adv_bn : list str := bn_of adv_s.
Definition adv_c0 : colouring := init_colouring adv_s adv_bn.
Definition adv_cA : colouring := round Hadv adv_s adv_bn adv_c0.
Definition adv_cB : colouring := round Hadv adv_s adv_bn adv_cA.

(* ---------- the same with a hash function that is INJECTIVE on the views ----------
   two statements per node, `_:x <p> <i>` and `_:x <q> <i>`: the digest of a node is the XOR of
   two hashes.  Hinj gives distinct values to distinct views (own colour, predicate, i) -- the
   <p> view gets a multiple of 1024, the <q> view the same plus a small "target" -- yet the XOR
   of the two is the target, which follows the oscillating table of Hadv: injectivity of the
   hash on single views does not make the XOR-combined digests collision-free. *)
Definition adv2_d : list quad :=
  [ mkQ (Bnode [97]) (Iri [112]) (Iri [49]) None; mkQ (Bnode [97]) (Iri [113]) (Iri [49]) None;
    mkQ (Bnode [98]) (Iri [112]) (Iri [50]) None; mkQ (Bnode [98]) (Iri [113]) (Iri [50]) None;
    mkQ (Bnode [99]) (Iri [112]) (Iri [51]) None; mkQ (Bnode [99]) (Iri [113]) (Iri [51]) None ].
Definition adv_target (col o : N) : N := if col =? 5 then (if o =? 51 then 7 else 6) else 5.
Definition Hinj (v : vquad) : N :=
  match v with
  | (VB col _, VA (Iri [pp]), VA (Iri [o]), _) =>
      let base := 1024 * (8 * col + (o - 48)) in
      if pp =? 112 then base else base + adv_target col o
  | _ => 0
  end.
Definition adv2_s : list quad := sort_q iso_cmp adv2_d.
Definition adv2_bn : list str := bn_of adv2_s.
Definition adv2_c0 : colouring := init_colouring adv2_s adv2_bn.
Definition adv2_cA : colouring := round Hinj adv2_s adv2_bn adv2_c0.
Definition adv2_cB : colouring := round Hinj adv2_s adv2_bn adv2_cA.

(* ---------- the tight-fuel run used by the correspondence cases ----------
   the model run with exactly the number of rounds proved sufficient; when the FNV stand-in
   does not satisfy [loop_mono] on this input the generous bound of iso_run is used *)
Definition iso_run_tight (d1 d2 : list quad) : option bool :=
  if loop_mono Hfnv d1 && loop_mono Hfnv d2
  then isomorphic Hfnv iso_eqb iso_cmp (enough_fuel d1) d1 d2
  else iso_run d1 d2.
Definition iso_tight_ok (d1 d2 : list quad) (answer : bool) : bool :=
  match iso_run_tight d1 d2 with Some b => Bool.eqb b answer | None => false end.
